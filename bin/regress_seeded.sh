#!/bin/bash
# usage: regress_seeded.sh [ids...]   — re-evaluates every stored seeded regression (or the named
# ones) against the quick check of the property it breaks, under two seeds.  Applies each patch to
# /repo, rebuilds, runs, reverts (bin/eval_patch.sh).  Writes seeded/REGRESSION.txt.
HERE="$(cd "$(dirname "$0")/.." && pwd)"
IDS="$@"
[ -z "$IDS" ] && IDS=$(ls "$HERE/seeded" | grep -E '^C[0-9]+[a-z]$')
OUT="$HERE/seeded/REGRESSION.txt"
[ $# -eq 0 ] && : > "$OUT"
for id in $IDS; do
  prop=$(python3 -c "import json;print(json.load(open('$HERE/seeded/$id/meta.json'))['breaks_property'])")
  res=$("$HERE/bin/eval_patch.sh" "$HERE/seeded/$id/patch.diff" "$prop" "20260924 1" 2>&1 | grep -E "^seed=" | sed -E 's/detail=.*//' | cut -c1-160)
  n=$(echo "$res" | grep -c CAUGHT)
  echo "$id $prop caught_in=$n/2" | tee -a "$OUT"
  echo "$res" | sed 's/^/    /' >> "$OUT"
done
