#!/bin/bash
# Determinism proof: every run is a pure function of its seed.  For each property, N runs are
# executed three times in separate processes (16 threads, 16 threads again, 3 threads) and under a
# second VERIF_SEED; per-run digests (final store digest x event count) must be identical.
# usage: determinism.sh [runs-per-property]   exit 0 = identical, 2 = divergence (harness bug)
HERE="$(cd "$(dirname "$0")/.." && pwd)"
BIN="$HERE/sim/target/release/mfisim"
N="${1:-400}"
T=$(mktemp -d /var/tmp/mfisim_det.XXXX)
cp "$HERE/known_findings.json" "$T/" 2>/dev/null
rc=0
total=0
for seed in 20260924 7; do
  for p in C01 C02 C03 C04 C05 C06 C07 C08 C09 C10 C11 C12 C13 C14 C15 C16 C17 C19 C20; do
    n=$N; [ "$p" = "C08" ] && n=$((N/4))
    VERIF_DIR=$T VERIF_SEED=$seed "$BIN" check --property $p --runs $n --threads 16 --digests $T/a >/dev/null
    VERIF_DIR=$T VERIF_SEED=$seed "$BIN" check --property $p --runs $n --threads 16 --digests $T/b >/dev/null
    VERIF_DIR=$T VERIF_SEED=$seed "$BIN" check --property $p --runs $n --threads 3  --digests $T/c >/dev/null
    if cmp -s $T/a $T/b && cmp -s $T/a $T/c; then
      total=$((total + $(wc -l < $T/a)))
    else
      echo "DIVERGENCE property=$p seed=$seed"; diff $T/a $T/b | head -3; diff $T/a $T/c | head -3; rc=2
    fi
  done
done
echo "determinism: $total run digests compared three ways, rc=$rc"
rm -rf "$T"
exit $rc
