#!/bin/bash
# usage: mk_worktree.sh <name>  — scratch worktree of /repo HEAD under /tmp with a pre-seeded target dir
set -e
N="$1"
D="/tmp/wt_$N"
git -C /repo worktree remove --force "$D" 2>/dev/null || true
rm -rf "$D"
git -C /repo worktree add --detach "$D" HEAD >/dev/null 2>&1
# seed the build cache so only the workspace crates need rebuilding
cp -a /repo/target "$D/target"
echo "$D"
