#!/bin/bash
# Build the simulator (and, through its path dependency, the marginfi program from /repo's
# current working tree) offline.
set -euo pipefail
cd "$(dirname "$0")/../sim"
export CARGO_NET_OFFLINE=true
cargo build --release --offline 2>&1 | tail -3
