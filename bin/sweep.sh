#!/bin/bash
# usage: sweep.sh "<ids>" "<seeds>" [tier]   — build in place, then run each check per seed.
# Meant for `vp run -- bin/sweep.sh ...` (works from a snapshot: builds its own target dir).
HERE="$(cd "$(dirname "$0")/.." && pwd)"
cd "$HERE/sim" && CARGO_NET_OFFLINE=true cargo build --release --offline 2>&1 | tail -1
BIN="$HERE/sim/target/release/mfisim"
TIER="${3:-thorough}"
export VERIF_DIR="$HERE"
rc=0
for s in $2; do
  for p in $1; do
    out=$(VERIF_SEED=$s "$BIN" check --property $p --tier $TIER | grep -E "^(violation|VIOLATION|HARNESS|done)" | tr '\n' ' ')
    echo "seed=$s $p: $out"
    case "$out" in *exit=0*) ;; *) rc=1;; esac
  done
done
echo "sweep finished rc=$rc"
exit $rc
