#!/bin/bash
# usage: eval_patch.sh <patch.diff> "<property ids>" [seeds]
# Applies a patch to /repo, rebuilds, runs the named quick checks (under each seed), reverts /repo.
# Prints one line per (seed, property): CAUGHT <rule> / missed.   Never leaves /repo modified.
P="$1"; IDS="$2"; SEEDS="${3:-20260924}"
HERE="$(cd "$(dirname "$0")/.." && pwd)"
T=$(mktemp -d /var/tmp/mfisim_eval.XXXX)
cp "$HERE/known_findings.json" "$T/" 2>/dev/null
if [ -n "$(git -C /repo status --porcelain --untracked-files=no)" ]; then echo "/repo not clean"; exit 2; fi
git -C /repo apply "$P" || { echo "patch does not apply"; exit 2; }
trap 'git -C /repo checkout -- . ; (cd "$HERE/sim" && cargo build --release --offline >/dev/null 2>&1)' EXIT
( cd "$HERE/sim" && CARGO_NET_OFFLINE=true cargo build --release --offline 2>&1 | grep -E "^error" -A5 | head -20 )
for s in $SEEDS; do
  for p in $IDS; do
    out=$(VERIF_DIR=$T VERIF_SEED=$s "$HERE/sim/target/release/mfisim" check --property $p --tier quick | grep -E "^(violation|HARNESS|done)")
    if echo "$out" | grep -q "^violation"; then
      echo "seed=$s $p CAUGHT $(echo "$out" | grep '^violation' | cut -c1-260)"
    else
      echo "seed=$s $p missed ($(echo "$out" | grep '^done' | grep -o 'runs=[0-9]*'))"
    fi
  done
done
rm -rf "$T"
