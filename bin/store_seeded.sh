#!/bin/bash
# usage: store_seeded.sh <id> <worktree> <property> "<needs>" "<caught-by text>" "<demo cmd>"
ID="$1"; WT="$2"; PROP="$3"; NEEDS="$4"; CAUGHT="$5"; DEMO="$6"
D="/verif/seeded/$ID"; mkdir -p "$D"
cp "$WT/patch.diff" "$D/patch.diff"; cp "$WT/demo.diff" "$D/demo.diff" 2>/dev/null
python3 - "$D/meta.json" "$ID" "$PROP" "$NEEDS" "$CAUGHT" "$DEMO" <<'PY'
import json,sys
out,i,prop,needs,caught,demo=sys.argv[1:7]
json.dump({"id":i,"breaks_property":prop,"needs_to_manifest":needs,"demonstration":demo,
 "confirmed":"in a scratch worktree of /repo: builds; all 172 baseline tests still pass with the patch; the demonstration fails with the patch and passes with only the patch reverted (bin/confirm_seeded.sh)",
 "checks_run":caught,"author":"independent sub-agent given only the property text"},open(out,'w'),indent=1)
PY
echo stored $D
