#!/bin/bash
# usage: check.sh <property-id> quick|thorough      |  check.sh replay <file>
# exit 0: property held on everything explored; 1: VIOLATION line printed; 2: harness error
set -uo pipefail
HERE="$(cd "$(dirname "$0")/.." && pwd)"
export VERIF_DIR="$HERE"
export CARGO_NET_OFFLINE=true
cd "$HERE/sim"
# always rebuild from /repo's current working tree (no-op when nothing changed)
if ! cargo build --release --offline >"$HERE/sim/target/last_build.log" 2>&1; then
  mkdir -p "$HERE/sim/target"
  cargo build --release --offline 2>&1 | tail -30
  echo "HARNESS-ERROR: build failed"
  exit 2
fi
BIN="$HERE/sim/target/release/mfisim"
if [ "${1:-}" = "replay" ]; then
  exec "$BIN" replay "$2"
fi
ID="${1:?property id}"
TIER="${2:-${VERIF_TIER:-quick}}"
exec "$BIN" check --property "$ID" --tier "$TIER"
