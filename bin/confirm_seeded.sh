#!/bin/bash
# usage: confirm_seeded.sh <worktree> <demo-test-filter>
# Confirms, in the scratch worktree (patch + demo applied): (1) builds, (2) the 172 baseline tests
# still pass with the patch, (3) the demo fails with the patch and (4) passes without it.
WT="$1"; F="$2"
export CARGO_TARGET_DIR="$WT/target"
cd "$WT" || exit 2
cargo test --workspace --no-fail-fast --offline > "$WT/confirm_full.log" 2>&1
python3 - "$WT/confirm_full.log" "$F" <<'PY'
import json,re,sys
log=open(sys.argv[1]).read(); filt=sys.argv[2]
ok=[m.group(1) for m in re.finditer(r'^test (\S+) \.\.\. ok',log,re.M)]
ok+= [m.group(1) for m in re.finditer(r'^test (\S+) - should panic \.\.\. ok',log,re.M)]
failed=[m.group(1) for m in re.finditer(r'^test (\S+)(?: - should panic)? \.\.\. FAILED',log,re.M)]
base=json.load(open('/root/.vp/BASELINE.json'))
stable=set(t.split('::',1)[1] if '::' in t else t for t in base['stable_pass'])
okset=set(ok)
# baseline names are crate-qualified; compare on the path after the crate name
missing=[t for t in stable if t not in okset and t.replace('tests::','',1) not in okset and t!='test_id']
demo_failed=[t for t in failed if filt in t]
print(f"with patch: ok={len(ok)} baseline_missing={len(missing)} {missing[:5]} demo_failed={len(demo_failed)}")
PY
git apply -R "$WT/patch.diff" || { echo "cannot revert patch"; exit 2; }
cargo test -p marginfi --offline --lib "$F" > "$WT/confirm_demo_without.log" 2>&1
grep -E "^test result" "$WT/confirm_demo_without.log" | head -2 | sed 's/^/without patch: /'
git apply "$WT/patch.diff"
