#!/usr/bin/env python3
"""Regenerate MANIFEST.json from the table below (kept in one place so it stays valid)."""
import json
props=[json.loads(l) for l in open('/verif/properties.jsonl')]
TECH="deterministic simulation with fault injection: seeded schedule/fault search over the real program entry point, per-step monitor against an independent rational reference, minimised replay"
NOTE="native x86-64 build of the program and of SPL-Token/Token-2022; account store, commit/rollback, CPI privilege rules, System program and sysvars are a stub runtime; compute/heap/stack limits not modelled; sampled, not exhaustive"
claimed={
 "C01":("exploration","§3 C01","per-instruction solvency delta of every custodied bank against an allowance derived from the pre-state magnitudes; exemptions (token-less write-off, killed bank) observed, not assumed"),
 "C02":("exploration","§3 C02","closed-world share ledger: bit-exact total-vs-position deltas per instruction, counted dust budget, close_bank precondition"),
 "C03":("exploration","§3 C03","per-operation user-side value accounting at post-accrual share values, rounding direction of full withdraw/repay on integers, zero-time wealth per (authority, mint)"),
 "C04":("exploration","§3 C04","two-sided verdict check of every borrow/withdraw (and of boundary forks found by bisection to the exact accept/reject amount) against an independent rational risk engine with derived error bounds"),
 "C05":("exploration","§3 C05","reference liquidation spec: eligibility, health improvement, no flips, liquidator health, 95/97.5/2.5 split incl. insurance whole/fraction, on main timeline and on boundary forks"),
 "C06":("exploration","§3 C06","accrual monotonicity/conservation/curve agreement on every observed accrual plus fork differential 'tx == accrue; tx' for every handler kind and idempotence of accrual"),
 "C07":("exploration","§3 C07","reference bankruptcy spec in the insured/partial/uninsured/wiped regimes, entitlement of the signer, depositor share invariance, killed-state permanence over the whole history"),
 "C16":("exploration","§3 C16","structural invariants of every changed user account after every instruction plus history checks (tag permanence, transfer once, close preconditions, disabled accounts)"),
 "C17":("exploration","§3 C17","cap and utilisation post-conditions after every deposit/borrow/withdraw; 'up to limit never fails for capacity'; capacity +-2 probes on forks"),
}
checks=[]
for pid,(lvl,ref,text) in claimed.items():
    checks.append({
      "property_id":pid,
      "quick_cmd":f"bin/check.sh {pid} quick",
      "thorough_cmd":f"bin/check.sh {pid} thorough",
      "evidence_file":f"/verif/evidence/{pid}.json",
      "replay_cmd_template":"bin/check.sh replay {path}",
      "engine":"mfisim",
      "level_claimed":{"category":lvl,"text":text,"design_ref":ref},
      "level_note":NOTE,
      "technique":TECH})
na=[]
for p in props:
    if p["id"] not in claimed:
        if p["id"]=="C18": r="pure function of (curve config, utilisation): no schedule, clock, fault or interleaving to simulate (DESIGN.md §5)"
        elif p["id"]=="C20": r="pure integer conversion functions of third-party venue state; venues are not in this repository, a simulated venue would be entirely a stub (DESIGN.md §5)"
        else: r="check not built yet in this round (planned, DESIGN.md §8)"
        na.append({"property_id":p["id"],"reason":r})
m={"version":1,
 "setup_cmd":"bin/setup.sh",
 "hooks":{"guard":"mrgnlabs_marginfi_v2_verif","enable":"none needed: every seam is an existing public interface (marginfi::entry, SyscallStubs, Instructions sysvar account); nothing in /repo is compiled differently","baseline_off_cmd":"cd /repo && cargo test --workspace --no-fail-fast --offline","source_commits":[],"add_only":True},
 "engines":[{"name":"mfisim","path":"/verif/sim","serves_properties":sorted(claimed.keys()),"kind_free_text":"deterministic simulator: real marginfi entrypoint + real SPL token programs under a stub runtime, seeded scheduler, fault injection, monitors, replay/minimise"}],
 "checks":checks,
 "not_applicable":na,
 "notes":"see DESIGN.md; fix: commits in /repo are listed in known_findings.json"}
json.dump(m,open('/verif/MANIFEST.json','w'),indent=1)
print("claimed",len(checks),"not_applicable",len(na))
