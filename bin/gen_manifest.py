#!/usr/bin/env python3
"""Regenerate MANIFEST.json from the table below (kept in one place so it stays valid)."""
import json
props=[json.loads(l) for l in open('/verif/properties.jsonl')]
TECH="deterministic simulation with fault injection: seeded schedule/fault search over the real program entry point, per-step monitor against an independent rational reference, minimised replay"
NOTE="native x86-64 build of the program and of SPL-Token/Token-2022; account store, commit/rollback, CPI privilege rules, System program and sysvars are a stub runtime; compute/heap/stack limits not modelled; sampled, not exhaustive"
claimed={
 "C01":("exploration","§3 C01","per-instruction solvency delta of every custodied bank against an allowance derived from the pre-state magnitudes; exemptions (token-less write-off, killed bank) observed, not assumed"),
 "C02":("exploration","§3 C02","closed-world share ledger: bit-exact total-vs-position deltas per instruction, counted dust budget, close_bank precondition"),
 "C03":("exploration","§3 C03","per-operation user-side value accounting at post-accrual share values, rounding direction of full withdraw/repay on integers, zero-time wealth per (authority, mint)"),
 "C04":("exploration","§3 C04","two-sided verdict check of every borrow/withdraw (and of boundary forks found by bisection to the exact accept/reject amount) against an independent rational risk engine with derived error bounds"),
 "C05":("exploration","§3 C05","reference liquidation spec: eligibility, health improvement, no flips, liquidator health, 95/97.5/2.5 split incl. insurance whole/fraction, on main timeline and on boundary forks"),
 "C06":("exploration","§3 C06","accrual monotonicity/conservation/curve agreement on every observed accrual plus fork differential 'tx == accrue; tx' for every handler kind and idempotence of accrual"),
 "C07":("exploration","§3 C07","reference bankruptcy spec in the insured/partial/uninsured/wiped regimes, entitlement of the signer, depositor share invariance, killed-state permanence over the whole history"),
 "C08":("fault_enumeration","§3 C08","exhaustive single-mutation sweep (on forks) of every sampled accepted transaction against a hand-written binding table: every role signer unsigned and re-signed by every identity, every bound slot replaced by every applicable foreign twin; exception paths (frozen account, receivership, permissionless bankruptcy) recognised by an independent entitlement predicate"),
 "C09":("fault_enumeration","§3 C09","oracle fault injection (28 fault kinds x role of the faulted bank) with the real price adapter executed on forks after every oracle write and clock advance: verdict and value compared with the reference; decisions that depended on a price are judged with unusable collateral at zero and unusable debt prices as fatal"),
 "C10":("exploration","§3 C10","reference acceptor for receivership transaction shapes (start first after whitelisted prefix, single, matching end last for the same account, only withdraw/repay in between, start/end not via CPI) plus end-state inequalities on the reference model (unhealthy at start, not worse and not positive at end, premium bound, no zero-weight/zero-price seizure, markers never survive); brackets with venue-withdrawal legs in venue-bank worlds"),
 "C11":("exploration","§3 C11","flash-loan bracket: flag never survives a committed transaction, every flagged account is initially healthy at commit by the reference engine, the named end is a later matching end not under CPI, flagged accounts are never liquidated/settled, forbidden account states never start"),
 "C12":("exploration","§3 C12","field-level byte diff of every successful admin instruction against the role's allowed-write mask, frozen-bank masks, freeze permanence over the whole history, deleverage bracket acceptor and daily window accounting"),
 "C13":("exploration","§3 C13","independent rational validator of every accepted bank configuration (weights, isolated, oracle age, e-mode entries vs this bank's liability weights and the group's caps, killed state neither entered nor left) plus equal-price implication init-healthy => maint-healthy with the real pulse_health on forks"),
 "C14":("exploration","§3 C14","verdict table instruction kind x bank state x cached-pause region; state-level reading: while the cached pause is in force no vault balance or position of the group changes; refusals for a pause that is not in force are violations"),
 "C15":("exploration","§3 C15","adversarial fee-admin pause game under simulated time with boundary-targeted clocks; bounds on until, counters and resets after every step; bounded-liveness canary deposits on forks at cached expiry -1/0 and now+3600"),
 "C16":("exploration","§3 C16","structural invariants of every changed user account after every instruction plus history checks (tag permanence, transfer once, close preconditions, disabled accounts); integration-position cap and tag rules reached through the real solend / kamino / drift deposits and withdrawals against stub venues"),
 "C19":("exploration","§3 C19","exact (rational) fee-collection arithmetic and bucket deltas, canonical recomputation of every destination, sanctioned-door check for every draw-down of fee / insurance / emissions vaults, emissions conservation and proportional accrual"),
 "C20":("exploration","§3 C20","venue-bank worlds: staleness of the venue account under the simulated clock (never priced, never transacted on when not refreshed in the current slot / second), the real exchange-rate-adjusted price adapters probed on forks after every venue write and clock advance (one-sided bound against price x exact rate in exact rationals, derived truncation bound, monotonicity pairs, overflow must be reported), and 'no value from conversions' judged on every real venue deposit / withdrawal against independently computing stub venues (credit <= venue credit <= tokens paid, payout <= venue release, Drift burn >= mint of the same amount, bank claims <= venue position after every transaction, marginfi's expectation within its own tolerance of the exact venue result)"),
 "C17":("exploration","§3 C17","cap and utilisation post-conditions after every deposit/borrow/withdraw; 'up to limit never fails for capacity'; capacity +-2 probes on forks"),
}
checks=[]
for pid,(lvl,ref,text) in claimed.items():
    checks.append({
      "property_id":pid,
      "quick_cmd":f"bin/check.sh {pid} quick",
      "thorough_cmd":f"bin/check.sh {pid} thorough",
      "evidence_file":f"/verif/evidence/{pid}.json",
      "replay_cmd_template":"bin/check.sh replay {path}",
      "engine":"mfisim",
      "level_claimed":{"category":lvl,"text":text,"design_ref":ref},
      "level_note":NOTE,
      "technique":TECH})
na=[]
for p in props:
    if p["id"] not in claimed:
        if p["id"]=="C18": r="pure function of (curve config, utilisation): no schedule, clock, fault or interleaving to simulate (DESIGN.md §5)"
        else: r="check not built yet in this round (planned, DESIGN.md §8)"
        na.append({"property_id":p["id"],"reason":r})
m={"version":1,
 "setup_cmd":"bin/setup.sh",
 "hooks":{"guard":"mrgnlabs_marginfi_v2_verif","enable":"none needed: every seam is an existing public interface (marginfi::entry, SyscallStubs, Instructions sysvar account); nothing in /repo is compiled differently","baseline_off_cmd":"cd /repo && cargo test --workspace --no-fail-fast --offline","source_commits":[],"add_only":True},
 "engines":[{"name":"mfisim","path":"/verif/sim","serves_properties":sorted(claimed.keys()),"kind_free_text":"deterministic simulator: real marginfi entrypoint + real SPL token programs under a stub runtime, seeded scheduler, fault injection, monitors, replay/minimise"}],
 "checks":checks,
 "not_applicable":na,
 "notes":"see DESIGN.md; fix: commits in /repo are listed in known_findings.json"}
json.dump(m,open('/verif/MANIFEST.json','w'),indent=1)
print("claimed",len(checks),"not_applicable",len(na))
