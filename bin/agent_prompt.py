#!/usr/bin/env python3
"""Print the sub-agent prompt for one property and one scratch worktree (nothing from /verif but the property text)."""
import json,sys
pid,wt=sys.argv[1],sys.argv[2]
HARD=len(sys.argv)>3 and sys.argv[3]=='hard'
FOCUS=sys.argv[4] if len(sys.argv)>4 else ''
p=[json.loads(l) for l in open('/verif/properties.jsonl') if json.loads(l)['id']==pid][0]
print(f"""You are helping to test a verification tool by producing one realistic, subtle regression in a codebase.

The codebase is marginfi-v2 (a Solana/Anchor lending program). You have your OWN scratch git worktree of it at {wt} — work ONLY inside that directory (never touch /repo or /verif). It builds offline. Useful commands (always run them from {wt}, with CARGO_TARGET_DIR={wt}/target so you use the pre-seeded build cache):
  CARGO_TARGET_DIR={wt}/target cargo build -p marginfi --offline            # must succeed
  CARGO_TARGET_DIR={wt}/target cargo test --workspace --offline --lib       # the unit tests; all that pass today must still pass
(The integration tests under programs/marginfi/tests need BPF artefacts that are absent and fail today for that reason; ignore them. The toolchain is pinned to 1.79.0 by rust-toolchain.toml. There is no network.)

The program is supposed to satisfy this property:

  TITLE: {p['title']}
  STATEMENT: {p['statement']}
  QUANTIFIED OVER: {p['quantifier']['text']}

YOUR TASK: make ONE small source change inside {wt}/programs or {wt}/type-crate (a few lines, the kind of slip a real developer could make in a refactor or a "harmless" optimisation) that BREAKS this property, while
  (1) the program still compiles, and
  (2) every unit test that passes today still passes (run the unit test command above before and after if in doubt), and
  (3) the breakage is NOT something ordinary use would expose at once: it should need something specific to manifest — a particular interleaving or ordering of instructions, a fault or abort at a particular point, a multi-step sequence, an unusual input or boundary value, a particular configuration, elapsed time, or two cooperating sites that each look fine alone.
Do not add feature flags, do not touch tests, do not change comments only, do not make the change trivially detectable (e.g. an instruction that always fails or always succeeds).

Then write a DEMONSTRATION that fails with your change and passes without it: preferably a Rust unit test in a new `#[cfg(test)]` module (put it in its own new file so it can be removed easily, e.g. {wt}/programs/marginfi/src/state/verif_demo_test.rs wired in with a `#[cfg(test)] mod verif_demo_test;` line) that calls the real functions involved and asserts the property on the specific scenario; if a unit test really cannot reach the changed code, a short standalone program or a precise step-by-step scenario description is acceptable. Actually run the demonstration both ways (with the change: fails; after `git stash` / reverting only the change: passes) and report the outputs.

Deliver, in your final message:
  - the path of a file {wt}/patch.diff containing ONLY the regression (output of `git diff` for the source change, without the demonstration),
  - the path of a file {wt}/demo.diff containing ONLY the demonstration (the new test file and the one `mod` line),
  - the exact command to run the demonstration,
  - 3-6 sentences: what the change is, why it breaks the property, and exactly what is needed for it to manifest (which instructions in which order, which values, which configuration).
Leave the worktree with BOTH the change and the demonstration applied. Be economical: read only the code you need. NEVER use `git stash` (the stash is shared between worktrees and other people work in sibling worktrees): to run the demonstration without your change use `git apply -R patch.diff`, then `git apply patch.diff` to restore it."""
+ ("""

HARD MODE: assume the verification tool is a randomized end-to-end simulator that executes the real program with many users, admins, liquidators, oracle updates and clock advances, and re-checks this property after every instruction against an independent model. A change that any ordinary sequence of a few instructions exposes will be caught at once and is useless. Make the breakage depend on a CONJUNCTION of at least three uncommon conditions (for example: a specific configuration value AND a particular order of two different instruction kinds AND an elapsed-time or boundary condition; or a rarely used instruction AND a particular account state AND a specific argument combination). Say precisely what the conjunction is.""" if HARD else "")
+ (("\n\nFOCUS: " + FOCUS) if FOCUS else ""))
