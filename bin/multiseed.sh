#!/bin/bash
# usage: multiseed.sh "<ids>" "<seeds>" — run quick checks of several properties under several seeds
HERE="$(cd "$(dirname "$0")/.." && pwd)"
BIN="$HERE/sim/target/release/mfisim"
mkdir -p /tmp/mfisim_multiseed; cp "$HERE/known_findings.json" /tmp/mfisim_multiseed/ 2>/dev/null
rc=0
for s in $2; do
  for p in $1; do
    out=$(VERIF_DIR=/tmp/mfisim_multiseed VERIF_SEED=$s "$BIN" check --property $p --tier quick | grep -E "^(violation|VIOLATION|HARNESS|done)" | tr '\n' ' ')
    case "$out" in *exit=0*) ;; *) echo "seed=$s $p: $out"; rc=1;; esac
  done
done
echo "multiseed finished rc=$rc"
exit $rc
