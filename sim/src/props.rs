//! Per-property check plans: which profiles run, how many runs per tier, evidence texts.

use crate::runner::Profile;

pub struct Plan {
    pub id: &'static str,
    pub level: &'static str,
    pub profiles: Vec<Profile>,
    pub quick_runs: u64,
    pub thorough_runs: u64,
    pub rule: &'static str,
}

const MKT: Profile = Profile {
    name: "MKT",
    faults: false,
};
const MKT_F: Profile = Profile {
    name: "MKT",
    faults: true,
};
const TX: Profile = Profile {
    name: "TX",
    faults: false,
};
const TX_F: Profile = Profile {
    name: "TX",
    faults: true,
};
const ADM: Profile = Profile {
    name: "ADM",
    faults: false,
};
const ADM_F: Profile = Profile {
    name: "ADM",
    faults: true,
};
const ORA: Profile = Profile {
    name: "ORA",
    faults: false,
};
const ORA_F: Profile = Profile {
    name: "ORA",
    faults: true,
};
const EMI: Profile = Profile {
    name: "EMI",
    faults: false,
};
const EMI_F: Profile = Profile {
    name: "EMI",
    faults: true,
};
const INTEG: Profile = Profile {
    name: "INTEG",
    faults: false,
};
const INTEGADM: Profile = Profile {
    name: "INTEGADM",
    faults: false,
};
const AUTH: Profile = Profile {
    name: "AUTH",
    faults: false,
};
const PAUSE: Profile = Profile {
    name: "PAUSE",
    faults: false,
};
const PAUSE_F: Profile = Profile {
    name: "PAUSE",
    faults: true,
};

pub fn plan(id: &str) -> Option<Plan> {
    Some(match id {
        "C02" => Plan {
            id: "C02",
            level: "exploration",
            profiles: vec![MKT, MKT_F, ADM, TX, INTEG],
            quick_runs: 3000,
            thorough_runs: 36_000,
            rule: "seeded runs of the market profile (fault-free and fault-injecting halves); one evaluation = one (instruction, bank) pair whose totals or positions changed, judged bit-exactly; distinct = instruction kind x which totals changed x number of closed slots",
        },
        "C16" => Plan {
            id: "C16",
            level: "exploration",
            profiles: vec![MKT, MKT_F, ADM, INTEG],
            quick_runs: 3000,
            thorough_runs: 40_000,
            rule: "seeded runs of the market, admin and integration (real venue deposits / withdrawals against stub Solend, Kamino and Drift venues) profiles; one evaluation = one user account changed by a successful instruction, all structural invariants judged; distinct = instruction kind x #active slots x tag classes x account flags",
        },
        "C04" => Plan {
            id: "C04",
            level: "exploration",
            profiles: vec![MKT, MKT_F, ADM, INTEG],
            quick_runs: 4000,
            thorough_runs: 30_000,
            rule: "seeded runs; one evaluation = one accepted or health-rejected borrow/withdraw (main timeline or boundary fork) judged against the independent rational risk engine; distinct = ix kind x verdict x #positions x e-mode x zeroed-collateral x isolated x fork",
        },
        "C01" => Plan {
            id: "C01",
            level: "exploration",
            profiles: vec![MKT, MKT_F, ADM, TX],
            quick_runs: 3600,
            thorough_runs: 30_000,
            rule: "seeded runs of the market profile (fault-free and fault-injecting halves); one evaluation = one (successful instruction, custodied bank) pair whose books or vault changed: dS >= -derived allowance; distinct = ix kind x utilisation decile x share-value class x magnitude decade",
        },
        "C03" => Plan {
            id: "C03",
            level: "exploration",
            profiles: vec![MKT, MKT_F],
            quick_runs: 3000,
            thorough_runs: 30_000,
            rule: "seeded runs of the market profile (fault-free and fault-injecting halves); one evaluation = one successful deposit/withdraw/borrow/repay judged from the user's side at post-accrual share values, plus zero-time wealth per (authority, mint); distinct = ix kind x all-flag x fractional-value class x share-value class",
        },
        "C06" => Plan {
            id: "C06",
            level: "exploration",
            profiles: vec![MKT, MKT_F],
            quick_runs: 3000,
            thorough_runs: 30_000,
            rule: "seeded runs of the market profile (fault-free and fault-injecting halves); one evaluation = one observed accrual (share value change) with monotonicity, fee sign, conservation and curve checks; each main-timeline handler tx with stale banks is re-executed on a fork after an explicit accrue and the resulting banks/vaults must be byte-identical; distinct = ix kind x utilisation decile x dt decade x fee class",
        },
        "C17" => Plan {
            id: "C17",
            level: "exploration",
            profiles: vec![MKT, MKT_F],
            quick_runs: 3000,
            thorough_runs: 30_000,
            rule: "seeded runs of the market profile (fault-free and fault-injecting halves); one evaluation = one successful deposit/borrow/withdraw that moved totals, or a capacity/utilisation rejection; boundary actor probes capacity -2..+2 on forks; distinct = ix kind x verdict x limit class x up-to-limit flag",
        },
        "C05" => Plan {
            id: "C05",
            level: "exploration",
            profiles: vec![MKT, MKT_F, INTEG],
            quick_runs: 3600,
            thorough_runs: 45_000,
            rule: "seeded runs of the market profile (fault-free and fault-injecting halves); one evaluation = one classic liquidation (accepted, or rejected with a liquidation error), judged against the reference: eligibility, health improvement, no flips, liquidator health, 95/97.5/2.5 split; boundary liquidator bisects the largest acceptable seize amount on forks; distinct = verdict x decimals pair x liquidator prior position x fork",
        },
        "C07" => Plan {
            id: "C07",
            level: "exploration",
            profiles: vec![MKT, MKT_F, ADM],
            quick_runs: 6000,
            thorough_runs: 40_000,
            rule: "seeded runs of the market profile (fault-free and fault-injecting halves); one evaluation = one bankruptcy settlement (accepted or rejected) judged against the reference bankruptcy spec in its three insurance regimes, plus killed-state permanence checked in every later state; distinct = regime x signer class x #depositors",
        },
        "C10" => Plan {
            id: "C10",
            level: "exploration",
            profiles: vec![TX, TX_F, TX, TX_F, INTEG],
            quick_runs: 3000,
            thorough_runs: 50_000,
            rule: "seeded runs of the transaction-shape profile (shape faults: missing/misplaced/repeated start or end, forbidden inner instruction, foreign/failing program, CPI wrapper; fault-free and fault-injecting halves) and of venue-bank worlds (brackets whose seizure leg is a venue withdrawal); one evaluation = one transaction containing a receivership start or end (committed or rejected); committed ones must be in the reference acceptor's language and satisfy the end-state inequalities on the reference model; distinct = transaction shape word x verdict",
        },
        "C11" => Plan {
            id: "C11",
            level: "exploration",
            profiles: vec![TX, TX_F],
            quick_runs: 2400,
            thorough_runs: 40_000,
            rule: "seeded runs of the transaction-shape profile (shape faults: missing/misplaced/repeated start or end, forbidden inner instruction, foreign/failing program, CPI wrapper; fault-free and fault-injecting halves); one evaluation = one transaction containing a flash-loan start or end; distinct = transaction shape word x verdict",
        },
        "C12" => Plan {
            id: "C12",
            level: "exploration",
            profiles: vec![ADM, ADM_F, TX, INTEG],
            quick_runs: 3600,
            thorough_runs: 40_000,
            rule: "seeded runs of the administrator / pause profiles interleaved with market activity (operator churn; fault-free and fault-injecting halves); one evaluation = one successful administrator instruction judged by field-level byte diff of the bank against the role's allowed-write mask (plus: no other bank, group, vault or user account moves), or one deleverage-bracket transaction judged by the reference acceptor; freeze permanence and the daily deleverage window are history checks; distinct = admin ix kind x frozen x set of changed fields, or bracket shape x verdict",
        },
        "C13" => Plan {
            id: "C13",
            level: "exploration",
            profiles: vec![ADM, ADM_F],
            quick_runs: 3200,
            thorough_runs: 40_000,
            rule: "seeded runs of the administrator / pause profiles interleaved with market activity (operator churn; fault-free and fault-injecting halves); one evaluation = one accepted or rejected configuration request judged by an independent rational validator of the resulting bank bytes; consequence 'init-healthy implies maint-healthy at equal prices' checked with the real pulse_health on a fork whose oracles are rewritten to spot=EMA, conf=0; distinct = ix kind x verdict x emode/plain x weights-changed",
        },
        "C14" => Plan {
            id: "C14",
            level: "exploration",
            profiles: vec![ADM, ADM_F, PAUSE, PAUSE_F, INTEGADM],
            quick_runs: 3000,
            thorough_runs: 40_000,
            rule: "seeded runs of the administrator / pause profiles interleaved with market activity (operator churn; fault-free and fault-injecting halves); one evaluation = one financial instruction (accepted or rejected) classified into a cell of the verdict table role x bank state x verdict, or a pause-gated instruction classified by cached-pause region; distinct = cell",
        },
        "C15" => Plan {
            id: "C15",
            level: "exploration",
            profiles: vec![PAUSE, PAUSE_F],
            quick_runs: 3200,
            thorough_runs: 40_000,
            rule: "seeded runs of the administrator / pause profiles interleaved with market activity (operator churn; fault-free and fault-injecting halves); one evaluation = one pause/unpause instruction classified by PanicState region (flag, counters, position of now relative to start+1800 and last_reset+86400, boundaries included) x result; canary deposits executed on forks at cached expiry -1/0 and now+3600; distinct = instruction x region x result",
        },
        "C08" => Plan {
            id: "C08",
            level: "fault_enumeration",
            profiles: vec![AUTH],
            quick_runs: 2500,
            thorough_runs: 8_000,
            rule: "two-group worlds running market, transaction-shape and administrator activity; for each sampled accepted transaction (<= 60 per run, biased to instruction kinds not yet swept) EVERY single mutation is executed on a fork: each role-signer slot unsigned and re-signed by every identity in the world, each bound slot replaced by each applicable foreign twin (other group/bank/vault/authority PDA, byte-identical clone owned by another program, clone at a wrong address, wrong account type, other token program, fake sysvar, other stored destination); one evaluation = one mutation; distinct = ix kind x slot x mutation kind x verdict",
        },
        "C09" => Plan {
            id: "C09",
            level: "fault_enumeration",
            profiles: vec![ORA, ORA_F, MKT_F, ADM, INTEG],
            quick_runs: 3000,
            thorough_runs: 30_000,
            rule: "oracle-fault profile: 16 Pyth / 12 Switchboard / fixed fault kinds (staleness at max_age -1/0/+1, confidence at 0 / max boundary / clamp region / over max, zero / negative / out-of-range price, partial verification, wrong discriminator, truncated, wrong owner, EMA divergence, omitted/misplaced/surplus oracle accounts) placed on banks someone holds a position in, then an operation depending on that price; after every oracle write and every clock advance the real price adapter is executed on a fork (pulse_bank_price_cache) and its verdict and value compared with the reference; one evaluation = one adapter probe or one judged borrow/withdraw/liquidation/bankruptcy; distinct = oracle kind x reference classification x verdict x trigger",
        },
        "C19" => Plan {
            id: "C19",
            level: "exploration",
            profiles: vec![EMI, EMI_F, MKT, ADM],
            quick_runs: 3200,
            thorough_runs: 40_000,
            rule: "fee/emissions profile interleaved with market activity: fee collection with buckets fractional / zero / above vault liquidity, admin and permissionless fee and insurance withdrawals, emissions set-up and top-up, settle / withdraw / permissionless withdraw with time advances; one evaluation = one judged collection, vault draw-down, settlement or payout; fee collection and bucket arithmetic are checked exactly (rationals), destinations are recomputed canonically (bank vaults, ATA of the global fee wallet, ATA of the stored emissions wallet); distinct = ix kind x bucket classes x liquidity class / settlement side x capped x dt",
        },
        "C20" => Plan {
            id: "C20",
            level: "exploration",
            profiles: vec![INTEG, INTEG, INTEGADM],
            quick_runs: 3000,
            thorough_runs: 24_000,
            rule: "venue-bank worlds (real marginfi venue deposits / withdrawals and the six real exchange-rate-adjusted price adapters against independently computing stub venues whose rate rises over simulated time, venue accounts refreshed or - as a fault - left stale, extreme venue states); one evaluation = one adapter probe on a fork after a venue write / clock advance (staleness verdict, adjusted price <= price x exact rate, truncation bound, monotonicity pair, overflow reported) or one venue deposit / withdrawal judged for 'no value from conversion' plus the cover invariant after every transaction; distinct = oracle setup x venue verdict x trigger, instruction x rate class",
        },
        _ => return None,
    })
}

pub const ALL: &[&str] = &["C01", "C02", "C03", "C04", "C05", "C06", "C07", "C08", "C09", "C10", "C11", "C12", "C13", "C14", "C15", "C16", "C17", "C19", "C20"];

pub const ASSUMPTIONS: &[&str] = &[
    "native x86-64 build of the program (same Rust source, overflow-checks on) instead of SBF; compute-unit, heap and stack limits are not modelled",
    "REAL code: marginfi entry/dispatch/constraints/handlers, SPL-Token 7 and Token-2022 6 processors, Pyth receiver SDK and Switchboard on-demand parsers",
    "STUB: account store with atomic commit/rollback, post-instruction runtime rules, CPI privilege rules, System program (CreateAccount/Transfer/Allocate/Assign), Clock/Rent sysvars, Instructions sysvar account",
    "venue programs (Solend, Kamino, Drift): STUBS written for the harness (venues.rs: own big-integer arithmetic rounding against the depositor, real SPL-Token movement between the marginfi liquidity vault and the venue's supply account, staleness refusal) behind the REAL marginfi {solend,kamino,drift}_{deposit,withdraw} and the six REAL exchange-rate-adjusted price adapters; venue reserve / obligation / spot-market / user accounts are byte fixtures; venue banks are created by the real add_bank and then byte-patched to what <venue>_add_pool + init would leave; add_pool / init_obligation / init_user / harvest_reward instructions are not executed; INTEG profile (C02, C04, C09, C16)",
    "sampled exploration: a clean batch is evidence, not proof",
];
