//! Per-property check plans: which profiles run, how many runs per tier, evidence texts.

use crate::runner::Profile;

pub struct Plan {
    pub id: &'static str,
    pub level: &'static str,
    pub profiles: Vec<Profile>,
    pub quick_runs: u64,
    pub thorough_runs: u64,
    pub rule: &'static str,
}

const MKT: Profile = Profile {
    name: "MKT",
    faults: false,
};
const MKT_F: Profile = Profile {
    name: "MKT",
    faults: true,
};

pub fn plan(id: &str) -> Option<Plan> {
    Some(match id {
        "C02" => Plan {
            id: "C02",
            level: "exploration",
            profiles: vec![MKT, MKT_F],
            quick_runs: 1200,
            thorough_runs: 30_000,
            rule: "seeded runs of the market profile (fault-free and fault-injecting halves); one evaluation = one (instruction, bank) pair whose totals or positions changed, judged bit-exactly; distinct = instruction kind x which totals changed x number of closed slots",
        },
        "C16" => Plan {
            id: "C16",
            level: "exploration",
            profiles: vec![MKT, MKT_F],
            quick_runs: 1200,
            thorough_runs: 30_000,
            rule: "seeded runs of the market profile; one evaluation = one user account changed by a successful instruction, all structural invariants judged; distinct = instruction kind x #active slots x tag classes x account flags",
        },
        "C04" => Plan {
            id: "C04",
            level: "exploration",
            profiles: vec![MKT, MKT_F],
            quick_runs: 1200,
            thorough_runs: 30_000,
            rule: "seeded runs; one evaluation = one accepted or health-rejected borrow/withdraw (main timeline or boundary fork) judged against the independent rational risk engine; distinct = ix kind x verdict x #positions x e-mode x zeroed-collateral x isolated x fork",
        },
        _ => return None,
    })
}

pub const ALL: &[&str] = &["C02", "C04", "C16"];

pub const ASSUMPTIONS: &[&str] = &[
    "native x86-64 build of the program (same Rust source, overflow-checks on) instead of SBF; compute-unit, heap and stack limits are not modelled",
    "REAL code: marginfi entry/dispatch/constraints/handlers, SPL-Token 7 and Token-2022 6 processors, Pyth receiver SDK and Switchboard on-demand parsers",
    "STUB: account store with atomic commit/rollback, post-instruction runtime rules, CPI privilege rules, System program (CreateAccount/Transfer/Allocate/Assign), Clock/Rent sysvars, Instructions sysvar account",
    "venue programs (Kamino/Drift/Solend) are not executed; integration-position clauses are vacuous",
    "sampled exploration: a clean batch is evidence, not proof",
];
