//! ADM / PAUSE profiles: every administrator role issuing its instructions with arguments drawn
//! from the whole domain (valid and invalid), operator churn between user transactions, and the
//! global fee admin's pause game.

use crate::actors::*;
use crate::ix;
use crate::model;
use crate::rt::Tx;
use crate::sim::{Event, Rng, Sim};
use crate::world::{gen_curve, w};
use anchor_lang::prelude::Pubkey;
use fixed::types::I80F48;
use marginfi_type_crate::constants::*;
use marginfi_type_crate::types::*;

macro_rules! some {
    ($rng:expr, $n:expr, $d:expr, $v:expr $(,)?) => {{
        let v = $v;
        if $rng.chance($n, $d) {
            Some(v)
        } else {
            None
        }
    }};
}

fn weight(rng: &mut Rng) -> WrappedI80F48 {
    let x = match rng.below(8) {
        0 => 0.0,
        1 => 1.0,
        2 => rng.below(101) as f64 / 100.0,
        3 => 1.0 + rng.below(101) as f64 / 100.0,
        4 => 2.0,
        5 => 2.0 + rng.below(300) as f64 / 100.0,
        6 => -(rng.below(100) as f64) / 100.0,
        _ => rng.below(1000) as f64 / 1000.0,
    };
    w(x)
}

fn flag_word(rng: &mut Rng) -> u64 {
    match rng.below(8) {
        0 => 0,
        1 => 1,
        2 => 2,
        3 => 3,
        4 => 1 << rng.below(64),
        5 => rng.u64(),
        6 => (1 << rng.below(8)) | (rng.below(4)),
        _ => rng.below(128),
    }
}

pub fn gen_ir_opt(rng: &mut Rng) -> InterestRateConfigOpt {
    let (zero, hundred, points) = gen_curve(rng);
    let fee = |rng: &mut Rng| w(rng.below(400) as f64 / 1000.0);
    let mut o = InterestRateConfigOpt {
        insurance_fee_fixed_apr: some!(rng, 1, 3, w(rng.below(50) as f64 / 1000.0)),
        insurance_ir_fee: None,
        protocol_fixed_fee_apr: None,
        protocol_ir_fee: None,
        protocol_origination_fee: some!(rng, 1, 4, w(rng.below(300) as f64 / 10_000.0)),
        zero_util_rate: None,
        hundred_util_rate: None,
        points: None,
    };
    if rng.chance(1, 2) {
        o.insurance_ir_fee = Some(fee(rng));
    }
    if rng.chance(1, 2) {
        o.protocol_ir_fee = Some(fee(rng));
    }
    if rng.chance(1, 3) {
        o.protocol_fixed_fee_apr = Some(w(rng.below(50) as f64 / 1000.0));
    }
    if rng.chance(2, 3) {
        o.zero_util_rate = Some(zero);
        o.hundred_util_rate = Some(hundred);
        o.points = Some(points);
    } else if rng.chance(1, 3) {
        // deliberately inconsistent pieces (must be rejected or stay valid)
        o.zero_util_rate = Some(rng.u64() as u32);
        o.points = some!(rng, 1, 2, points);
    }
    o
}

pub fn gen_bank_opt(rng: &mut Rng, bank: &Bank) -> BankConfigOpt {
    let mut o = BankConfigOpt::default();
    let valid = rng.chance(3, 5);
    if valid {
        // keep the implied ordering valid most of the time
        let isolated = bank.config.risk_tier == RiskTier::Isolated;
        if !isolated && rng.chance(1, 2) {
            let ai = rng.below(101) as f64 / 100.0;
            let am = (ai + rng.below(30) as f64 / 100.0).min(2.0);
            o.asset_weight_init = Some(w(ai));
            o.asset_weight_maint = Some(w(am));
        }
        if rng.chance(1, 2) {
            let lm = 1.0 + rng.below(50) as f64 / 100.0;
            let li = lm + rng.below(50) as f64 / 100.0;
            o.liability_weight_init = Some(w(li));
            o.liability_weight_maint = Some(w(lm));
        }
    } else {
        o.asset_weight_init = some!(rng, 1, 2, weight(rng));
        o.asset_weight_maint = some!(rng, 1, 2, weight(rng));
        o.liability_weight_init = some!(rng, 1, 2, weight(rng));
        o.liability_weight_maint = some!(rng, 1, 2, weight(rng));
    }
    let unit = 10u64.saturating_pow(bank.mint_decimals as u32);
    let limit = |rng: &mut Rng| match rng.below(5) {
        0 => 0,
        1 => 1,
        2 => u64::MAX,
        3 => unit.saturating_mul(rng.range(1, 1_000_000)),
        _ => rng.u64() >> rng.below(40),
    };
    o.deposit_limit = some!(rng, 1, 3, limit(rng));
    o.borrow_limit = some!(rng, 1, 3, limit(rng));
    o.operational_state = some!(
        rng,
        1,
        3,
        *rng.pick(&[
            BankOperationalState::Operational,
            BankOperationalState::Operational,
            BankOperationalState::ReduceOnly,
            BankOperationalState::Paused,
            BankOperationalState::KilledByBankruptcy,
        ]),
    );
    o.interest_rate_config = some!(rng, 1, 4, gen_ir_opt(rng));
    if rng.chance(1, 8) {
        o.risk_tier = Some(*rng.pick(&[RiskTier::Collateral, RiskTier::Isolated]));
    }
    if rng.chance(1, 10) {
        o.asset_tag = Some(*rng.pick(&[ASSET_TAG_DEFAULT, ASSET_TAG_SOL]));
    }
    o.total_asset_value_init_limit = some!(rng, 1, 5, *rng.pick(&[0u64, 1, 1000, 1_000_000, u64::MAX]));
    o.oracle_max_confidence = some!(rng, 1, 6, rng.u64() as u32);
    o.oracle_max_age = some!(rng, 1, 6, *rng.pick(&[0u16, 5, 9, 10, 60, 600, u16::MAX]));
    o.permissionless_bad_debt_settlement = some!(rng, 1, 5, rng.chance(1, 2));
    o.freeze_settings = some!(rng, 1, 8, rng.chance(3, 4));
    o.tokenless_repayments_allowed = some!(rng, 1, 12, rng.chance(3, 4));
    o
}

pub fn gen_emode_entries(rng: &mut Rng, tags: &[u16]) -> [EmodeEntry; MAX_EMODE_ENTRIES] {
    let mut e = [EmodeEntry {
        collateral_bank_emode_tag: 0,
        flags: 0,
        pad0: [0; 5],
        asset_weight_init: w(0.0),
        asset_weight_maint: w(0.0),
    }; MAX_EMODE_ENTRIES];
    let n = rng.below(4) as usize;
    for slot in e.iter_mut().take(n) {
        let tag = if tags.is_empty() || rng.chance(1, 5) {
            rng.range(1, 6) as u16
        } else {
            *rng.pick(tags)
        };
        let wi = match rng.below(5) {
            0 => rng.below(100) as f64 / 100.0,
            1 => 0.9 + rng.below(10) as f64 / 100.0,
            2 => 0.95,
            3 => 1.0 + rng.below(30) as f64 / 100.0,
            _ => rng.below(1000) as f64 / 1000.0,
        };
        let wm = if rng.chance(1, 6) {
            wi - 0.05
        } else {
            wi + rng.below(8) as f64 / 100.0
        };
        *slot = EmodeEntry {
            collateral_bank_emode_tag: tag,
            flags: rng.below(2) as u8,
            pad0: [0; 5],
            asset_weight_init: w(wi),
            asset_weight_maint: w(wm),
        };
    }
    e
}

#[derive(Clone, Debug)]
pub struct AdmSwarm {
    pub w_configure_bank: u32,
    pub w_interest_only: u32,
    pub w_limits_only: u32,
    pub w_emode: u32,
    pub w_clone_emode: u32,
    pub w_emissions: u32,
    pub w_metadata: u32,
    pub w_tokenless: u32,
    pub w_purge: u32,
    pub w_group_configure: u32,
    pub w_withdraw_limit: u32,
    pub w_freeze_account: u32,
    pub w_oracle_cfg: u32,
    pub w_close_bank: u32,
    pub w_fee_admin: u32,
    pub w_pause: u32,
    pub w_unpause: u32,
    pub w_unpause_permissionless: u32,
    pub w_propagate: u32,
    pub w_pause_boundary_time: u32,
    pub w_wrong_role: u32,
    pub w_withdraw_fees: u32,
    pub w_account_admin: u32,
    pub w_emi: u32,
    pub w_reduce_only_drill: u32,
    pub w_emode_drill: u32,
    pub w_cap_drill: u32,
}

impl AdmSwarm {
    pub fn none() -> Self {
        AdmSwarm {
            w_configure_bank: 0,
            w_interest_only: 0,
            w_limits_only: 0,
            w_emode: 0,
            w_clone_emode: 0,
            w_emissions: 0,
            w_metadata: 0,
            w_tokenless: 0,
            w_purge: 0,
            w_group_configure: 0,
            w_withdraw_limit: 0,
            w_freeze_account: 0,
            w_oracle_cfg: 0,
            w_close_bank: 0,
            w_fee_admin: 0,
            w_pause: 0,
            w_unpause: 0,
            w_unpause_permissionless: 0,
            w_propagate: 0,
            w_pause_boundary_time: 0,
            w_wrong_role: 0,
            w_withdraw_fees: 0,
            w_account_admin: 0,
            w_emi: 0,
            w_reduce_only_drill: 0,
            w_emode_drill: 0,
            w_cap_drill: 0,
        }
    }
    pub fn adm(rng: &mut Rng) -> Self {
        let mut r = |lo: u64, hi: u64| rng.range(lo, hi) as u32;
        AdmSwarm {
            w_configure_bank: r(4, 14),
            w_interest_only: r(1, 8),
            w_limits_only: r(1, 8),
            w_emode: r(2, 10),
            w_clone_emode: r(1, 6),
            w_emissions: r(2, 8),
            w_metadata: r(0, 4),
            w_tokenless: r(0, 4),
            w_purge: r(0, 4),
            w_group_configure: r(0, 4),
            w_withdraw_limit: r(0, 3),
            w_freeze_account: r(0, 4),
            w_oracle_cfg: r(0, 4),
            w_close_bank: r(0, 3),
            w_fee_admin: r(0, 3),
            w_pause: r(0, 2),
            w_unpause: r(0, 2),
            w_unpause_permissionless: r(0, 2),
            w_propagate: r(0, 3),
            w_pause_boundary_time: 0,
            w_wrong_role: r(1, 5),
            w_withdraw_fees: r(0, 4),
            w_account_admin: r(1, 5),
            w_emi: r(0, 4),
            w_reduce_only_drill: r(0, 4),
            w_emode_drill: r(0, 4),
            w_cap_drill: r(0, 4),
        }
    }
    pub fn emi(rng: &mut Rng) -> Self {
        let mut s = Self::none();
        let mut r = |lo: u64, hi: u64| rng.range(lo, hi) as u32;
        s.w_emissions = r(6, 14);
        s.w_emi = r(15, 40);
        s.w_withdraw_fees = r(4, 12);
        s.w_configure_bank = r(0, 3);
        s.w_freeze_account = r(0, 2);
        s.w_purge = r(0, 2);
        s
    }
    pub fn pause(rng: &mut Rng) -> Self {
        let mut s = Self::none();
        let mut r = |lo: u64, hi: u64| rng.range(lo, hi) as u32;
        s.w_pause = r(6, 20);
        s.w_unpause = r(1, 8);
        s.w_unpause_permissionless = r(1, 8);
        s.w_propagate = r(3, 12);
        s.w_pause_boundary_time = r(6, 20);
        s.w_fee_admin = r(0, 3);
        s.w_configure_bank = r(0, 4);
        s
    }
    pub fn weights(&self) -> Vec<u32> {
        vec![
            self.w_configure_bank,
            self.w_interest_only,
            self.w_limits_only,
            self.w_emode,
            self.w_clone_emode,
            self.w_emissions,
            self.w_metadata,
            self.w_tokenless,
            self.w_purge,
            self.w_group_configure,
            self.w_withdraw_limit,
            self.w_freeze_account,
            self.w_oracle_cfg,
            self.w_close_bank,
            self.w_fee_admin,
            self.w_pause,
            self.w_unpause,
            self.w_unpause_permissionless,
            self.w_propagate,
            self.w_pause_boundary_time,
            self.w_wrong_role,
            self.w_withdraw_fees,
            self.w_account_admin,
            self.w_emi,
            self.w_reduce_only_drill,
            self.w_emode_drill,
            self.w_cap_drill,
        ]
    }
    pub fn total(&self) -> u32 {
        self.weights().iter().sum()
    }
}

/// Emissions mint/funding fixtures per group, created lazily.
fn emissions_fixture(sim: &mut Sim, ctx: &mut Ctx, gi: usize) -> Option<(Pubkey, Pubkey, Pubkey)> {
    let g = ctx.world.groups[gi].clone();
    let seed_key = |tag: u8| -> Pubkey {
        let mut b = g.admins.emissions.to_bytes();
        b[0] ^= tag;
        b[31] ^= 0x5a;
        Pubkey::new_from_array(b)
    };
    let mint = seed_key(1);
    let funding = seed_key(2);
    if sim.store.get(&mint).is_none() {
        let m = crate::fixtures::mint_account(crate::fixtures::TokenKind::Spl, 6, u64::MAX / 2);
        sim.apply(Event::SetAccount {
            key: mint,
            account: Some(m.clone()),
            why: "fixture_emissions_mint",
        });
        sim.apply(Event::SetAccount {
            key: funding,
            account: Some(crate::fixtures::token_account(&mint, &m, &g.admins.emissions, u64::MAX / 4)),
            why: "fixture_emissions_funding",
        });
    }
    Some((mint, funding, crate::rt::spl_token_id()))
}

pub fn step_adm(sim: &mut Sim, ctx: &mut Ctx, adm: &AdmSwarm) -> Option<Tx> {
    let gi = ctx.rng.below(ctx.world.groups.len() as u64) as usize;
    let g = ctx.world.groups[gi].clone();
    if g.banks.is_empty() {
        return None;
    }
    let b = ctx.rng.pick(&g.banks).clone();
    let bank = model::bank_of(&sim.store, &b.keys.bank);
    let choice = ctx.rng.pick_weighted(&adm.weights());
    let now = sim.clock.unix_timestamp;
    let tx = match choice {
        0 => {
            let bank = bank?;
            Tx::one("group_admin", ix::configure_bank(g.key, g.admins.admin, b.keys.bank, gen_bank_opt(ctx.rng, &bank)))
        }
        1 => Tx::one("curve_admin", ix::configure_bank_interest_only(g.key, g.admins.curve, b.keys.bank, gen_ir_opt(ctx.rng))),
        2 => {
            let lim = |rng: &mut Rng| -> Option<u64> {
                match rng.below(5) {
                    0 => None,
                    1 => Some(0),
                    2 => Some(u64::MAX),
                    3 => Some(rng.u64() >> rng.below(50)),
                    _ => Some(rng.range(1, 1_000_000_000)),
                }
            };
            let (d, bo, t) = (lim(ctx.rng), lim(ctx.rng), lim(ctx.rng));
            Tx::one("limit_admin", ix::configure_bank_limits_only(g.key, g.admins.limit, b.keys.bank, d, bo, t))
        }
        3 => {
            let tags: Vec<u16> = g
                .banks
                .iter()
                .filter_map(|x| model::bank_of(&sim.store, &x.keys.bank))
                .map(|x| x.emode.emode_tag)
                .filter(|t| *t != 0)
                .collect();
            let tag = ctx.rng.range(0, 5) as u16;
            let entries = gen_emode_entries(ctx.rng, &tags);
            Tx::one("emode_admin", ix::configure_bank_emode(g.key, g.admins.emode, b.keys.bank, tag, entries))
        }
        4 => {
            let other = ctx.rng.pick(&g.banks).clone();
            let signer = if ctx.rng.chance(1, 2) { g.admins.admin } else { g.admins.emode };
            Tx::one("emode_admin", ix::clone_emode(g.key, signer, other.keys.bank, b.keys.bank))
        }
        5 => {
            let (mint, funding, tp) = emissions_fixture(sim, ctx, gi)?;
            let bank = bank?;
            if bank.emissions_mint == Pubkey::default() {
                let flags = if ctx.rng.chance(2, 3) { ctx.rng.below(4) } else { flag_word(ctx.rng) };
                if flags & !0b11 != 0 {
                    sim.stats.fault("emissions_flags_with_foreign_bits_submitted");
                }
                Tx::one(
                    "emissions_admin",
                    ix::setup_emissions(&b.keys, g.admins.emissions, mint, tp, funding, flags, ctx.rng.log_amount(9), ctx.rng.log_amount(12)),
                )
            } else {
                let flags = some!(ctx.rng, 2, 3, if ctx.rng.chance(1, 2) { ctx.rng.below(4) } else { flag_word(ctx.rng) });
                let rate = some!(ctx.rng, 1, 2, ctx.rng.log_amount(9));
                let add = some!(ctx.rng, 1, 3, ctx.rng.log_amount(10));
                if flags.map(|f| f & !0b11 != 0).unwrap_or(false) {
                    sim.stats.fault("emissions_flags_with_foreign_bits_submitted");
                }
                Tx::one(
                    "emissions_admin",
                    ix::update_emissions(&b.keys, g.admins.emissions, bank.emissions_mint, tp, funding, flags, rate, add),
                )
            }
        }
        6 => {
            let meta = ix::metadata_pda(&b.keys.bank);
            if sim.store.get(&meta).is_none() {
                Tx::one("anyone", ix::init_bank_metadata(b.keys.bank, ctx.world.payer))
            } else {
                let t: Vec<u8> = (0..ctx.rng.below(20)).map(|_| ctx.rng.below(256) as u8).collect();
                let d: Vec<u8> = (0..ctx.rng.below(80)).map(|_| ctx.rng.below(256) as u8).collect();
                Tx::one(
                    "metadata_admin",
                    ix::write_bank_metadata(g.key, b.keys.bank, g.admins.metadata, some!(ctx.rng, 2, 3, t), some!(ctx.rng, 1, 2, d)),
                )
            }
        }
        7 => Tx::one("risk_admin", ix::force_tokenless_repay_complete(g.key, g.admins.risk, b.keys.bank)),
        8 => {
            let us: Vec<Pubkey> = ctx
                .world
                .users
                .iter()
                .flat_map(|u| u.maccounts.iter().filter(|(x, _)| *x == gi).map(|(_, m)| *m))
                .collect();
            if us.is_empty() {
                return None;
            }
            let ma = *ctx.rng.pick(&us);
            if ctx.rng.chance(1, 3) {
                // wind the bank down first (flag + forced completion), so that the purge is
                // accepted and judged, preferably on an account that really holds a deposit
                sim.stats.fault("drill_purge_after_forced_wind_down");
                let opt = BankConfigOpt { tokenless_repayments_allowed: Some(true), ..Default::default() };
                sim.apply(Event::Tx(Tx::one("group_admin", ix::configure_bank(g.key, g.admins.admin, b.keys.bank, opt))));
                sim.apply(Event::Tx(Tx::one("risk_admin", ix::force_tokenless_repay_complete(g.key, g.admins.risk, b.keys.bank))));
                let holders: Vec<Pubkey> = us
                    .iter()
                    .filter(|m| {
                        model::account_of(&sim.store, m)
                            .map(|a| active_balances(&a).iter().any(|x| x.bank_pk == b.keys.bank && i80(x.asset_shares) >= I80F48::ONE))
                            .unwrap_or(false)
                    })
                    .cloned()
                    .collect();
                let target = if holders.is_empty() { ma } else { *ctx.rng.pick(&holders) };
                return Some(Tx::one("risk_admin", ix::purge_deleverage_balance(g.key, target, g.admins.risk, b.keys.bank)));
            }
            Tx::one("risk_admin", ix::purge_deleverage_balance(g.key, ma, g.admins.risk, b.keys.bank))
        }
        9 => {
            let init = some!(ctx.rng, 2, 3, w(*ctx.rng.pick(&[0.5, 1.0, 2.0, 10.0, 15.0, 19.0, 50.0, 100.0, 101.0])));
            let maint = some!(ctx.rng, 2, 3, w(*ctx.rng.pick(&[1.0, 3.0, 11.0, 16.0, 20.0, 60.0, 100.0, 150.0])));
            if ctx.rng.chance(1, 3) {
                // role rotation: one to three roles move to fresh keys (or two roles swap); applied
                // directly so that the harness's picture of who holds which role stays true
                let mut na = g.admins.clone();
                let mut fresh = |ctx: &mut Ctx, sim: &mut Sim| -> Pubkey {
                    let k = ctx.rng.pubkey();
                    sim.apply(Event::SetAccount { key: k, account: Some(crate::rt::Account::system(1_000_000_000_000)), why: "fixture_new_role_holder" });
                    k
                };
                for _ in 0..ctx.rng.range(1, 3) {
                    match ctx.rng.below(8) {
                        0 => na.admin = fresh(ctx, sim),
                        1 => na.emode = fresh(ctx, sim),
                        2 => na.curve = fresh(ctx, sim),
                        3 => na.limit = fresh(ctx, sim),
                        4 => na.emissions = fresh(ctx, sim),
                        5 => na.metadata = fresh(ctx, sim),
                        6 => na.risk = fresh(ctx, sim),
                        _ => std::mem::swap(&mut na.curve, &mut na.limit),
                    }
                }
                sim.stats.fault("group_roles_rotated");
                let out = sim.apply(Event::Tx(Tx::one("group_admin", ix::group_configure(g.key, g.admins.admin, &na, init, maint))));
                if out.map(|o| o.ok()).unwrap_or(false) {
                    ctx.world.groups[gi].admins = na;
                }
                return None;
            }
            Tx::one("group_admin", ix::group_configure(g.key, g.admins.admin, &g.admins, init, maint))
        }
        10 => Tx::one(
            "group_admin",
            ix::configure_deleverage_withdrawal_limit(g.key, g.admins.admin, *ctx.rng.pick(&[0u32, 1, 10, 1000, 1_000_000, u32::MAX])),
        ),
        11 => {
            let us: Vec<Pubkey> = ctx
                .world
                .users
                .iter()
                .flat_map(|u| u.maccounts.iter().filter(|(x, _)| *x == gi).map(|(_, m)| *m))
                .collect();
            if us.is_empty() {
                return None;
            }
            let ma = *ctx.rng.pick(&us);
            Tx::one("group_admin", ix::set_freeze(g.key, ma, g.admins.admin, ctx.rng.chance(1, 2)))
        }
        12 if model::staked_settings_of(&sim.store, &g.key).is_some() && ctx.rng.chance(1, 2) => {
            // staked-collateral settings: edited by the group admin, propagated by anybody
            let settings = model::staked_settings_of(&sim.store, &g.key)?;
            let staked: Vec<crate::world::BankInfo> = g.banks.iter().filter(|x| x.staked.is_some()).cloned().collect();
            match ctx.rng.below(6) {
                0 | 1 => {
                    let a_i = *ctx.rng.pick(&[0.0f64, 0.3, 0.5, 0.8, 1.0, 1.01, 1.5, -0.1]);
                    let a_m = *ctx.rng.pick(&[0.0f64, 0.25, 0.5, 0.9, 1.0, 1.5, 2.0, 2.01]);
                    // another well-formed Pyth account of the same world as a new oracle, sometimes
                    let feeds: Vec<Pubkey> = g.banks.iter().filter(|x| x.oracle == crate::world::OracleKind::Pyth).map(|x| x.oracle_key).collect();
                    let cfg = marginfi::instructions::StakedSettingsEditConfig {
                        oracle: if ctx.rng.chance(1, 4) && !feeds.is_empty() { Some(*ctx.rng.pick(&feeds)) } else { None },
                        asset_weight_init: some!(ctx.rng, 1, 2, w(a_i)),
                        asset_weight_maint: some!(ctx.rng, 1, 2, w(a_m)),
                        deposit_limit: some!(ctx.rng, 1, 3, ctx.rng.u64() >> ctx.rng.below(50)),
                        total_asset_value_init_limit: some!(ctx.rng, 1, 3, *ctx.rng.pick(&[0u64, 1, 1000, 1_000_000])),
                        oracle_max_age: some!(ctx.rng, 1, 3, *ctx.rng.pick(&[0u16, 5, 9, 10, 60, 600, u16::MAX])),
                        risk_tier: some!(ctx.rng, 1, 4, if ctx.rng.chance(1, 2) { marginfi_type_crate::types::RiskTier::Isolated } else { marginfi_type_crate::types::RiskTier::Collateral }),
                    };
                    let who = if ctx.rng.chance(1, 8) { sim.stats.fault("admin_ix_by_wrong_role"); g.admins.risk } else { g.admins.admin };
                    Tx::one("group_admin", ix::edit_staked_settings(g.key, who, cfg))
                }
                2 => {
                    // propagation to a bank that is not staked collateral must be refused
                    Tx::one("anyone", ix::propagate_staked_settings(g.key, b.keys.bank, vec![ix::ro(settings.oracle)]))
                }
                _ => {
                    let t = if staked.is_empty() { b.clone() } else { ctx.rng.pick(&staked).clone() };
                    let rem = if ctx.rng.chance(1, 6) { vec![] } else { vec![ix::ro(settings.oracle)] };
                    Tx::one("anyone", ix::propagate_staked_settings(g.key, t.keys.bank, rem))
                }
            }
        }
        12 => {
            let bank = bank?;
            match bank.config.oracle_setup {
                OracleSetup::Fixed => Tx::one(
                    "group_admin",
                    ix::set_fixed_oracle_price(g.key, g.admins.admin, b.keys.bank, w(b.price_micro as f64 / 1e6)),
                ),
                s => {
                    // mostly re-state the current oracle; sometimes point the bank at something
                    // else: another bank's feed of the same or the other kind, a token account, a
                    // wrong-owner clone of its own feed (the last two must be refused)
                    let mut setup = s as u8;
                    let mut key = b.oracle_key;
                    match ctx.rng.below(8) {
                        0 | 1 => {
                            let others: Vec<&crate::world::BankInfo> = g.banks.iter().filter(|x| x.oracle != crate::world::OracleKind::Fixed && x.staked.is_none() && x.oracle_key != b.oracle_key).collect();
                            if let Some(o) = others.first() {
                                key = o.oracle_key;
                                setup = if ctx.rng.chance(3, 4) {
                                    match o.oracle {
                                        crate::world::OracleKind::Swb => OracleSetup::SwitchboardPull as u8,
                                        _ => OracleSetup::PythPushOracle as u8,
                                    }
                                } else {
                                    // kind that does not match the account
                                    match o.oracle {
                                        crate::world::OracleKind::Swb => OracleSetup::PythPushOracle as u8,
                                        _ => OracleSetup::SwitchboardPull as u8,
                                    }
                                };
                                sim.stats.fault("oracle_reconfigured_to_other_feed");
                            }
                        }
                        2 => {
                            if let Some(t) = ctx.world.stranger_tokens.get(&b.keys.mint) {
                                key = *t;
                                sim.stats.fault("oracle_reconfigured_to_non_oracle_account");
                            }
                        }
                        3 => {
                            if let Some(a) = sim.store.get(&b.oracle_key).cloned() {
                                let k = ctx.rng.pubkey();
                                let mut c = a;
                                c.owner = crate::rt::system_id();
                                sim.apply(Event::SetAccount { key: k, account: Some(c), why: "fixture_lookalike" });
                                key = k;
                                sim.stats.fault("oracle_reconfigured_to_non_oracle_account");
                            }
                        }
                        _ => {}
                    }
                    if key != b.oracle_key {
                        // applied directly: the harness must know which feed the bank now follows
                        let out = sim.apply(Event::Tx(Tx::one("group_admin", ix::configure_bank_oracle(g.key, g.admins.admin, b.keys.bank, setup, key, vec![ix::ro(key)]))));
                        if out.map(|o| o.ok()).unwrap_or(false) {
                            let donor = g.banks.iter().find(|x| x.oracle_key == key).cloned();
                            if let (Some(d), Some(info)) = (donor, ctx.world.bank_info_mut(&b.keys.bank)) {
                                info.oracle = d.oracle;
                                info.oracle_key = d.oracle_key;
                                info.feed_id = d.feed_id;
                                info.expo = d.expo;
                                info.price_micro = d.price_micro;
                            }
                        }
                        return None;
                    }
                    Tx::one(
                        "group_admin",
                        ix::configure_bank_oracle(g.key, g.admins.admin, b.keys.bank, setup, key, vec![ix::ro(key)]),
                    )
                }
            }
        }
        13 if ctx.rng.chance(1, 2) => {
            // a bank added while the market runs, with a configuration drawn from the whole
            // domain (valid and invalid weights, tiers, oracle ages); the monitors judge the
            // request - the harness does not route users to the new bank
            let cfgw = crate::world::WorldCfg::swarm(ctx.rng);
            let decimals = *ctx.rng.pick(&[0u8, 6, 9]);
            let mint = ctx.rng.pubkey();
            sim.apply(Event::SetAccount {
                key: mint,
                account: Some(crate::fixtures::mint_account(crate::fixtures::TokenKind::Spl, decimals, u64::MAX / 2)),
                why: "fixture_new_mint",
            });
            let isolated = ctx.rng.chance(1, 4);
            let mut config = crate::world::gen_bank_config(ctx.rng, &cfgw, decimals, isolated);
            match ctx.rng.below(8) {
                0 => config.asset_weight_init = w(1.01),
                1 => config.asset_weight_maint = w(2.01),
                2 => {
                    config.asset_weight_init = w(0.9);
                    config.asset_weight_maint = w(0.8);
                }
                3 => config.liability_weight_maint = w(0.99),
                4 => {
                    config.liability_weight_init = w(1.1);
                    config.liability_weight_maint = w(1.2);
                }
                5 => config.oracle_max_age = *ctx.rng.pick(&[0u16, 5, 9]),
                6 => {
                    config.risk_tier = RiskTier::Isolated;
                    config.asset_weight_init = w(0.5);
                    config.asset_weight_maint = w(0.6);
                }
                _ => {}
            }
            sim.stats.fault("bank_added_at_runtime");
            let use_seed = ctx.rng.chance(1, 2);
            let add = if use_seed {
                let seed = ctx.rng.below(1000);
                let bank = ix::bank_with_seed_pda(&g.key, &mint, seed);
                let keys = ix::BankKeys::new(g.key, bank, mint, crate::rt::spl_token_id());
                ix::add_bank_with_seed(&keys, g.admins.admin, ctx.world.payer, ctx.world.fee_wallet, config, seed)
            } else {
                let bank = ctx.rng.pubkey();
                let keys = ix::BankKeys::new(g.key, bank, mint, crate::rt::spl_token_id());
                let mut a = ix::add_bank(&keys, g.admins.admin, ctx.world.payer, ctx.world.fee_wallet, config);
                for m in a.accounts.iter_mut() {
                    if m.pubkey == bank {
                        m.is_signer = true;
                    }
                }
                a
            };
            Tx::one("group_admin", add)
        }
        13 => Tx::one("group_admin", ix::close_bank(g.key, b.keys.bank, g.admins.admin)),
        14 => match ctx.rng.below(3) {
            0 => Tx::one("fee_admin", ix::config_group_fee(g.key, ctx.world.fee_admin, ctx.rng.chance(1, 2))),
            1 => {
                // sometimes the fee wallet is rotated: the new wallet gets its token accounts as
                // fixtures, the old one is remembered (stale clients keep paying it), and the
                // groups' cached copy stays behind until somebody propagates
                if ctx.rng.chance(1, 3) {
                    let neww = ctx.rng.pubkey();
                    sim.stats.fault("fee_wallet_rotated");
                    sim.apply(Event::SetAccount { key: neww, account: Some(crate::rt::Account::system(1_000_000_000)), why: "fixture_new_fee_wallet" });
                    let banks: Vec<crate::world::BankInfo> = ctx.world.all_banks().into_iter().cloned().collect();
                    for bi in banks.iter() {
                        let ata = ix::ata(&neww, &bi.keys.mint, &bi.keys.token_program);
                        if sim.store.get(&ata).is_none() {
                            if let Some(mint_acc) = sim.store.get(&bi.keys.mint).cloned() {
                                sim.apply(Event::SetAccount {
                                    key: ata,
                                    account: Some(crate::fixtures::token_account(&bi.keys.mint, &mint_acc, &neww, 0)),
                                    why: "fixture_new_fee_wallet",
                                });
                            }
                        }
                    }
                    let old = ctx.world.fee_wallet;
                    ctx.world.retired_fee_wallets.push(old);
                    ctx.world.fee_wallet = neww;
                }
                if ctx.rng.chance(1, 5) {
                    // the global fee admin hands over to a fresh key (applied directly, so that
                    // the harness keeps knowing who the admin is)
                    let newa = ctx.rng.pubkey();
                    sim.apply(Event::SetAccount { key: newa, account: Some(crate::rt::Account::system(1_000_000_000_000)), why: "fixture_new_role_holder" });
                    sim.stats.fault("global_fee_admin_rotated");
                    let out = sim.apply(Event::Tx(Tx::one(
                        "fee_admin",
                        ix::edit_global_fee_state(ctx.world.fee_admin, newa, ctx.world.fee_wallet, 0, 0, w(0.01), w(0.025), w(0.05)),
                    )));
                    if out.map(|o| o.ok()).unwrap_or(false) {
                        ctx.world.fee_admin = newa;
                    }
                    return None;
                }
                Tx::one(
                "fee_admin",
                ix::edit_global_fee_state(
                    ctx.world.fee_admin,
                    ctx.world.fee_admin,
                    ctx.world.fee_wallet,
                    *ctx.rng.pick(&[0u32, 10_000]),
                    *ctx.rng.pick(&[0u32, 5_000]),
                    w(if ctx.rng.chance(1, 4) { 0.0 } else { ctx.rng.below(30) as f64 / 1000.0 }),
                    w(if ctx.rng.chance(1, 4) { 0.0 } else { ctx.rng.below(100) as f64 / 1000.0 }),
                    w(*ctx.rng.pick(&[0.0, 0.03, 0.05, 0.1, 0.5])),
                ),
            )
            }
            _ => Tx::one("anyone", ix::propagate_fee_state(g.key)),
        },
        15 => Tx::one("fee_admin", ix::panic_pause(ctx.world.fee_admin)),
        16 => Tx::one("fee_admin", ix::panic_unpause(ctx.world.fee_admin)),
        17 => Tx::one("anyone", ix::panic_unpause_permissionless()),
        18 => Tx::one("anyone", ix::propagate_fee_state(g.key)),
        19 => {
            // advance the clock to just around an armed pause / reset deadline
            let mut deadlines: Vec<i64> = Vec::new();
            if let Some(fs) = model::fee_state_of(&sim.store) {
                if fs.panic_state.pause_flags & 1 != 0 {
                    deadlines.push(fs.panic_state.pause_start_timestamp + 1800);
                }
                deadlines.push(fs.panic_state.last_daily_reset_timestamp + 86_400);
            }
            for (_, grp) in model::all_groups(&sim.store) {
                if grp.panic_state_cache.pause_flags & 1 != 0 {
                    deadlines.push(grp.panic_state_cache.pause_start_timestamp + 1800);
                }
            }
            let fut: Vec<i64> = deadlines.into_iter().filter(|d| *d + 1 > now).collect();
            let dt = if fut.is_empty() {
                ctx.rng.irange(1, 4000)
            } else {
                let d = *ctx.rng.pick(&fut);
                (d - now + ctx.rng.irange(-1, 1)).max(0)
            };
            sim.stats.fault("clock_boundary_advance");
            sim.apply(Event::Advance {
                dt,
                dslot: (dt as u64) * 2,
                depoch: 0,
            });
            return None;
        }
        20 => {
            // the right instruction signed by the wrong role
            let roles = [
                g.admins.admin,
                g.admins.curve,
                g.admins.limit,
                g.admins.emode,
                g.admins.emissions,
                g.admins.metadata,
                g.admins.risk,
                ctx.world.fee_admin,
                ctx.world.stranger,
            ];
            let who = *ctx.rng.pick(&roles);
            sim.stats.fault("admin_ix_by_wrong_role");
            // with a second group in the world: that group and ITS OWN role holder acting on a
            // bank of this group (a coherent pair, unlike a single wrong signer)
            if ctx.world.groups.len() > 1 && ctx.rng.chance(1, 3) {
                let og = ctx.world.groups[(gi + 1) % ctx.world.groups.len()].clone();
                sim.stats.fault("admin_ix_by_other_groups_role_holder");
                let dst = ctx.world.stranger_tokens.get(&b.keys.mint).cloned();
                let mut keys = b.keys.clone();
                keys.group = og.key;
                return Some(match (ctx.rng.below(5), dst) {
                    (0, Some(d)) | (1, Some(d)) => Tx::one("wrong_role", ix::update_fees_destination(&keys, og.admins.admin, d)),
                    (2, Some(d)) => Tx::one("wrong_role", ix::withdraw_fees(&keys, og.admins.admin, d, 1)),
                    (3, _) => Tx::one("wrong_role", ix::clone_emode(og.key, og.admins.emode, og.banks.first()?.keys.bank, b.keys.bank)),
                    _ => Tx::one("wrong_role", ix::configure_bank_limits_only(og.key, og.admins.limit, b.keys.bank, Some(7), None, None)),
                });
            }
            match ctx.rng.below(6) {
                0 => {
                    let bank = bank?;
                    Tx::one("wrong_role", ix::configure_bank(g.key, who, b.keys.bank, gen_bank_opt(ctx.rng, &bank)))
                }
                1 => Tx::one("wrong_role", ix::configure_bank_interest_only(g.key, who, b.keys.bank, gen_ir_opt(ctx.rng))),
                2 => Tx::one("wrong_role", ix::configure_bank_limits_only(g.key, who, b.keys.bank, Some(5), None, None)),
                3 => Tx::one("wrong_role", ix::panic_pause(who)),
                4 => Tx::one("wrong_role", ix::force_tokenless_repay_complete(g.key, who, b.keys.bank)),
                _ => Tx::one("wrong_role", ix::clone_emode(g.key, who, b.keys.bank, b.keys.bank)),
            }
        }
        21 => {
            let dst = *ctx.world.stranger_tokens.get(&b.keys.mint)?;
            let amt = pick_amount(ctx.rng, token_balance(&sim.store, &b.keys.fee_vault).max(1));
            match ctx.rng.below(4) {
                0 => Tx::one("group_admin", ix::withdraw_fees(&b.keys, g.admins.admin, dst, amt)),
                1 => {
                    let amt = pick_amount(ctx.rng, token_balance(&sim.store, &b.keys.insurance_vault).max(1));
                    Tx::one("group_admin", ix::withdraw_insurance(&b.keys, g.admins.admin, dst, amt))
                }
                2 => Tx::one("group_admin", ix::update_fees_destination(&b.keys, g.admins.admin, dst)),
                _ => {
                    let bank = bank?;
                    Tx::one("anyone", ix::withdraw_fees_permissionless(&b.keys, bank.fees_destination_account, amt))
                }
            }
        }
        23 => return step_emi(sim, ctx),
        25 => {
            // e-mode "downgrade" drill: the debt bank of some borrower gets an e-mode entry for the
            // borrower's collateral tag whose weights lie BELOW the collateral bank's own, then the
            // borrower goes to the edge of their borrowing power (init must imply maint)
            let mut pairs: Vec<(usize, Pubkey, Pubkey, Pubkey)> = Vec::new();
            for (ui, u) in ctx.world.users.iter().enumerate() {
                for (g2, ma) in &u.maccounts {
                    if *g2 != gi {
                        continue;
                    }
                    if let Some(acc) = model::account_of(&sim.store, ma) {
                        let bals = active_balances(&acc);
                        for l in bals.iter().filter(|b| i80(b.liability_shares) >= I80F48::ONE) {
                            for c in bals.iter().filter(|b| i80(b.asset_shares) >= I80F48::ONE) {
                                pairs.push((ui, *ma, c.bank_pk, l.bank_pk));
                            }
                        }
                    }
                }
            }
            if pairs.is_empty() {
                return None;
            }
            let (ui, ma, cb, lb) = *ctx.rng.pick(&pairs);
            let cbank = model::bank_of(&sim.store, &cb)?;
            let ai: f64 = I80F48::from_le_bytes(cbank.config.asset_weight_init.value).to_num();
            if ai <= 0.05 {
                return None;
            }
            sim.stats.fault("drill_emode_entry_below_bank_weight");
            let tag = if cbank.emode.emode_tag != 0 { cbank.emode.emode_tag } else { ctx.rng.range(1, 5) as u16 };
            if cbank.emode.emode_tag == 0 {
                sim.apply(Event::Tx(Tx::one(
                    "emode_admin",
                    ix::configure_bank_emode(g.key, g.admins.emode, cb, tag, cbank.emode.emode_config.entries),
                )));
            }
            let lbank = model::bank_of(&sim.store, &lb)?;
            let mut entries = lbank.emode.emode_config.entries;
            // variant: an UPGRADE entry on this debt bank plus a second debt in a bank whose table
            // has no entries at all - reconciliation must then yield no e-mode whatsoever
            let upgrade = ctx.rng.chance(1, 2);
            let li: f64 = I80F48::from_le_bytes(lbank.config.liability_weight_init.value).to_num();
            let (wi, wm) = if upgrade {
                let wi = f64::min(ai + *ctx.rng.pick(&[0.05f64, 0.1, 0.2]), li * 0.9);
                (wi, wi + 0.01)
            } else {
                let wi = ai * *ctx.rng.pick(&[0.2f64, 0.5, 0.8]);
                (wi, wi + *ctx.rng.pick(&[0.0f64, 0.01, 0.03]))
            };
            if upgrade {
                let others: Vec<crate::world::BankInfo> = g.banks.iter().filter(|x| x.keys.bank != lb && x.keys.bank != cb && x.staked.is_none()).cloned().collect();
                if let Some(o) = others.first().cloned() {
                    sim.stats.fault("drill_emode_second_debt_entryless_table");
                    let empty = [EmodeEntry { collateral_bank_emode_tag: 0, flags: 0, pad0: [0; 5], asset_weight_init: w(0.0), asset_weight_maint: w(0.0) }; MAX_EMODE_ENTRIES];
                    let otag = model::bank_of(&sim.store, &o.keys.bank).map(|b| b.emode.emode_tag).unwrap_or(0);
                    sim.apply(Event::Tx(Tx::one("emode_admin", ix::configure_bank_emode(g.key, g.admins.emode, o.keys.bank, otag, empty))));
                    let u = ctx.world.users[ui].clone();
                    if let Some(ta) = u.tokens.get(&o.keys.mint).cloned() {
                        let rm = crate::world::risk_metas(&sim.store, &ma, Some(o.keys.bank), None);
                        sim.apply(Event::Tx(Tx::one("user", ix::borrow(&o.keys, ma, u.authority, ta, ctx.rng.range(1, 50), rm))));
                    }
                    if sim.violated() && sim.stop_on_violation {
                        return None;
                    }
                }
            }
            let slot = entries
                .iter()
                .position(|e| e.collateral_bank_emode_tag == tag)
                .or_else(|| entries.iter().position(|e| e.collateral_bank_emode_tag == 0))
                .unwrap_or(0);
            entries[slot] = EmodeEntry {
                collateral_bank_emode_tag: tag,
                flags: 0,
                pad0: [0; 5],
                asset_weight_init: w(wi),
                asset_weight_maint: w(wm),
            };
            entries.sort_by_key(|e| e.collateral_bank_emode_tag);
            sim.apply(Event::Tx(Tx::one(
                "emode_admin",
                ix::configure_bank_emode(g.key, g.admins.emode, lb, lbank.emode.emode_tag, entries),
            )));
            if sim.violated() && sim.stop_on_violation {
                return None;
            }
            return borrow_boundary_in(sim, ctx, ui, gi, ma, Some(lb));
        }
        26 => {
            // collateral-value cap drill: the limit admin puts the init-value cap of a held
            // collateral bank around the dollar value of its current deposits, then a holder who
            // already owes something searches for the edge of their borrowing power
            let mut holders: Vec<(usize, Pubkey, Pubkey)> = Vec::new();
            for (ui, u) in ctx.world.users.iter().enumerate() {
                for (g2, ma) in &u.maccounts {
                    if *g2 != gi {
                        continue;
                    }
                    if let Some(acc) = model::account_of(&sim.store, ma) {
                        for bal in active_balances(&acc) {
                            if i80(bal.asset_shares) >= I80F48::ONE {
                                holders.push((ui, *ma, bal.bank_pk));
                            }
                        }
                    }
                }
            }
            if holders.is_empty() {
                return None;
            }
            let owing: Vec<(usize, Pubkey, Pubkey)> = holders
                .iter()
                .filter(|(_, ma, _)| {
                    model::account_of(&sim.store, ma)
                        .map(|a| active_balances(&a).iter().any(|b| i80(b.liability_shares) >= I80F48::ONE))
                        .unwrap_or(false)
                })
                .cloned()
                .collect();
            let want_owing = !owing.is_empty() && ctx.rng.chance(1, 2);
            let (ui, ma, bk) = if want_owing { *ctx.rng.pick(&owing) } else { *ctx.rng.pick(&holders) };
            let cbank = model::bank_of(&sim.store, &bk)?;
            let view = crate::refm::read_oracle(&sim.store, &cbank, sim.clock).ok()?;
            use num_traits::ToPrimitive;
            let total = model::q_w(cbank.total_asset_shares) * model::q_w(cbank.asset_share_value) * &view.ema.price
                / model::pow10(cbank.mint_decimals as u32);
            let dollars = total.floor().to_integer().to_u64().unwrap_or(u64::MAX / 4).max(2);
            // variant: a cap of one dollar on EVERY collateral bank of a holder that owes
            // something, then the risk admin tries to settle that holder's debt as bad debt - the
            // cap discounts borrowing power only, the holder is as solvent as before
            if want_owing && ctx.rng.chance(2, 3) {
                if let Some(acc) = model::account_of(&sim.store, &ma) {
                    let bals = active_balances(&acc);
                    if let Some(debt) = bals.iter().find(|b| i80(b.liability_shares) >= I80F48::ONE).cloned() {
                        if let Some(dinfo) = ctx.world.bank_info(&debt.bank_pk).cloned() {
                            sim.stats.fault("drill_init_value_cap_one_dollar_then_bankruptcy_attempt");
                            for c in bals.iter().filter(|b| i80(b.asset_shares) >= I80F48::ONE) {
                                // somebody else deposits as well, so that the holder's share of the
                                // bank (what a wrongly discounted valuation would leave) is small
                                if let Some(cinfo) = ctx.world.bank_info(&c.bank_pk).cloned() {
                                    let others: Vec<crate::world::UserInfo> = ctx.world.users.iter().enumerate().filter(|(i, _)| *i != ui).map(|(_, u)| u.clone()).collect();
                                    if let Some(o) = others.first() {
                                        if let (Some(oa), Some(ta)) = (o.maccounts.iter().find(|(g2, _)| *g2 == gi).map(|(_, m)| *m), o.tokens.get(&cinfo.keys.mint).cloned()) {
                                            let amt = token_balance(&sim.store, &ta) / 2;
                                            if amt > 0 {
                                                sim.apply(Event::Tx(Tx::one("user", ix::deposit(&cinfo.keys, oa, o.authority, ta, amt, None))));
                                            }
                                        }
                                    }
                                }
                                sim.apply(Event::Tx(Tx::one(
                                    "limit_admin",
                                    ix::configure_bank_limits_only(g.key, g.admins.limit, c.bank_pk, None, None, Some(1)),
                                )));
                                if sim.violated() && sim.stop_on_violation {
                                    return None;
                                }
                            }
                            let rm = crate::world::risk_metas(&sim.store, &ma, None, None);
                            return Some(Tx::one("bankruptcy", ix::handle_bankruptcy(&dinfo.keys, g.admins.risk, ma, rm)));
                        }
                    }
                }
            }
            let cap = match ctx.rng.below(4) {
                0 => dollars / 2,
                1 => dollars.saturating_sub(1),
                2 => dollars.saturating_add(1),
                _ => dollars / 10,
            }
            .max(1);
            sim.stats.fault("drill_init_value_cap_near_deposits");
            sim.apply(Event::Tx(Tx::one(
                "limit_admin",
                ix::configure_bank_limits_only(g.key, g.admins.limit, bk, None, None, Some(cap)),
            )));
            if sim.violated() && sim.stop_on_violation {
                return None;
            }
            return borrow_boundary_for(sim, ctx, ui, gi, ma);
        }
        24 => {
            // reduce-only drill: a bank somebody holds as collateral goes reduce-only, then that
            // holder looks for the edge of their borrowing power
            let mut holders: Vec<(usize, Pubkey, Pubkey)> = Vec::new();
            for (ui, u) in ctx.world.users.iter().enumerate() {
                for (g2, ma) in &u.maccounts {
                    if *g2 != gi {
                        continue;
                    }
                    if let Some(acc) = model::account_of(&sim.store, ma) {
                        for bal in active_balances(&acc) {
                            if i80(bal.asset_shares) >= I80F48::ONE {
                                holders.push((ui, *ma, bal.bank_pk));
                            }
                        }
                    }
                }
            }
            if holders.is_empty() {
                return None;
            }
            let (ui, ma, bk) = *ctx.rng.pick(&holders);
            sim.stats.fault("drill_reduce_only_collateral");
            let opt = BankConfigOpt {
                operational_state: Some(BankOperationalState::ReduceOnly),
                ..Default::default()
            };
            sim.apply(Event::Tx(Tx::one("group_admin", ix::configure_bank(g.key, g.admins.admin, bk, opt))));
            if sim.violated() && sim.stop_on_violation {
                return None;
            }
            return borrow_boundary_for(sim, ctx, ui, gi, ma);
        }
        _ => {
            // account-level admin-ish user actions: transfer, close, frozen-account operation by admin
            let us: Vec<(usize, Pubkey)> = ctx
                .world
                .users
                .iter()
                .enumerate()
                .flat_map(|(ui, u)| u.maccounts.iter().filter(|(x, _)| *x == gi).map(move |(_, m)| (ui, *m)))
                .collect();
            if us.is_empty() {
                return None;
            }
            let (ui, ma) = *ctx.rng.pick(&us);
            let u = ctx.world.users[ui].clone();
            match ctx.rng.below(6) {
                0 => {
                    let new = ctx.rng.pubkey();
                    let new_auth = if ctx.rng.chance(1, 2) { u.authority } else { ctx.world.users[ctx.rng.below(ctx.world.users.len() as u64) as usize].authority };
                    let mut t = ix::transfer_to_new_account(g.key, ma, new, u.authority, ctx.world.payer, new_auth, ctx.world.fee_wallet);
                    for m in t.accounts.iter_mut() {
                        if m.pubkey == new {
                            m.is_signer = true;
                        }
                    }
                    // remember the new account so later actors can use it
                    let tx = Tx::one("user", t);
                    let out = sim.apply(Event::Tx(tx));
                    if out.map(|o| o.ok()).unwrap_or(false) {
                        if let Some(owner) = ctx.world.users.iter_mut().find(|x| x.authority == new_auth) {
                            owner.maccounts.push((gi, new));
                        }
                    }
                    return None;
                }
                1 => Tx::one("user", ix::account_close(ma, u.authority, ctx.world.payer)),
                2 => {
                    // group admin operating a (possibly frozen) account: freeze it first half of
                    // the time, then withdraw a little to a destination of the admin's choosing
                    let acc = model::account_of(&sim.store, &ma)?;
                    if acc.account_flags & ACCOUNT_FROZEN == 0 && ctx.rng.chance(1, 2) {
                        sim.apply(Event::Tx(Tx::one("group_admin", ix::set_freeze(g.key, ma, g.admins.admin, true))));
                    }
                    let bals: Vec<Balance> = active_balances(&acc).into_iter().filter(|x| i80(x.asset_shares) >= I80F48::ONE).collect();
                    if bals.is_empty() {
                        return None;
                    }
                    let bal = ctx.rng.pick(&bals).clone();
                    let bi = ctx.world.bank_info(&bal.bank_pk)?.clone();
                    let dst = *ctx.world.stranger_tokens.get(&bi.keys.mint)?;
                    let rm = crate::world::risk_metas(&sim.store, &ma, None, None);
                    Tx::one("group_admin", ix::withdraw(&bi.keys, ma, g.admins.admin, dst, 1, None, rm))
                }
                4 => {
                    // PDA-addressed account for a user
                    let index = ctx.rng.below(4) as u16;
                    let third = match ctx.rng.below(4) { 0 => None, 1 => Some(7u16), 2 => Some(10_001), _ => Some(0) };
                    let new = ix::account_pda(&g.key, &u.authority, index, third);
                    let t = ix::account_initialize_pda(g.key, new, u.authority, ctx.world.payer, index, third);
                    let out = sim.apply(Event::Tx(Tx::one("user", t)));
                    if out.map(|o| o.ok()).unwrap_or(false) {
                        ctx.world.users[ui].maccounts.push((gi, new));
                    }
                    return None;
                }
                5 => {
                    // transfer into a PDA-addressed account
                    let index = ctx.rng.range(4, 9) as u16;
                    let new_auth = ctx.world.users[ctx.rng.below(ctx.world.users.len() as u64) as usize].authority;
                    let new = ix::account_pda(&g.key, &new_auth, index, None);
                    let t = ix::transfer_to_new_account_pda(g.key, ma, new, u.authority, ctx.world.payer, new_auth, ctx.world.fee_wallet, index, None);
                    let out = sim.apply(Event::Tx(Tx::one("user", t)));
                    if out.map(|o| o.ok()).unwrap_or(false) {
                        if let Some(owner) = ctx.world.users.iter_mut().find(|x| x.authority == new_auth) {
                            owner.maccounts.push((gi, new));
                        }
                    }
                    return None;
                }
                _ => {
                    // fresh account for a user
                    let new = ctx.rng.pubkey();
                    let mut t = ix::account_initialize(g.key, new, u.authority, ctx.world.payer);
                    for m in t.accounts.iter_mut() {
                        if m.pubkey == new {
                            m.is_signer = true;
                        }
                    }
                    let out = sim.apply(Event::Tx(Tx::one("user", t)));
                    if out.map(|o| o.ok()).unwrap_or(false) {
                        ctx.world.users[ui].maccounts.push((gi, new));
                    }
                    return None;
                }
            }
        }
    };
    let _ = I80F48::ZERO;
    Some(tx)
}

/// EMI actions: settle / withdraw / permissionless withdraw of emissions, destination update.
pub fn step_emi(sim: &mut Sim, ctx: &mut Ctx) -> Option<Tx> {
    // banks with emissions configured
    let mut cands: Vec<(usize, crate::world::BankInfo, Bank)> = Vec::new();
    for (gi, g) in ctx.world.groups.iter().enumerate() {
        for b in &g.banks {
            if let Some(bank) = model::bank_of(&sim.store, &b.keys.bank) {
                if bank.emissions_mint != Pubkey::default() {
                    cands.push((gi, b.clone(), bank));
                }
            }
        }
    }
    if cands.is_empty() {
        return None;
    }
    let (gi, b, bank) = ctx.rng.pick(&cands).clone();
    let us: Vec<(usize, Pubkey)> = ctx
        .world
        .users
        .iter()
        .enumerate()
        .flat_map(|(ui, u)| u.maccounts.iter().filter(|(x, _)| *x == gi).map(move |(_, m)| (ui, *m)))
        .collect();
    if us.is_empty() {
        return None;
    }
    let (ui, ma) = *ctx.rng.pick(&us);
    let u = ctx.world.users[ui].clone();
    let mint = bank.emissions_mint;
    let mint_acc = sim.store.get(&mint)?.clone();
    let tp = mint_acc.owner;
    // the user's own token account for the emissions mint (fixture, lazily)
    let user_ta = {
        let mut k = u.authority.to_bytes();
        let m = mint.to_bytes();
        for i in 0..32 {
            k[i] = k[i].wrapping_add(m[i]).rotate_left(1);
        }
        Pubkey::new_from_array(k)
    };
    if sim.store.get(&user_ta).is_none() {
        sim.apply(Event::SetAccount {
            key: user_ta,
            account: Some(crate::fixtures::token_account(&mint, &mint_acc, &u.authority, 0)),
            why: "fixture_emissions_user_account",
        });
    }
    match ctx.rng.below(7) {
        6 => {
            // a third party takes the account into receivership (it is made unhealthy first) and,
            // INSIDE the bracket, asks for the account's accrued rewards to be paid to a token
            // account of its own: rewards go to the authority's chosen destination only
            // needs an account that owes something (only such an account can be unhealthy) and
            // holds a position in the emissions bank
            let owing: Vec<(usize, Pubkey)> = us
                .iter()
                .filter(|(_, m)| {
                    model::account_of(&sim.store, m)
                        .map(|a| {
                            let bs = active_balances(&a);
                            bs.iter().any(|x| i80(x.liability_shares) >= I80F48::ONE) && bs.iter().any(|x| i80(x.asset_shares) >= I80F48::ONE) && bs.iter().any(|x| x.bank_pk == b.keys.bank)
                        })
                        .unwrap_or(false)
                })
                .cloned()
                .collect();
            let (ui, ma) = if owing.is_empty() { (ui, ma) } else { *ctx.rng.pick(&owing) };
            if owing.is_empty() {
                // nobody owes yet: the holder borrows up to its limit first
                if let Some(mut t) = crate::actors::borrow_boundary_for(sim, ctx, ui, gi, ma) {
                    crate::actors::submit(sim, ctx, &mut t);
                }
            }
            {
                let mut f = Vec::new();
                for e in crate::actors::act_oracle_publish(sim, ctx, &mut f) {
                    sim.apply(e);
                }
            }
            crate::actors_tx::make_unhealthy_target(sim, ctx, Some(ma));
            let others: Vec<usize> = (0..ctx.world.users.len()).filter(|x| *x != ui).collect();
            if others.is_empty() {
                return None;
            }
            let r = ctx.world.users[*ctx.rng.pick(&others)].clone();
            let r_ta = {
                let mut k = r.authority.to_bytes();
                let m = mint.to_bytes();
                for i in 0..32 {
                    k[i] = k[i].wrapping_add(m[i]).rotate_left(1);
                }
                Pubkey::new_from_array(k)
            };
            if sim.store.get(&r_ta).is_none() {
                sim.apply(Event::SetAccount { key: r_ta, account: Some(crate::fixtures::token_account(&mint, &mint_acc, &r.authority, 0)), why: "fixture_emissions_user_account" });
            }
            let acc = model::account_of(&sim.store, &ma)?;
            let rm = crate::world::risk_metas(&sim.store, &ma, None, None);
            let mut ixs = Vec::new();
            if acc.liquidation_record == Pubkey::default() {
                ixs.push(ix::init_liq_record(ma, ctx.world.payer));
            }
            ixs.push(ix::start_liquidation(ma, r.authority, rm.clone()));
            if ctx.rng.chance(1, 4) {
                ixs.push(ix::settle_emissions(ma, b.keys.bank));
            }
            ixs.push(ix::withdraw_emissions(&b.keys, ma, r.authority, mint, tp, r_ta));
            ixs.push(ix::end_liquidation(ma, r.authority, ctx.world.fee_wallet, rm));
            sim.stats.fault("emissions_withdrawal_attempted_inside_a_receivership_bracket");
            Some(Tx::many("receiver", ixs))
        }
        0 | 1 => Some(Tx::one("anyone", ix::settle_emissions(ma, b.keys.bank))),
        2 => Some(Tx::one("user", ix::withdraw_emissions(&b.keys, ma, u.authority, mint, tp, user_ta))),
        3 => {
            // redirect to somebody else's account (allowed: the authority chooses)
            let dst = if ctx.rng.chance(1, 2) { user_ta } else { ctx.world.stranger_tokens.values().next().cloned().unwrap_or(user_ta) };
            Some(Tx::one("user", ix::withdraw_emissions(&b.keys, ma, u.authority, mint, tp, dst)))
        }
        4 => {
            let wallet = if ctx.rng.chance(2, 3) { u.authority } else { ctx.world.stranger };
            Some(Tx::one("user", ix::update_emissions_destination(ma, u.authority, wallet)))
        }
        _ => {
            let acc = model::account_of(&sim.store, &ma)?;
            let wallet = acc.emissions_destination_account;
            let expected = ix::ata(&wallet, &mint, &tp);
            // no destination registered: somebody creates the token account of the all-zero
            // wallet and asks to be paid there (must be refused)
            let dst = if (wallet != Pubkey::default() && ctx.rng.chance(4, 5)) || (wallet == Pubkey::default() && ctx.rng.chance(1, 2)) {
                if wallet == Pubkey::default() {
                    sim.stats.fault("emissions_permissionless_to_unregistered_default_wallet");
                }
                if sim.store.get(&expected).is_none() {
                    sim.apply(Event::SetAccount {
                        key: expected,
                        account: Some(crate::fixtures::token_account(&mint, &mint_acc, &wallet, 0)),
                        why: "fixture_emissions_ata",
                    });
                }
                expected
            } else {
                user_ta
            };
            Some(Tx::one("anyone", ix::withdraw_emissions_permissionless(&b.keys, ma, mint, tp, dst)))
        }
    }
}

/// Directed drill: drive one bank into the killed state (a single borrower owes everything the
/// lenders deposited, its collateral becomes worthless, the insurance vault is empty), then let the
/// administrators try to reconfigure it.  Random continuation follows.
pub fn drill_kill_bank(sim: &mut Sim, ctx: &mut Ctx) {
    if ctx.world.users.len() < 2 {
        return;
    }
    let gi = 0usize;
    let g = ctx.world.groups[gi].clone();
    // collateral bank X (counts as collateral) and debt bank Y
    let mut x = None;
    let mut y = None;
    for b in &g.banks {
        let Some(bank) = model::bank_of(&sim.store, &b.keys.bank) else { continue };
        let ai: f64 = I80F48::from_le_bytes(bank.config.asset_weight_init.value).to_num();
        if ai > 0.2 && x.is_none() && b.oracle != crate::world::OracleKind::Fixed {
            x = Some(b.clone());
        } else if y.is_none() && bank.config.risk_tier == RiskTier::Collateral {
            y = Some(b.clone());
        }
    }
    let (Some(x), Some(y)) = (x, y) else { return };
    let lender = ctx.world.users[0].clone();
    let borrower = ctx.world.users[1].clone();
    let (Some(l_acc), Some(b_acc)) = (
        lender.maccounts.iter().find(|(g2, _)| *g2 == gi).map(|(_, m)| *m),
        borrower.maccounts.iter().find(|(g2, _)| *g2 == gi).map(|(_, m)| *m),
    ) else {
        return;
    };
    let (Some(l_ta), Some(b_ta_x), Some(b_ta_y)) = (
        lender.tokens.get(&y.keys.mint).cloned(),
        borrower.tokens.get(&x.keys.mint).cloned(),
        borrower.tokens.get(&y.keys.mint).cloned(),
    ) else {
        return;
    };
    sim.stats.fault("drill_kill_bank");
    let d = (token_balance(&sim.store, &l_ta) / 1000).clamp(10_000, 1_000_000_000).min(token_balance(&sim.store, &l_ta));
    sim.apply(Event::Tx(Tx::one("user", ix::deposit(&y.keys, l_acc, lender.authority, l_ta, d, None))));
    // variant: a bystander borrows a sliver first, the main borrower takes the rest, and years pass
    // before the crash so that the main debt alone outgrows the deposits by the fee share of the
    // interest (only then can a second debtor coexist with a killed bank)
    let mut bystander_acc: Option<(Pubkey, Pubkey, Pubkey)> = None;
    let with_bystander = ctx.world.users.len() >= 3 && ctx.rng.chance(1, 3);
    if with_bystander {
        let third = ctx.world.users[2].clone();
        if let (Some(t_acc), Some(t_tx), Some(t_ty)) = (
            third.maccounts.iter().find(|(g2, _)| *g2 == gi).map(|(_, m)| *m),
            third.tokens.get(&x.keys.mint).cloned(),
            third.tokens.get(&y.keys.mint).cloned(),
        ) {
            let c3 = token_balance(&sim.store, &t_tx) / 2;
            sim.apply(Event::Tx(Tx::one("user", ix::deposit(&x.keys, t_acc, third.authority, t_tx, c3.max(1), None))));
            let rm = crate::world::risk_metas(&sim.store, &t_acc, Some(y.keys.bank), None);
            let sliver = (d / 500).max(1);
            let o = sim.apply(Event::Tx(Tx::one("user", ix::borrow(&y.keys, t_acc, third.authority, t_ty, sliver, rm))));
            if o.map(|o| o.ok()).unwrap_or(false) {
                sim.stats.fault("drill_kill_bank_second_debtor");
                bystander_acc = Some((t_acc, third.authority, t_ty));
            }
        }
    }
    // collateral sized from the debt, so that it is worth less than the debt once its price is at
    // the floor (an account whose worthless collateral still outweighs a dust debt is not bankrupt)
    let vault = token_balance(&sim.store, &y.keys.liquidity_vault);
    let c_max = token_balance(&sim.store, &b_ta_x) / 2;
    let mut c = c_max;
    if let (Some(xb), Some(yb), Some(xi), Some(yi)) = (
        model::bank_of(&sim.store, &x.keys.bank),
        model::bank_of(&sim.store, &y.keys.bank),
        ctx.world.bank_info(&x.keys.bank).cloned(),
        ctx.world.bank_info(&y.keys.bank).cloned(),
    ) {
        let ai: f64 = I80F48::from_le_bytes(xb.config.asset_weight_init.value).to_num();
        let li: f64 = I80F48::from_le_bytes(yb.config.liability_weight_init.value).to_num();
        let debt_micro = vault as f64 * yi.price_micro as f64 / 10f64.powi(yb.mint_decimals as i32);
        let want = 4.0 * li.max(1.0) / ai.max(0.01) * debt_micro * 10f64.powi(xb.mint_decimals as i32) / (xi.price_micro.max(1) as f64);
        if want.is_finite() && want >= 1.0 && want < c_max as f64 {
            c = want.ceil() as u64;
        }
    }
    sim.apply(Event::Tx(Tx::one("user", ix::deposit(&x.keys, b_acc, borrower.authority, b_ta_x, c.max(1), None))));
    // variant "near wipe": the borrower leaves a sliver (1/20 000 .. 1/1 000 000 of the deposits)
    // unborrowed, so that the uninsured loss takes the deposit share value to a tiny positive
    // number instead of zero and the bank lives on with it
    let near_wipe = bystander_acc.is_none() && ctx.rng.chance(1, 4);
    let borrow_amt = if near_wipe {
        let div = *ctx.rng.pick(&[20_000u64, 100_000, 1_000_000]);
        vault.saturating_sub((vault / div).max(1)).max(1)
    } else {
        vault
    };
    let mut borrowed = false;
    for _ in 0..4 {
        let rm = crate::world::risk_metas(&sim.store, &b_acc, Some(y.keys.bank), None);
        let out = sim.apply(Event::Tx(Tx::one("user", ix::borrow(&y.keys, b_acc, borrower.authority, b_ta_y, borrow_amt, rm))));
        if out.map(|o| o.ok()).unwrap_or(false) {
            borrowed = true;
            break;
        }
        let more = c.min(token_balance(&sim.store, &b_ta_x));
        if more == 0 {
            break;
        }
        sim.apply(Event::Tx(Tx::one("user", ix::deposit(&x.keys, b_acc, borrower.authority, b_ta_x, more, None))));
        c = c.saturating_mul(2);
    }
    if !borrowed {
        return;
    }
    if bystander_acc.is_some() {
        let years = ctx.rng.irange(1, 4) * 31_536_000;
        sim.apply(Event::Advance { dt: years, dslot: years as u64 * 2, depoch: 0 });
    }
    if sim.violated() && sim.stop_on_violation {
        return;
    }
    // the collateral becomes worthless
    let now = sim.clock.unix_timestamp;
    if let Some(info) = ctx.world.bank_info_mut(&x.keys.bank) {
        info.price_micro = 1;
        let ev = match info.oracle {
            crate::world::OracleKind::Pyth => Event::SetAccount {
                key: info.oracle_key,
                account: Some(crate::fixtures::pyth_account(info.feed_id, &crate::world::pyth_from_micro(1, info.expo.max(-8), 0, 0, now))),
                why: "oracle_jump",
            },
            _ => Event::SetAccount {
                key: info.oracle_key,
                account: Some(crate::fixtures::swb_account(&crate::world::swb_from_micro(1, 0, now))),
                why: "oracle_jump",
            },
        };
        sim.apply(ev);
    }
    // half of the time no time passes at all, so that the bad debt equals the deposits EXACTLY
    // (the "at" case of the kill switch), otherwise a little interest makes it strictly larger
    if near_wipe {
        sim.stats.fault("drill_near_wipe");
    } else if ctx.rng.chance(1, 2) {
        sim.apply(Event::Advance { dt: 5, dslot: 10, depoch: 0 });
    } else {
        sim.stats.fault("drill_kill_bank_exact_equality");
    }
    let mut f = Vec::new();
    for e in act_oracle_publish(sim, ctx, &mut f) {
        // keep the crashed collateral price: skip re-publishing X
        if let Event::SetAccount { key, .. } = &e {
            if *key == x.oracle_key {
                continue;
            }
        }
        sim.apply(e);
    }
    let now = sim.clock.unix_timestamp;
    if let Some(info) = ctx.world.bank_info(&x.keys.bank).cloned() {
        let ev = match info.oracle {
            crate::world::OracleKind::Pyth => Event::SetAccount {
                key: info.oracle_key,
                account: Some(crate::fixtures::pyth_account(info.feed_id, &crate::world::pyth_from_micro(1, info.expo.max(-8), 0, 0, now))),
                why: "oracle_jump",
            },
            _ => Event::SetAccount {
                key: info.oracle_key,
                account: Some(crate::fixtures::swb_account(&crate::world::swb_from_micro(1, 0, now))),
                why: "oracle_jump",
            },
        };
        sim.apply(ev);
    }
    let rm = crate::world::risk_metas(&sim.store, &b_acc, None, None);
    sim.apply(Event::Tx(Tx::one("bankruptcy", ix::handle_bankruptcy(&y.keys, g.admins.risk, b_acc, rm))));
    if sim.violated() && sim.stop_on_violation {
        return;
    }
    // administrators now try to touch the (hopefully killed) bank
    let killed = model::bank_of(&sim.store, &y.keys.bank)
        .map(|b| b.config.operational_state == BankOperationalState::KilledByBankruptcy)
        .unwrap_or(false);
    if near_wipe && !killed {
        // the surviving lender acts on a position whose share value is now tiny: partial
        // withdrawals, a top-up, another withdrawal
        if let Some(bank) = model::bank_of(&sim.store, &y.keys.bank) {
            let asv: f64 = I80F48::from_le_bytes(bank.asset_share_value.value).to_num();
            if asv > 0.0 && asv < 1e-3 {
                sim.stats.fault("drill_near_wipe_tiny_share_value");
            }
        }
        for k in 0..4u64 {
            let left = token_balance(&sim.store, &y.keys.liquidity_vault);
            let amt = match k {
                0 => 1,
                1 => (left / 2).max(1),
                2 => (left / 3).max(1),
                _ => left.saturating_sub(1).max(1),
            };
            let rm = crate::world::risk_metas(&sim.store, &l_acc, None, None);
            sim.apply(Event::Tx(Tx::one("user", ix::withdraw(&y.keys, l_acc, lender.authority, l_ta, amt, None, rm))));
            if sim.violated() && sim.stop_on_violation {
                return;
            }
            if k == 1 {
                sim.apply(Event::Tx(Tx::one("user", ix::deposit(&y.keys, l_acc, lender.authority, l_ta, (d / 1000).max(1), None))));
            }
        }
    }
    if killed {
        sim.stats.fault("drill_bank_killed");
        // users now touch the killed bank: every one of these must be refused
        if let Some((acc, auth, ty)) = bystander_acc {
            sim.stats.fault("drill_bank_killed_with_second_debtor");
            sim.apply(Event::Tx(Tx::one("user", ix::repay(&y.keys, acc, auth, ty, 1, None))));
            sim.apply(Event::Tx(Tx::one("user", ix::repay(&y.keys, acc, auth, ty, 1, Some(true)))));
            // ... or simply tries to drop the position that carries the debt
            sim.apply(Event::Tx(Tx::one("user", ix::close_balance(g.key, acc, auth, y.keys.bank))));
            if sim.violated() && sim.stop_on_violation {
                return;
            }
        }
        let rm = crate::world::risk_metas(&sim.store, &l_acc, None, None);
        sim.apply(Event::Tx(Tx::one("user", ix::withdraw(&y.keys, l_acc, lender.authority, l_ta, 1, None, rm))));
        sim.apply(Event::Tx(Tx::one("user", ix::deposit(&y.keys, l_acc, lender.authority, l_ta, 1, None))));
        if sim.violated() && sim.stop_on_violation {
            return;
        }
    }
    for st in [BankOperationalState::Operational, BankOperationalState::ReduceOnly, BankOperationalState::Paused] {
        if !ctx.rng.chance(2, 3) {
            continue;
        }
        let opt = BankConfigOpt {
            operational_state: Some(st),
            ..Default::default()
        };
        sim.apply(Event::Tx(Tx::one("group_admin", ix::configure_bank(g.key, g.admins.admin, y.keys.bank, opt))));
        if sim.violated() && sim.stop_on_violation {
            return;
        }
    }
}
