//! Replay files: the concrete event list of a run (JSON), execution of such a list, and
//! delta-debugging minimisation.

use crate::rt::{Account, ForeignPrograms, Ix, Tx};
use crate::sim::{Event, Monitor, Sim, Violation};
use anchor_lang::prelude::{AccountMeta, Pubkey};
use serde_json::{json, Value};
use std::collections::BTreeMap;
use std::str::FromStr;
use std::sync::Mutex;

fn hex(b: &[u8]) -> String {
    let mut s = String::with_capacity(b.len() * 2);
    for x in b {
        s.push_str(&format!("{:02x}", x));
    }
    s
}
fn unhex(s: &str) -> Vec<u8> {
    (0..s.len() / 2)
        .map(|i| u8::from_str_radix(&s[2 * i..2 * i + 2], 16).unwrap_or(0))
        .collect()
}

/// `&'static str` interning for tags read back from files.
pub fn intern(s: &str) -> &'static str {
    static TABLE: Mutex<BTreeMap<String, &'static str>> = Mutex::new(BTreeMap::new());
    let mut t = TABLE.lock().unwrap();
    if let Some(x) = t.get(s) {
        return x;
    }
    let leaked: &'static str = Box::leak(s.to_string().into_boxed_str());
    t.insert(s.to_string(), leaked);
    leaked
}

fn ix_to_json(ix: &Ix) -> Value {
    json!({
        "tag": ix.tag,
        "program": ix.program_id.to_string(),
        "wrapper": ix.wrapper.map(|w| w.to_string()),
        "accounts": ix.accounts.iter().map(|m| json!([m.pubkey.to_string(), m.is_signer, m.is_writable])).collect::<Vec<_>>(),
        "data": hex(&ix.data),
    })
}

fn tx_to_json(tx: &Tx) -> Value {
    json!({
        "actor": tx.actor,
        "fail_cpi_at": tx.fail_cpi_at,
        "ixs": tx.ixs.iter().map(ix_to_json).collect::<Vec<_>>(),
    })
}

pub fn event_to_json(e: &Event) -> Value {
    match e {
        Event::Advance { dt, dslot, depoch } => {
            json!({"t":"adv","dt":dt,"dslot":dslot,"depoch":depoch})
        }
        Event::Tx(tx) => {
            let mut v = tx_to_json(tx);
            v["t"] = json!("tx");
            v
        }
        Event::ForkTx(tx) => {
            let mut v = tx_to_json(tx);
            v["t"] = json!("fork");
            v
        }
        Event::SetAccount { key, account, why } => json!({
            "t":"set",
            "key": key.to_string(),
            "why": why,
            "account": account.as_ref().map(|a| json!({
                "lamports": a.lamports,
                "owner": a.owner.to_string(),
                "exec": a.executable,
                "data": hex(&a.data),
            })),
        }),
    }
}

fn pk(v: &Value) -> Pubkey {
    Pubkey::from_str(v.as_str().unwrap_or("")).unwrap_or_default()
}

fn tx_from_json(v: &Value) -> Tx {
    let ixs = v["ixs"]
        .as_array()
        .map(|a| {
            a.iter()
                .map(|x| Ix {
                    program_id: pk(&x["program"]),
                    accounts: x["accounts"]
                        .as_array()
                        .map(|ms| {
                            ms.iter()
                                .map(|m| AccountMeta {
                                    pubkey: pk(&m[0]),
                                    is_signer: m[1].as_bool().unwrap_or(false),
                                    is_writable: m[2].as_bool().unwrap_or(false),
                                })
                                .collect()
                        })
                        .unwrap_or_default(),
                    data: unhex(x["data"].as_str().unwrap_or("")),
                    wrapper: if x["wrapper"].is_null() {
                        None
                    } else {
                        Some(pk(&x["wrapper"]))
                    },
                    tag: intern(x["tag"].as_str().unwrap_or("?")),
                })
                .collect()
        })
        .unwrap_or_default();
    Tx {
        ixs,
        fail_cpi_at: v["fail_cpi_at"].as_u64().map(|x| x as u32),
        actor: intern(v["actor"].as_str().unwrap_or("?")),
    }
}

pub fn event_from_json(v: &Value) -> Option<Event> {
    match v["t"].as_str()? {
        "adv" => Some(Event::Advance {
            dt: v["dt"].as_i64()?,
            dslot: v["dslot"].as_u64()?,
            depoch: v["depoch"].as_u64()?,
        }),
        "tx" => Some(Event::Tx(tx_from_json(v))),
        "fork" => Some(Event::ForkTx(tx_from_json(v))),
        "set" => Some(Event::SetAccount {
            key: pk(&v["key"]),
            why: intern(v["why"].as_str().unwrap_or("?")),
            account: if v["account"].is_null() {
                None
            } else {
                let a = &v["account"];
                Some(Account {
                    lamports: a["lamports"].as_u64()?,
                    owner: pk(&a["owner"]),
                    executable: a["exec"].as_bool().unwrap_or(false),
                    data: unhex(a["data"].as_str().unwrap_or("")),
                })
            },
        }),
        _ => None,
    }
}

pub struct ReplayFile {
    pub property: String,
    pub seed: u64,
    pub run_index: u64,
    pub profile: String,
    pub class: (String, String, String),
    pub detail: String,
    pub genesis_len: usize,
    pub foreign: ForeignPrograms,
    pub events: Vec<Event>,
}

impl ReplayFile {
    pub fn to_json(&self) -> Value {
        json!({
            "property": self.property,
            "seed": self.seed,
            "run_index": self.run_index,
            "profile": self.profile,
            "violation": {"property": self.class.0, "rule": self.class.1, "ix": self.class.2, "detail": self.detail},
            "genesis_len": self.genesis_len,
            "foreign_ok": self.foreign.ok.iter().map(|k| k.to_string()).collect::<Vec<_>>(),
            "foreign_failing": self.foreign.failing.iter().map(|k| k.to_string()).collect::<Vec<_>>(),
            "n_events": self.events.len(),
            "events": self.events.iter().map(event_to_json).collect::<Vec<_>>(),
        })
    }
    pub fn from_json(v: &Value) -> Option<Self> {
        let mut foreign = ForeignPrograms::default();
        for k in v["foreign_ok"].as_array()? {
            foreign.ok.insert(pk(k));
        }
        for k in v["foreign_failing"].as_array()? {
            foreign.failing.insert(pk(k));
        }
        Some(ReplayFile {
            property: v["property"].as_str()?.to_string(),
            seed: v["seed"].as_u64()?,
            run_index: v["run_index"].as_u64()?,
            profile: v["profile"].as_str()?.to_string(),
            class: (
                v["violation"]["property"].as_str()?.to_string(),
                v["violation"]["rule"].as_str()?.to_string(),
                v["violation"]["ix"].as_str()?.to_string(),
            ),
            detail: v["violation"]["detail"].as_str().unwrap_or("").to_string(),
            genesis_len: v["genesis_len"].as_u64()? as usize,
            foreign,
            events: v["events"]
                .as_array()?
                .iter()
                .filter_map(event_from_json)
                .collect(),
        })
    }
}

/// Execute a concrete event list with fresh monitors; returns all violations (not stopping).
pub fn execute_list(
    events: &[Event],
    foreign: &ForeignPrograms,
    monitors: Vec<Box<dyn Monitor>>,
    stop_at_first: bool,
) -> (Vec<Violation>, u64) {
    let mut sim = Sim::new(monitors);
    sim.exec.foreign = foreign.clone();
    sim.stop_on_violation = stop_at_first;
    for e in events {
        sim.apply(e.clone());
        if stop_at_first && sim.violated() {
            break;
        }
    }
    if !(stop_at_first && sim.violated()) {
        sim.finish();
    }
    let d = sim.store.digest();
    (sim.violations, d)
}

/// Delta-debugging over the non-genesis tail.  `make` builds fresh monitors.
pub fn minimise(
    events: &[Event],
    genesis_len: usize,
    foreign: &ForeignPrograms,
    class: &(String, String, String),
    make: &dyn Fn() -> Vec<Box<dyn Monitor>>,
    max_trials: usize,
) -> Vec<Event> {
    let fails = |cand: &[Event]| -> bool {
        let (v, _) = execute_list(cand, foreign, make(), true);
        v.iter().any(|x| x.class() == *class)
    };
    let head: Vec<Event> = events[..genesis_len.min(events.len())].to_vec();
    let mut tail: Vec<Event> = events[genesis_len.min(events.len())..].to_vec();
    let mut trials = 0usize;
    let build = |head: &Vec<Event>, tail: &Vec<Event>| -> Vec<Event> {
        let mut v = head.clone();
        v.extend(tail.iter().cloned());
        v
    };
    if !fails(&build(&head, &tail)) {
        return events.to_vec();
    }
    // pre-pass: what-if forks never change the main timeline, so all of them (or all but the last)
    // can usually go in one trial
    for keep_last in [false, true] {
        let last_fork = tail.iter().rposition(|e| matches!(e, Event::ForkTx(_)));
        let cand: Vec<Event> = tail
            .iter()
            .enumerate()
            .filter(|(i, e)| !matches!(e, Event::ForkTx(_)) || (keep_last && Some(*i) == last_fork))
            .map(|(_, e)| e.clone())
            .collect();
        if cand.len() < tail.len() {
            trials += 1;
            if fails(&build(&head, &cand)) {
                tail = cand;
                break;
            }
        }
    }
    let mut n = 2usize;
    while tail.len() >= 2 && trials < max_trials {
        let chunk = (tail.len() + n - 1) / n;
        let mut reduced = false;
        let mut start = 0;
        while start < tail.len() && trials < max_trials {
            let end = (start + chunk).min(tail.len());
            let mut cand = tail.clone();
            cand.drain(start..end);
            trials += 1;
            if fails(&build(&head, &cand)) {
                tail = cand;
                reduced = true;
                n = (n - 1).max(2);
                break;
            }
            start = end;
        }
        if !reduced {
            if chunk == 1 {
                break;
            }
            n = (n * 2).min(tail.len());
        }
    }
    // also try dropping genesis events that are not needed (fixtures of unused banks/users)
    let mut head = head;
    let mut i = head.len();
    while i > 0 && trials < max_trials {
        i -= 1;
        let mut cand = head.clone();
        cand.remove(i);
        trials += 1;
        if fails(&build(&cand, &tail)) {
            head = cand;
        }
    }
    build(&head, &tail)
}
