//! Reference model ("Ref"): an independent risk engine in exact rationals, written from the
//! property statements (DESIGN.md Appendix D).  Reads raw account and oracle bytes.

use crate::fixtures::{parse_pyth, parse_swb};
use crate::model::{self, pow10, q_w, qi, qr, qu, ulp, Q};
use crate::rt::{SimClock, Store};
use anchor_lang::prelude::Pubkey;
use marginfi_type_crate::types::{
    Bank, BankOperationalState, MarginfiAccount, OracleSetup, RiskTier,
};
use num_traits::{Signed, Zero};
use std::collections::BTreeMap;

#[derive(Clone, Copy, Debug, PartialEq, Eq)]
pub enum Req {
    Init,
    Maint,
    Equity,
}

#[derive(Clone, Debug)]
pub struct PricePair {
    pub price: Q,
    /// confidence already scaled to a 95 % interval (x2.12 Pyth, x1.96 Switchboard), uncapped
    pub conf: Q,
    /// the unscaled confidence as reported (for error propagation)
    pub conf_raw: Q,
}

#[derive(Clone, Debug)]
pub struct OracleView {
    /// venue-backed Pyth banks: an adjusted mantissa lies within the reference's own error band
    /// around the integer type's limit - whether the program prices it or reports the overflow
    /// cannot be told from exact arithmetic, both are right
    pub in_band: bool,
    pub spot: PricePair,
    pub ema: PricePair,
    /// venue-backed banks: bound on |program's exchange-rate-adjusted price - exact adjusted
    /// price| for (spot price, spot conf, ema price, ema conf); zero for plain banks
    pub adj_err: Q,
    /// the part of `adj_err` of the spot price that comes from the program's fixed-point
    /// exchange ratio alone (without the final truncation to the integer mantissa, which only
    /// ever lowers the result)
    pub adj_ratio_err: Q,
}

#[derive(Clone, Debug, PartialEq, Eq)]
pub enum OracleBad {
    NotSetup,
    Missing,
    WrongOwner,
    BadData,
    Unverified,
    Stale,
    Unsupported,
    NegativeFixed,
    /// value does not fit the program's 80.48 fixed point: must fail closed, never wrap
    OutOfRange,
}

pub fn max_age_of(bank: &Bank) -> i64 {
    match (bank.config.oracle_max_age, bank.config.oracle_setup) {
        (0, OracleSetup::PythPushOracle) => 60,
        (n, _) => n as i64,
    }
}

/// Raw oracle view (no confidence gating): authenticity + freshness only.
pub fn read_oracle(store: &Store, bank: &Bank, clock: SimClock) -> Result<OracleView, OracleBad> {
    match bank.config.oracle_setup {
        OracleSetup::None => Err(OracleBad::NotSetup),
        OracleSetup::Fixed => {
            let p = q_w(bank.config.fixed_price);
            if p < qi(0) {
                return Err(OracleBad::NegativeFixed);
            }
            let pp = PricePair {
                price: p,
                conf: Q::zero(),
                conf_raw: Q::zero(),
            };
            Ok(OracleView {
                in_band: false,
                spot: pp.clone(),
                ema: pp,
                adj_err: Q::zero(),
                adj_ratio_err: Q::zero(),
            })
        }
        OracleSetup::StakedWithPythPush => {
            // SOL price from the configured feed, scaled by the pool's exchange rate
            // (delegated stake less the pool's permanent 1 SOL) / LST supply, computed on the
            // integer mantissas (truncating), exactly as published.
            let key = bank.config.oracle_keys[0];
            let acc = store.get(&key).ok_or(OracleBad::Missing)?;
            if acc.owner != pyth_solana_receiver_sdk::id() {
                return Err(OracleBad::WrongOwner);
            }
            let p = parse_pyth(&acc.data).ok_or(OracleBad::BadData)?;
            if !p.verification_full {
                return Err(OracleBad::Unverified);
            }
            if p.publish_time.saturating_add(max_age_of(bank)) < clock.unix_timestamp {
                return Err(OracleBad::Stale);
            }
            let mint = store.get(&bank.config.oracle_keys[1]).ok_or(OracleBad::Missing)?;
            if mint.owner != crate::rt::spl_token_id() && mint.owner != crate::rt::token22_id() {
                return Err(OracleBad::WrongOwner);
            }
            let supply = crate::fixtures::mint_supply(&mint.data).ok_or(OracleBad::BadData)?;
            if supply == 0 {
                return Err(OracleBad::BadData);
            }
            let pool = store.get(&bank.config.oracle_keys[2]).ok_or(OracleBad::Missing)?;
            let stake = crate::fixtures::parse_stake(&pool.data).ok_or(OracleBad::BadData)?;
            let adj = stake.checked_sub(1_000_000_000).ok_or(OracleBad::BadData)?;
            let adjm = |m: i64| -> Result<i128, OracleBad> {
                let x = (m as i128).checked_mul(adj as i128).ok_or(OracleBad::OutOfRange)? / supply as i128;
                if x > i64::MAX as i128 || x < i64::MIN as i128 {
                    return Err(OracleBad::OutOfRange);
                }
                Ok(x)
            };
            let scale = |m: i128, e: i32| -> Q {
                if e >= 0 {
                    qi(m) * pow10(e as u32)
                } else {
                    qi(m) / pow10((-e) as u32)
                }
            };
            let cm = qr(212, 100);
            Ok(OracleView {
                in_band: false,
                spot: PricePair {
                    price: scale(adjm(p.price)?, p.exponent),
                    conf: scale(p.conf as i128, p.exponent) * &cm,
                    conf_raw: scale(p.conf as i128, p.exponent),
                },
                ema: PricePair {
                    price: scale(adjm(p.ema_price)?, p.exponent),
                    conf: scale(p.ema_conf as i128, p.exponent) * &cm,
                    conf_raw: scale(p.ema_conf as i128, p.exponent),
                },
                adj_err: Q::zero(),
                adj_ratio_err: Q::zero(),
            })
        }
        OracleSetup::PythPushOracle => {
            let key = bank.config.oracle_keys[0];
            let acc = store.get(&key).ok_or(OracleBad::Missing)?;
            if acc.owner != pyth_solana_receiver_sdk::id() {
                return Err(OracleBad::WrongOwner);
            }
            let p = parse_pyth(&acc.data).ok_or(OracleBad::BadData)?;
            if !p.verification_full {
                return Err(OracleBad::Unverified);
            }
            if p.publish_time.saturating_add(max_age_of(bank)) < clock.unix_timestamp {
                return Err(OracleBad::Stale);
            }
            let scale = |m: i128, e: i32| -> Q {
                if e >= 0 {
                    qi(m) * pow10(e as u32)
                } else {
                    qi(m) / pow10((-e) as u32)
                }
            };
            let cm = qr(212, 100);
            Ok(OracleView {
                in_band: false,
                spot: PricePair {
                    price: scale(p.price as i128, p.exponent),
                    conf: scale(p.conf as i128, p.exponent) * &cm,
                    conf_raw: scale(p.conf as i128, p.exponent),
                },
                ema: PricePair {
                    price: scale(p.ema_price as i128, p.exponent),
                    conf: scale(p.ema_conf as i128, p.exponent) * &cm,
                    conf_raw: scale(p.ema_conf as i128, p.exponent),
                },
                adj_err: Q::zero(),
                adj_ratio_err: Q::zero(),
            })
        }
        OracleSetup::SwitchboardPull => {
            let key = bank.config.oracle_keys[0];
            let acc = store.get(&key).ok_or(OracleBad::Missing)?;
            if acc.owner != marginfi::constants::SWITCHBOARD_PULL_ID {
                return Err(OracleBad::WrongOwner);
            }
            let s = parse_swb(&acc.data).ok_or(OracleBad::BadData)?;
            if clock.unix_timestamp.saturating_sub(s.last_update_timestamp) > max_age_of(bank) {
                return Err(OracleBad::Stale);
            }
            let lim: i128 = 1i128 << 79;
            if s.value >= lim || s.value < -lim || s.std_dev >= lim || s.std_dev < -lim {
                return Err(OracleBad::OutOfRange);
            }
            let pp = PricePair {
                price: qi(s.value) / pow10(18),
                conf: qi(s.std_dev) / pow10(18) * qr(196, 100),
                conf_raw: qi(s.std_dev) / pow10(18),
            };
            Ok(OracleView {
                in_band: false,
                spot: pp.clone(),
                ema: pp,
                adj_err: Q::zero(),
                adj_ratio_err: Q::zero(),
            })
        }
        OracleSetup::KaminoPythPush | OracleSetup::SolendPythPull | OracleSetup::DriftPythPull => {
            // venue account first (the program checks it before it loads the feed)
            let vr = venue_rate(store, bank, clock)?;
            let key = bank.config.oracle_keys[0];
            let acc = store.get(&key).ok_or(OracleBad::Missing)?;
            if acc.owner != pyth_solana_receiver_sdk::id() {
                return Err(OracleBad::WrongOwner);
            }
            let p = parse_pyth(&acc.data).ok_or(OracleBad::BadData)?;
            if !p.verification_full {
                return Err(OracleBad::Unverified);
            }
            if p.publish_time.saturating_add(max_age_of(bank)) < clock.unix_timestamp {
                return Err(OracleBad::Stale);
            }
            if vr.integer_only && (p.price < 0 || p.ema_price < 0) {
                // the Drift conversion is unsigned: a negative mantissa is a conversion error
                return Err(OracleBad::BadData);
            }
            let scale = |m: &Q, e: i32| -> Q {
                if e >= 0 {
                    m * pow10(e as u32)
                } else {
                    m / pow10((-e) as u32)
                }
            };
            let rate = vr.rate.clone().unwrap_or_else(|| qi(1));
            // program: mantissa' = floor(mantissa * ratio_fx): at most |m| * d_r + 1 mantissa units
            // below/above the exact product; the result must fit the mantissa's integer type
            let band = std::cell::Cell::new(false);
            let adj = |m: i128, lim: i128| -> Result<(Q, Q), OracleBad> {
                let x = qi(m) * &rate;
                let e = if vr.rate.is_some() { qi(m.abs()) * &vr.d_r + qi(1) } else { Q::zero() };
                if x.abs() > qi(lim) + &e {
                    return Err(OracleBad::OutOfRange);
                }
                if x.abs() > qi(lim) - &e {
                    band.set(true);
                }
                Ok((x, e))
            };
            let (sp, e1) = adj(p.price as i128, i64::MAX as i128)?;
            let (sc, e2) = adj(p.conf as i128, u64::MAX as i128)?;
            let (ep, e3) = adj(p.ema_price as i128, i64::MAX as i128)?;
            let (ec, e4) = adj(p.ema_conf as i128, u64::MAX as i128)?;
            let cm = qr(212, 100);
            let emax = model::q_max(model::q_max(e1, e3), model::q_max(e2, e4) * &cm);
            Ok(OracleView {
                in_band: band.get(),
                spot: PricePair {
                    price: scale(&sp, p.exponent),
                    conf: scale(&sc, p.exponent) * &cm,
                    conf_raw: scale(&sc, p.exponent),
                },
                ema: PricePair {
                    price: scale(&ep, p.exponent),
                    conf: scale(&ec, p.exponent) * &cm,
                    conf_raw: scale(&ec, p.exponent),
                },
                adj_err: scale(&emax, p.exponent),
                adj_ratio_err: if vr.rate.is_some() { scale(&(qi((p.price as i128).abs()) * &vr.d_r), p.exponent) } else { Q::zero() },
            })
        }
        OracleSetup::KaminoSwitchboardPull | OracleSetup::SolendSwitchboardPull | OracleSetup::DriftSwitchboardPull => {
            let vr = venue_rate(store, bank, clock)?;
            let key = bank.config.oracle_keys[0];
            let acc = store.get(&key).ok_or(OracleBad::Missing)?;
            if acc.owner != marginfi::constants::SWITCHBOARD_PULL_ID {
                return Err(OracleBad::WrongOwner);
            }
            let s = parse_swb(&acc.data).ok_or(OracleBad::BadData)?;
            if clock.unix_timestamp.saturating_sub(s.last_update_timestamp) > max_age_of(bank) {
                return Err(OracleBad::Stale);
            }
            if vr.integer_only && (s.value < 0 || s.std_dev < 0) {
                return Err(OracleBad::BadData);
            }
            let lim: i128 = 1i128 << 79;
            if !vr.integer_only && vr.rate.is_some() && (s.value >= lim || s.value < -lim || s.std_dev >= lim || s.std_dev < -lim) {
                // the raw 1e18-scaled value must fit the 80-bit integer part before it is scaled
                if std::env::var("MFISIM_DEBUG_REF").is_ok() { eprintln!("ref: raw out of range value={} std={}", s.value, s.std_dev); }
                return Err(OracleBad::OutOfRange);
            }
            let rate = vr.rate.clone().unwrap_or_else(|| qi(1));
            let v = qi(s.value) * &rate;
            let sd = qi(s.std_dev) * &rate;
            let ev = if vr.rate.is_some() { qi(s.value).abs() * &vr.d_r + qi(1) } else { Q::zero() };
            let es = if vr.rate.is_some() { qi(s.std_dev).abs() * &vr.d_r + qi(1) } else { Q::zero() };
            // the adjusted value is then converted like any Switchboard value (must fit 80 bits)
            if v.abs() >= qi(lim) - &ev || sd.abs() >= qi(lim) - &es {
                if std::env::var("MFISIM_DEBUG_REF").is_ok() { eprintln!("ref: adjusted out of range value={} v={} ev={} rate={}", s.value, v, ev, rate); }
                return Err(OracleBad::OutOfRange);
            }
            let pp = PricePair {
                price: &v / pow10(18),
                conf: &sd / pow10(18) * qr(196, 100),
                conf_raw: &sd / pow10(18),
            };
            Ok(OracleView {
                in_band: false,
                spot: pp.clone(),
                ema: pp,
                adj_err: (model::q_max(ev, es * qr(196, 100))) / pow10(18),
                adj_ratio_err: if vr.rate.is_some() { qi(s.value).abs() * &vr.d_r / pow10(18) } else { Q::zero() },
            })
        }
        _ => Err(OracleBad::Unsupported),
    }
}

/// Exchange rate of a venue-backed bank: underlying tokens per unit of the venue's collateral
/// (Kamino / Solend: total liquidity / collateral supply; Drift: cumulative deposit interest /
/// 10^10), read from the venue account named by `oracle_keys[1]`.
pub struct VenueRate {
    /// None: the reserve has no collateral outstanding and the price is used unadjusted
    pub rate: Option<Q>,
    /// bound on |the program's fixed-point ratio - rate|
    pub d_r: Q,
    /// Drift: the adjustment is unsigned integer arithmetic (floor), no fixed-point ratio
    pub integer_only: bool,
}

pub fn venue_rate(store: &Store, bank: &Bank, clock: SimClock) -> Result<VenueRate, OracleBad> {
    let key = bank.config.oracle_keys[1];
    let acc = store.get(&key).ok_or(OracleBad::Missing)?;
    let u = ulp();
    match bank.config.oracle_setup {
        OracleSetup::SolendPythPull | OracleSetup::SolendSwitchboardPull => {
            if acc.owner != crate::rt::solend_id() {
                return Err(OracleBad::WrongOwner);
            }
            let v = crate::venues::parse_solend_reserve(&acc.data).ok_or(OracleBad::BadData)?;
            if v.slot < clock.slot {
                return Err(OracleBad::Stale);
            }
            let l = qu(v.available) + model::qu128(v.borrowed_wads) / pow10(18) - model::qu128(v.fees_wads) / pow10(18);
            ratio(l, v.collateral_supply, v.decimals, 3, &u)
        }
        OracleSetup::KaminoPythPush | OracleSetup::KaminoSwitchboardPull => {
            if acc.owner != crate::rt::kamino_id() {
                return Err(OracleBad::WrongOwner);
            }
            let v = crate::venues::parse_kamino_reserve(&acc.data).ok_or(OracleBad::BadData)?;
            if v.slot < clock.slot {
                return Err(OracleBad::Stale);
            }
            let sf = Q::from_integer(num_bigint::BigInt::from(1u8) << 60);
            let l = qu(v.available) + model::qu128(v.borrowed_sf) / &sf - model::qu128(v.fees_sf) / &sf;
            ratio(l, v.collateral_supply, v.decimals, 6, &u)
        }
        OracleSetup::DriftPythPull | OracleSetup::DriftSwitchboardPull => {
            if acc.owner != crate::rt::drift_id() {
                return Err(OracleBad::WrongOwner);
            }
            let v = crate::venues::parse_drift_market(&acc.data).ok_or(OracleBad::BadData)?;
            if (v.last_interest_ts as i64) < clock.unix_timestamp {
                return Err(OracleBad::Stale);
            }
            Ok(VenueRate {
                rate: Some(model::qu128(v.cumulative_deposit_interest) / pow10(10)),
                d_r: Q::zero(),
                integer_only: true,
            })
        }
        _ => Err(OracleBad::Unsupported),
    }
}

/// total liquidity `l` (native units, exact) over `c` collateral units, both first scaled by
/// 10^-decimals and truncated to 48 fractional bits as the program does; `k` = number of ulps
/// the program's total may be off before scaling.
fn ratio(l: Q, c: u64, decimals: u8, k: i128, u: &Q) -> Result<VenueRate, OracleBad> {
    if decimals > 23 {
        return Err(OracleBad::BadData);
    }
    if l < qi(0) {
        return Err(OracleBad::BadData);
    }
    let cs = qu(c) / pow10(decimals as u32);
    if cs < *u {
        // nothing outstanding (or less than one ulp after scaling): used unadjusted
        return Ok(VenueRate { rate: None, d_r: Q::zero(), integer_only: false });
    }
    let r = &l / qu(c);
    let denom = &cs - u;
    let d_r = if denom <= Q::zero() { r.clone() + qi(1) } else { u.clone() + (u * qi(k) + &r * u) / denom };
    Ok(VenueRate { rate: Some(r), d_r, integer_only: false })
}

/// Decimals in which a bank's share amounts are denominated (Drift positions are kept in
/// Drift's 9-decimal scaled balance whatever the mint's decimals).
pub fn balance_decimals(bank: &Bank) -> u8 {
    if bank.config.asset_tag == marginfi_type_crate::constants::ASSET_TAG_DRIFT {
        9
    } else {
        bank.mint_decimals
    }
}

pub fn max_conf_fraction(bank: &Bank) -> Q {
    if bank.config.oracle_max_confidence == 0 {
        // default 10 % (the program uses 429_496_730 / u32::MAX)
        qu(429_496_730) / qu(u32::MAX as u64)
    } else {
        qu(bank.config.oracle_max_confidence as u64) / qu(u32::MAX as u64)
    }
}

#[derive(Clone, Debug, PartialEq, Eq)]
pub enum PriceErr {
    Oracle(OracleBad),
    ConfidenceTooWide,
}

/// (low, high, unbiased) for the requested price kind, or why the price may not be used.
pub fn biased(view: &OracleView, bank: &Bank, ema: bool) -> Result<(Q, Q, Q), PriceErr> {
    let pp = if ema { &view.ema } else { &view.spot };
    let max_conf = &pp.price * max_conf_fraction(bank);
    // The program compares two truncated fixed-point quantities; within the truncation band
    // around the exact threshold either verdict is legitimate, so Ref only calls a price
    // "too wide" when it is so beyond that band (no claim inside it).
    let band = (pp.conf_raw.abs() + pp.price.abs() + qi(4)) * ulp() * qi(4) + &view.adj_err * (qi(1) + max_conf_fraction(bank));
    if pp.conf > &max_conf + &band {
        return Err(PriceErr::ConfidenceTooWide);
    }
    let cap = &pp.price * qr(5, 100);
    let b = model::q_min(pp.conf.clone(), cap);
    Ok((&pp.price - &b, &pp.price + &b, pp.price.clone()))
}

/// Bound on |program's biased price - exact biased price| (fixed-point truncation and the
/// 48-bit approximation of the constants 2.12 / 1.96 / 0.05), derived by error propagation:
/// raw price and raw confidence carry one ulp each (division by 10^expo); scaling the confidence
/// by an approximated constant adds conf_raw*ulp + const*ulp + ulp; the 5 % cap adds
/// price*ulp + 2 ulp; the bias is min(scaled conf, cap).
pub fn biased_price_err(view: &OracleView, ema: bool) -> Q {
    let pp = if ema { &view.ema } else { &view.spot };
    let u = ulp();
    let d_conf = (pp.conf_raw.abs() + qi(4)) * &u;
    let d_cap = (pp.price.abs() + qi(2)) * &u;
    let cap = &pp.price * qr(5, 100);
    let band = &d_conf + &d_cap;
    let d_bias = if pp.conf < &cap - &band {
        d_conf
    } else if pp.conf > &cap + &band {
        d_cap
    } else {
        model::q_max(d_conf, d_cap)
    };
    d_bias + &u * qi(2) + &view.adj_err * qi(2)
}

#[derive(Clone, Debug)]
pub struct PosEval {
    pub bank: Pubkey,
    pub is_liab: bool,
    pub amount: Q,
    pub value: Q,
    pub price_used: Q,
    pub weight: Q,
    /// asset valued zero because its oracle is unusable (Init only)
    pub zeroed_bad_oracle: bool,
}

#[derive(Clone, Debug)]
pub struct Health {
    pub assets: Q,
    pub liabs: Q,
    pub positions: Vec<PosEval>,
    /// absolute error bound of (assets - liabs) vs. the program's fixed-point evaluation
    pub err: Q,
    /// number of liability positions / isolated liability positions
    pub n_liabs: usize,
    pub n_isolated_liabs: usize,
    /// some asset position was valued 0 because of a bad oracle
    pub any_zeroed: bool,
    /// some collateral's venue-adjusted price is inside the reference's error band around the
    /// mantissa limit: the program may rightly have zero-valued it (overflow reported)
    pub any_uncertain: bool,
}

impl Health {
    pub fn net(&self) -> Q {
        &self.assets - &self.liabs
    }
}

#[derive(Clone, Debug, PartialEq, Eq)]
pub enum HealthErr {
    /// a price that is required (liability, or any price for maint/equity) is unusable
    PriceUnusable(Pubkey, PriceErr),
    BankMissing(Pubkey),
}

/// Reconciled e-mode table over all banks where the account has a liability (>= 1 share):
/// intersection of tags, entry-wise minimum.
pub fn reconciled_emode(
    store: &Store,
    acc: &MarginfiAccount,
) -> BTreeMap<u16, (Q, Q)> {
    let mut tables: Vec<BTreeMap<u16, (Q, Q)>> = Vec::new();
    for b in acc.lending_account.balances.iter().filter(|b| b.active != 0) {
        if q_w(b.liability_shares) < qi(1) {
            continue;
        }
        let mut t = BTreeMap::new();
        if let Some(bank) = model::bank_of(store, &b.bank_pk) {
            for e in bank.emode.emode_config.entries.iter() {
                if e.collateral_bank_emode_tag == 0 {
                    continue;
                }
                t.entry(e.collateral_bank_emode_tag)
                    .or_insert((q_w(e.asset_weight_init), q_w(e.asset_weight_maint)));
            }
        }
        tables.push(t);
    }
    let Some(first) = tables.first().cloned() else {
        return BTreeMap::new();
    };
    let mut out = BTreeMap::new();
    'tag: for (tag, (mut wi, mut wm)) in first {
        for t in tables.iter().skip(1) {
            match t.get(&tag) {
                None => continue 'tag,
                Some((i, m)) => {
                    wi = model::q_min(wi, i.clone());
                    wm = model::q_min(wm, m.clone());
                }
            }
        }
        out.insert(tag, (wi, wm));
    }
    out
}

/// Independent health evaluation.  `ignore_conf_gate`: evaluate as if no confidence limit
/// existed (used to classify outcomes, never to justify an acceptance).
pub fn health(store: &Store, acc: &MarginfiAccount, req: Req, clock: SimClock) -> Result<Health, HealthErr> {
    let emode = reconciled_emode(store, acc);
    let mut h = Health {
        assets: Q::zero(),
        liabs: Q::zero(),
        positions: vec![],
        err: Q::zero(),
        n_liabs: 0,
        n_isolated_liabs: 0,
        any_zeroed: false,
        any_uncertain: false,
    };
    let u = ulp();
    for b in acc.lending_account.balances.iter().filter(|b| b.active != 0) {
        let bank = model::bank_of(store, &b.bank_pk).ok_or(HealthErr::BankMissing(b.bank_pk))?;
        let sa = q_w(b.asset_shares);
        let sl = q_w(b.liability_shares);
        let dec = pow10(balance_decimals(&bank) as u32);
        let ema = matches!(req, Req::Init | Req::Equity);
        if sl >= qi(1) {
            h.n_liabs += 1;
            if bank.config.risk_tier == RiskTier::Isolated {
                h.n_isolated_liabs += 1;
            }
            let view = read_oracle(store, &bank, clock)
                .map_err(|e| HealthErr::PriceUnusable(b.bank_pk, PriceErr::Oracle(e)))?;
            let (_, high, _) =
                biased(&view, &bank, ema).map_err(|e| HealthErr::PriceUnusable(b.bank_pk, e))?;
            let w = match req {
                Req::Init => q_w(bank.config.liability_weight_init),
                Req::Maint => q_w(bank.config.liability_weight_maint),
                Req::Equity => qi(1),
            };
            let amount = &sl * q_w(bank.liability_share_value);
            let value = &amount * &w * &high / &dec;
            // value = ((amount*w) * P) / dec with d(amount*w) <= 3u, dP from biased_price_err
            let dp = biased_price_err(&view, ema);
            h.err += ((&amount * &w) * &dp + high.abs() * &u * qi(3) + &u) / &dec + &u * qi(2);
            h.liabs += &value;
            h.positions.push(PosEval {
                bank: b.bank_pk,
                is_liab: true,
                amount,
                value,
                price_used: high,
                weight: w,
                zeroed_bad_oracle: false,
            });
        } else if sa >= qi(1) {
            let amount = &sa * q_w(bank.asset_share_value);
            let mut push_zero = |h: &mut Health, zeroed: bool| {
                h.positions.push(PosEval {
                    bank: b.bank_pk,
                    is_liab: false,
                    amount: amount.clone(),
                    value: Q::zero(),
                    price_used: Q::zero(),
                    weight: Q::zero(),
                    zeroed_bad_oracle: zeroed,
                });
            };
            if bank.config.risk_tier == RiskTier::Isolated {
                push_zero(&mut h, false);
                continue;
            }
            if req == Req::Init && bank.config.operational_state == BankOperationalState::ReduceOnly
            {
                push_zero(&mut h, false);
                continue;
            }
            let view = read_oracle(store, &bank, clock);
            if let Ok(v) = &view {
                if v.in_band {
                    h.any_uncertain = true;
                }
            }
            let priced = view
                .map_err(PriceErr::Oracle)
                .and_then(|v| biased(&v, &bank, ema).map(|b| (b.0, biased_price_err(&v, ema))));
            let (low, dp) = match priced {
                Ok(x) => x,
                Err(e) => {
                    // The program zero-values the collateral when the *feed cannot be loaded*
                    // (init only); a confidence failure surfaces later as an error.  Ref keeps
                    // both as "worth nothing for borrowing" and lets the caller decide.
                    if req == Req::Init {
                        h.any_zeroed = true;
                        push_zero(&mut h, true);
                        continue;
                    }
                    return Err(HealthErr::PriceUnusable(b.bank_pk, e));
                }
            };
            let bank_w = match req {
                Req::Init => q_w(bank.config.asset_weight_init),
                Req::Maint => q_w(bank.config.asset_weight_maint),
                Req::Equity => qi(1),
            };
            let mut w = bank_w.clone();
            let mut dw = Q::zero();
            if req != Req::Equity {
                if let Some((ei, em)) = emode.get(&bank.emode.emode_tag) {
                    if bank.emode.emode_tag != 0 {
                        let ew = if req == Req::Init { ei.clone() } else { em.clone() };
                        w = model::q_max(bank_w.clone(), ew);
                    }
                }
            }
            if req == Req::Init && bank.config.total_asset_value_init_limit != 0 {
                let total = q_w(bank.total_asset_shares) * q_w(bank.asset_share_value) * &low / &dec;
                let limit = qu(bank.config.total_asset_value_init_limit);
                if total > limit && !total.is_zero() {
                    // discount d = limit/total (truncated), weight' = w*d (truncated):
                    // d_total = (TA*dP + P*u + u)/dec + u ; d_d = limit*d_total/total^2 + u
                    let ta_amt = q_w(bank.total_asset_shares) * q_w(bank.asset_share_value);
                    let d_total = (&ta_amt * &dp + low.abs() * &u + &u) / &dec + &u;
                    let d_d = &limit * &d_total / (&total * &total) + &u;
                    dw = &w * &d_d + &u;
                    w = &w * &limit / &total;
                }
            }
            let value = &amount * &w * &low / &dec;
            // d(amount*w) <= amount*dw + 3u
            let d_aw = &amount * &dw + &u * qi(3);
            h.err += ((&amount * &w) * &dp + low.abs() * &d_aw + &u) / &dec + &u * qi(2);
            h.assets += &value;
            h.positions.push(PosEval {
                bank: b.bank_pk,
                is_liab: false,
                amount,
                value,
                price_used: low,
                weight: w,
                zeroed_bad_oracle: false,
            });
        }
    }
    // share-value products are themselves truncated
    h.err = h.err.abs() + &u * qi(16);
    Ok(h)
}

/// Dollar value of `amount` native units of `bank` at `price`.
pub fn value_of(amount: &Q, price: &Q, decimals: u8) -> Q {
    amount * price / pow10(decimals as u32)
}
