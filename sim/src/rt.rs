//! Runtime shim ("SimBank"): account store, transaction executor, syscall stubs, CPI dispatcher.
//!
//! Everything the marginfi program can observe about its environment goes through this file:
//! the accounts it is handed (serialised exactly as the BPF loader would, so `realloc`/`assign`
//! work), the Clock/Rent sysvars, the stack height, the Instructions sysvar account, and CPI into
//! the System / SPL-Token / Token-2022 programs.  Nothing here reads a wall clock, an address or a
//! hash-map order, so an execution is a pure function of (store, tx, clock, fault plan).

use anchor_lang::prelude::Pubkey;
use anchor_lang::solana_program::{
    self,
    account_info::AccountInfo,
    entrypoint::ProgramResult,
    instruction::{AccountMeta, Instruction},
    program_error::ProgramError,
    program_stubs,
    sysvar,
};
use std::cell::RefCell;
use std::collections::{BTreeMap, BTreeSet};

pub const MAX_PERMITTED_DATA_INCREASE: usize = 10_240;

pub fn system_id() -> Pubkey {
    solana_program::system_program::ID
}
pub fn spl_token_id() -> Pubkey {
    anchor_spl::token::ID
}
pub fn token22_id() -> Pubkey {
    anchor_spl::token_2022::ID
}
pub fn marginfi_id() -> Pubkey {
    marginfi::ID
}
pub fn solend_id() -> Pubkey {
    solend_mocks::ID
}
pub fn kamino_id() -> Pubkey {
    kamino_mocks::ID
}
pub fn drift_id() -> Pubkey {
    drift_mocks::ID
}
pub fn ix_sysvar_id() -> Pubkey {
    sysvar::instructions::ID
}
pub fn compute_budget_id() -> Pubkey {
    marginfi::constants::COMPUTE_PROGRAM_KEY
}

// ------------------------------------------------------------------------------------------
// Store
// ------------------------------------------------------------------------------------------

#[derive(Clone, Debug, PartialEq, Eq)]
pub struct Account {
    pub lamports: u64,
    pub data: Vec<u8>,
    pub owner: Pubkey,
    pub executable: bool,
}

impl Account {
    pub fn new(lamports: u64, data: Vec<u8>, owner: Pubkey) -> Self {
        Account {
            lamports,
            data,
            owner,
            executable: false,
        }
    }
    pub fn system(lamports: u64) -> Self {
        Account::new(lamports, vec![], system_id())
    }
    pub fn program() -> Self {
        Account {
            lamports: 1,
            data: vec![],
            owner: solana_program::bpf_loader::ID,
            executable: true,
        }
    }
}

#[derive(Clone, Debug, Default, PartialEq, Eq)]
pub struct Store {
    pub accounts: BTreeMap<Pubkey, Account>,
}

impl Store {
    pub fn get(&self, k: &Pubkey) -> Option<&Account> {
        self.accounts.get(k)
    }
    pub fn get_mut(&mut self, k: &Pubkey) -> Option<&mut Account> {
        self.accounts.get_mut(k)
    }
    pub fn put(&mut self, k: Pubkey, a: Account) {
        self.accounts.insert(k, a);
    }
    pub fn data(&self, k: &Pubkey) -> Option<&[u8]> {
        self.accounts.get(k).map(|a| a.data.as_slice())
    }
    pub fn total_lamports(&self) -> u128 {
        self.accounts.values().map(|a| a.lamports as u128).sum()
    }
    /// FNV-1a digest of the whole store (determinism proof, replay equality).
    pub fn digest(&self) -> u64 {
        let mut h: u64 = 0xcbf29ce484222325;
        let mut eat = |b: &[u8]| {
            for x in b {
                h ^= *x as u64;
                h = h.wrapping_mul(0x100000001b3);
            }
        };
        for (k, a) in &self.accounts {
            eat(k.as_ref());
            eat(&a.lamports.to_le_bytes());
            eat(a.owner.as_ref());
            eat(&(a.data.len() as u64).to_le_bytes());
            eat(&a.data);
        }
        h
    }
}

// ------------------------------------------------------------------------------------------
// Transactions
// ------------------------------------------------------------------------------------------

#[derive(Clone, Debug, PartialEq, Eq)]
pub struct Ix {
    pub program_id: Pubkey,
    pub accounts: Vec<AccountMeta>,
    pub data: Vec<u8>,
    /// Execute this (marginfi) instruction as if a wrapper program at top level had CPI'd into
    /// it: stack height 2 and the top-level instruction in the sysvar belongs to `wrapper`.
    pub wrapper: Option<Pubkey>,
    /// Harness-only label (instruction kind) used by monitors and reports.
    pub tag: &'static str,
}

impl Ix {
    pub fn new(tag: &'static str, accounts: Vec<AccountMeta>, data: Vec<u8>) -> Self {
        Ix {
            program_id: marginfi_id(),
            accounts,
            data,
            wrapper: None,
            tag,
        }
    }
    pub fn foreign(tag: &'static str, program_id: Pubkey, data: Vec<u8>) -> Self {
        Ix {
            program_id,
            accounts: vec![],
            data,
            wrapper: None,
            tag,
        }
    }
}

#[derive(Clone, Debug, Default, PartialEq, Eq)]
pub struct Tx {
    pub ixs: Vec<Ix>,
    /// Fault plan: fail the n-th CPI (0-based, counted over the whole transaction).
    pub fail_cpi_at: Option<u32>,
    /// Who submitted it (harness label only).
    pub actor: &'static str,
}

impl Tx {
    pub fn one(actor: &'static str, ix: Ix) -> Self {
        Tx {
            ixs: vec![ix],
            fail_cpi_at: None,
            actor,
        }
    }
    pub fn many(actor: &'static str, ixs: Vec<Ix>) -> Self {
        Tx {
            ixs,
            fail_cpi_at: None,
            actor,
        }
    }
}

#[derive(Clone, Debug, PartialEq, Eq)]
pub enum ErrSource {
    /// `marginfi::entry` returned an error (constraint or handler)
    Program,
    /// the program panicked (abort on chain)
    Panic,
    /// the shim's own post-instruction / privilege rules rejected it
    Runtime,
    /// injected CPI failure
    Injected,
    /// stub foreign program configured to fail
    Foreign,
}

#[derive(Clone, Debug, PartialEq, Eq)]
pub struct TxError {
    pub ix_index: usize,
    pub code: u32,
    pub source: ErrSource,
    pub msg: String,
}

#[derive(Clone, Debug)]
pub struct CpiRecord {
    pub ix_index: usize,
    pub program_id: Pubkey,
    pub data: Vec<u8>,
    pub accounts: Vec<Pubkey>,
    pub ok: bool,
}

#[derive(Clone, Debug)]
pub struct TxOutcome {
    pub result: Result<(), TxError>,
    /// store snapshots after each instruction (only when requested), for in-transaction monitors
    pub mid_states: Vec<Store>,
    pub cpis: Vec<CpiRecord>,
    /// when an instruction failed: the state *as the failing instruction left it* (account
    /// buffers read back as-is).  Never committed; lets monitors see what a rejected health
    /// check was looking at.
    pub failed_state: Option<Store>,
}

impl TxOutcome {
    pub fn ok(&self) -> bool {
        self.result.is_ok()
    }
    pub fn code(&self) -> Option<u32> {
        self.result.as_ref().err().map(|e| e.code)
    }
}

#[derive(Clone, Copy, Debug, PartialEq, Eq)]
pub struct SimClock {
    pub unix_timestamp: i64,
    pub slot: u64,
    pub epoch: u64,
}

// ------------------------------------------------------------------------------------------
// Thread-local execution context used by the (process-global) syscall stubs
// ------------------------------------------------------------------------------------------

struct ExecCtx {
    clock: SimClock,
    stack_height: u64,
    caller_program: Pubkey,
    cpi_counter: u32,
    fail_cpi_at: Option<u32>,
    cur_ix_index: usize,
    cpis: Vec<CpiRecord>,
    /// accounts handed writable to a CPI of the program that owns them
    cpi_touched: BTreeSet<Pubkey>,
    /// token accounts moved by the token program on behalf of a venue stub (nested CPI)
    nested_touched: BTreeSet<Pubkey>,
    runtime_violation: Option<String>,
    injected_fired: bool,
}

thread_local! {
    static CTX: RefCell<Option<ExecCtx>> = RefCell::new(None);
}

fn with_ctx<R>(f: impl FnOnce(&mut ExecCtx) -> R) -> R {
    CTX.with(|c| {
        let mut b = c.borrow_mut();
        f(b.as_mut().expect("no exec ctx"))
    })
}

struct Stubs;

pub const ERR_INJECTED: u32 = 0xDEAD_0001;
pub const ERR_PRIVILEGE: u32 = 0xDEAD_0002;
pub const ERR_RUNTIME: u32 = 0xDEAD_0003;
pub const ERR_UNKNOWN_PROGRAM: u32 = 0xDEAD_0004;
pub const ERR_PANIC: u32 = 0xDEAD_0005;
pub const ERR_FOREIGN_FAIL: u32 = 0xDEAD_0006;
pub const ERR_MISSING_ACCOUNT: u32 = 0xDEAD_0007;

impl program_stubs::SyscallStubs for Stubs {
    fn sol_log(&self, _message: &str) {}
    fn sol_log_compute_units(&self) {}
    fn sol_log_data(&self, _fields: &[&[u8]]) {}
    fn sol_set_return_data(&self, _data: &[u8]) {}
    fn sol_get_return_data(&self) -> Option<(Pubkey, Vec<u8>)> {
        None
    }
    fn sol_remaining_compute_units(&self) -> u64 {
        1_400_000
    }
    fn sol_get_stack_height(&self) -> u64 {
        with_ctx(|c| c.stack_height)
    }
    fn sol_get_clock_sysvar(&self, var_addr: *mut u8) -> u64 {
        let ck = with_ctx(|c| c.clock);
        let clock = solana_program::clock::Clock {
            slot: ck.slot,
            epoch_start_timestamp: 0,
            epoch: ck.epoch,
            leader_schedule_epoch: ck.epoch + 1,
            unix_timestamp: ck.unix_timestamp,
        };
        unsafe {
            std::ptr::write_unaligned(var_addr as *mut solana_program::clock::Clock, clock);
        }
        solana_program::entrypoint::SUCCESS
    }
    fn sol_get_rent_sysvar(&self, var_addr: *mut u8) -> u64 {
        let rent = solana_program::rent::Rent::default();
        unsafe {
            std::ptr::write_unaligned(var_addr as *mut solana_program::rent::Rent, rent);
        }
        solana_program::entrypoint::SUCCESS
    }
    fn sol_invoke_signed(
        &self,
        instruction: &Instruction,
        account_infos: &[AccountInfo],
        signers_seeds: &[&[&[u8]]],
    ) -> ProgramResult {
        cpi_dispatch(instruction, account_infos, signers_seeds)
    }
}

pub fn install_stubs() {
    use std::sync::Once;
    static ONCE: Once = Once::new();
    ONCE.call_once(|| {
        program_stubs::set_syscall_stubs(Box::new(Stubs));
        // program panics are instruction failures; keep stderr quiet
        std::panic::set_hook(Box::new(|_| {}));
    });
}

fn cpi_dispatch(
    instruction: &Instruction,
    account_infos: &[AccountInfo],
    signers_seeds: &[&[&[u8]]],
) -> ProgramResult {
    let (caller, n, fail_at, ix_index) = with_ctx(|c| {
        let n = c.cpi_counter;
        c.cpi_counter += 1;
        (c.caller_program, n, c.fail_cpi_at, c.cur_ix_index)
    });

    let record = |ok: bool| {
        with_ctx(|c| {
            c.cpis.push(CpiRecord {
                ix_index,
                program_id: instruction.program_id,
                data: instruction.data.clone(),
                accounts: instruction.accounts.iter().map(|m| m.pubkey).collect(),
                ok,
            })
        })
    };

    if fail_at == Some(n) {
        with_ctx(|c| c.injected_fired = true);
        record(false);
        return Err(ProgramError::Custom(ERR_INJECTED));
    }

    // PDA signers granted by the caller
    let mut pda_signers: Vec<Pubkey> = Vec::new();
    for seeds in signers_seeds {
        match Pubkey::create_program_address(seeds, &caller) {
            Ok(k) => pda_signers.push(k),
            Err(_) => {
                record(false);
                return Err(ProgramError::InvalidSeeds);
            }
        }
    }

    // Build callee account infos with the runtime's privilege rules
    let mut callee_infos: Vec<AccountInfo> = Vec::with_capacity(instruction.accounts.len());
    for meta in &instruction.accounts {
        let Some(ai) = account_infos.iter().find(|ai| *ai.key == meta.pubkey) else {
            record(false);
            return Err(ProgramError::NotEnoughAccountKeys);
        };
        let caller_signer = ai.is_signer || pda_signers.contains(ai.key);
        if meta.is_signer && !caller_signer {
            record(false);
            return Err(ProgramError::Custom(ERR_PRIVILEGE));
        }
        if meta.is_writable && !ai.is_writable {
            record(false);
            return Err(ProgramError::Custom(ERR_PRIVILEGE));
        }
        let mut n = ai.clone();
        n.is_signer = meta.is_signer;
        n.is_writable = meta.is_writable;
        callee_infos.push(n);
    }

    // Snapshot for the callee's post-invocation rules
    let pre: Vec<(Pubkey, u64, Pubkey, Vec<u8>, bool)> = callee_infos
        .iter()
        .map(|ai| {
            (
                *ai.key,
                ai.lamports(),
                *ai.owner,
                ai.data.borrow().to_vec(),
                ai.is_writable,
            )
        })
        .collect();

    let pid = instruction.program_id;
    let res: ProgramResult = if pid == system_id() {
        system_program_stub(&callee_infos, &instruction.data)
    } else if pid == spl_token_id() {
        with_ctx(|c| {
            c.stack_height += 1;
        });
        let r = spl_token::processor::Processor::process(&pid, &callee_infos, &instruction.data);
        with_ctx(|c| {
            c.stack_height -= 1;
        });
        r
    } else if pid == token22_id() {
        with_ctx(|c| {
            c.stack_height += 1;
            c.caller_program = pid;
        });
        let r = anchor_spl::token_2022::spl_token_2022::processor::Processor::process(
            &pid,
            &callee_infos,
            &instruction.data,
        );
        with_ctx(|c| {
            c.stack_height -= 1;
            c.caller_program = caller;
        });
        r
    } else if crate::venues::is_venue(&pid) {
        with_ctx(|c| {
            c.stack_height += 1;
            c.caller_program = pid;
        });
        let r = crate::venues::dispatch(&pid, &callee_infos, &instruction.data);
        with_ctx(|c| {
            c.stack_height -= 1;
            c.caller_program = caller;
        });
        r
    } else {
        Err(ProgramError::Custom(ERR_UNKNOWN_PROGRAM))
    };

    if res.is_ok() {
        // callee post-conditions: it may only change data of accounts it owns (and were writable),
        // may only debit lamports of accounts it owns.
        let mut seen: BTreeSet<Pubkey> = BTreeSet::new();
        for (i, ai) in callee_infos.iter().enumerate() {
            if !seen.insert(*ai.key) {
                continue;
            }
            let (k, l0, o0, d0, w) = &pre[i];
            let changed_data = ai.data.borrow().as_ref() != d0.as_slice();
            let changed_owner = ai.owner != o0;
            let l1 = ai.lamports();
            let mut bad: Option<&'static str> = None;
            if !*w && (changed_data || changed_owner || l1 != *l0) {
                bad = Some("callee modified read-only account");
            }
            let nested = with_ctx(|c| c.nested_touched.contains(k));
            if pid != system_id() && !nested {
                if (changed_data || changed_owner) && *o0 != pid {
                    bad = Some("callee modified data of account it does not own");
                }
                if l1 < *l0 && *o0 != pid {
                    bad = Some("callee debited account it does not own");
                }
            }
            if let Some(b) = bad {
                with_ctx(|c| c.runtime_violation = Some(format!("{b}: {k}")));
                record(false);
                return Err(ProgramError::Custom(ERR_RUNTIME));
            }
            if *w && (*o0 == pid || pid == system_id()) {
                with_ctx(|c| {
                    c.cpi_touched.insert(*k);
                });
            }
        }
    }
    record(res.is_ok());
    res
}

/// Token movement on behalf of a venue stub: the real SPL-Token processor, called with the
/// authority the stub vouches for (a signer it was handed, or the venue's own PDA).  The touched
/// token accounts are remembered so that the post-invocation rule "a callee may only change data
/// of accounts it owns" is applied to the venue program itself, not to what the token program did
/// on its behalf.
pub fn stub_token_transfer<'a>(source: &AccountInfo<'a>, dest: &AccountInfo<'a>, authority: &AccountInfo<'a>, amount: u64) -> ProgramResult {
    if *source.owner != spl_token_id() || *dest.owner != spl_token_id() {
        return Err(ProgramError::IncorrectProgramId);
    }
    let ix = spl_token::instruction::transfer(&spl_token_id(), source.key, dest.key, authority.key, &[], amount)?;
    let mut s = source.clone();
    s.is_writable = true;
    let mut d = dest.clone();
    d.is_writable = true;
    let r = spl_token::processor::Processor::process(&spl_token_id(), &[s, d, authority.clone()], &ix.data);
    if r.is_ok() {
        with_ctx(|c| {
            c.nested_touched.insert(*source.key);
            c.nested_touched.insert(*dest.key);
            c.cpi_touched.insert(*source.key);
            c.cpi_touched.insert(*dest.key);
        });
    }
    r
}

/// The clock as a venue stub sees it.
pub fn stub_clock() -> SimClock {
    with_ctx(|c| c.clock)
}

fn system_program_stub(accounts: &[AccountInfo], data: &[u8]) -> ProgramResult {
    use solana_program::system_instruction::SystemInstruction;
    let ix: SystemInstruction =
        bincode::deserialize(data).map_err(|_| ProgramError::InvalidInstructionData)?;
    match ix {
        SystemInstruction::CreateAccount {
            lamports,
            space,
            owner,
        } => {
            let from = &accounts[0];
            let to = &accounts[1];
            if !from.is_signer || !to.is_signer {
                return Err(ProgramError::MissingRequiredSignature);
            }
            if to.lamports() != 0 || !to.data_is_empty() || *to.owner != system_id() {
                return Err(ProgramError::Custom(0)); // AccountAlreadyInUse
            }
            if *from.owner != system_id() || !from.data_is_empty() {
                return Err(ProgramError::InvalidArgument);
            }
            if from.lamports() < lamports {
                return Err(ProgramError::Custom(1)); // ResultWithNegativeLamports
            }
            if space as usize > MAX_PERMITTED_DATA_INCREASE {
                return Err(ProgramError::InvalidRealloc);
            }
            **from.try_borrow_mut_lamports()? -= lamports;
            **to.try_borrow_mut_lamports()? += lamports;
            to.realloc(space as usize, true)?;
            to.assign(&owner);
            Ok(())
        }
        SystemInstruction::Transfer { lamports } => {
            let from = &accounts[0];
            let to = &accounts[1];
            if !from.is_signer {
                return Err(ProgramError::MissingRequiredSignature);
            }
            if *from.owner != system_id() || !from.data_is_empty() {
                return Err(ProgramError::InvalidArgument);
            }
            if from.lamports() < lamports {
                return Err(ProgramError::Custom(1));
            }
            if from.key == to.key {
                return Ok(());
            }
            **from.try_borrow_mut_lamports()? -= lamports;
            **to.try_borrow_mut_lamports()? += lamports;
            Ok(())
        }
        SystemInstruction::Allocate { space } => {
            let a = &accounts[0];
            if !a.is_signer {
                return Err(ProgramError::MissingRequiredSignature);
            }
            if !a.data_is_empty() || *a.owner != system_id() {
                return Err(ProgramError::Custom(0));
            }
            if space as usize > MAX_PERMITTED_DATA_INCREASE {
                return Err(ProgramError::InvalidRealloc);
            }
            a.realloc(space as usize, true)?;
            Ok(())
        }
        SystemInstruction::Assign { owner } => {
            let a = &accounts[0];
            if !a.is_signer {
                return Err(ProgramError::MissingRequiredSignature);
            }
            if *a.owner != system_id() {
                return Err(ProgramError::Custom(0));
            }
            a.assign(&owner);
            Ok(())
        }
        _ => Err(ProgramError::InvalidInstructionData),
    }
}

// ------------------------------------------------------------------------------------------
// Input buffer (BPF loader aligned layout)
// ------------------------------------------------------------------------------------------

struct Slot {
    key: Pubkey,
    /// offset of `lamports` in the buffer (owner = off-32, data_len = off+8, data = off+16)
    lamports_off: usize,
    orig_len: usize,
}

struct InputBuffer {
    buf: Vec<u64>,
    slots: Vec<Slot>,
}

fn serialize_input(
    metas: &[(Pubkey, bool, bool)],
    work: &BTreeMap<Pubkey, Account>,
    data: &[u8],
    program_id: &Pubkey,
) -> InputBuffer {
    let mut v: Vec<u8> = Vec::with_capacity(64 * 1024);
    let mut slots: Vec<Slot> = Vec::new();
    let mut first_index: BTreeMap<Pubkey, usize> = BTreeMap::new();
    v.extend_from_slice(&(metas.len() as u64).to_le_bytes());
    for (i, (key, signer, writable)) in metas.iter().enumerate() {
        if let Some(j) = first_index.get(key) {
            v.push(*j as u8);
            v.extend_from_slice(&[0u8; 7]);
            continue;
        }
        first_index.insert(*key, i);
        let default_acc = Account::system(0);
        let acc = work.get(key).unwrap_or(&default_acc);
        v.push(0xFF);
        v.push(*signer as u8);
        v.push(*writable as u8);
        v.push(acc.executable as u8);
        v.extend_from_slice(&[0u8; 4]);
        v.extend_from_slice(key.as_ref());
        v.extend_from_slice(acc.owner.as_ref());
        let lamports_off = v.len();
        v.extend_from_slice(&acc.lamports.to_le_bytes());
        v.extend_from_slice(&(acc.data.len() as u64).to_le_bytes());
        v.extend_from_slice(&acc.data);
        v.extend(std::iter::repeat(0u8).take(MAX_PERMITTED_DATA_INCREASE));
        while v.len() % 8 != 0 {
            v.push(0);
        }
        v.extend_from_slice(&0u64.to_le_bytes()); // rent epoch
        slots.push(Slot {
            key: *key,
            lamports_off,
            orig_len: acc.data.len(),
        });
    }
    v.extend_from_slice(&(data.len() as u64).to_le_bytes());
    v.extend_from_slice(data);
    v.extend_from_slice(program_id.as_ref());
    while v.len() % 8 != 0 {
        v.push(0);
    }
    let mut buf = vec![0u64; v.len() / 8];
    unsafe {
        std::ptr::copy_nonoverlapping(v.as_ptr(), buf.as_mut_ptr() as *mut u8, v.len());
    }
    InputBuffer { buf, slots }
}

impl InputBuffer {
    fn bytes(&self) -> &[u8] {
        unsafe { std::slice::from_raw_parts(self.buf.as_ptr() as *const u8, self.buf.len() * 8) }
    }
    fn read_back(&self, slot: &Slot) -> Result<(u64, Pubkey, Vec<u8>), String> {
        let b = self.bytes();
        let o = slot.lamports_off;
        let lamports = u64::from_le_bytes(b[o..o + 8].try_into().unwrap());
        let owner = Pubkey::new_from_array(b[o - 32..o].try_into().unwrap());
        let len = u64::from_le_bytes(b[o + 8..o + 16].try_into().unwrap()) as usize;
        if len > slot.orig_len + MAX_PERMITTED_DATA_INCREASE {
            return Err(format!("invalid realloc of {}", slot.key));
        }
        let data = b[o + 16..o + 16 + len].to_vec();
        Ok((lamports, owner, data))
    }
}

// ------------------------------------------------------------------------------------------
// Executor
// ------------------------------------------------------------------------------------------

/// Stub foreign programs: (program id -> succeeds?)  Anything not listed (and not a known
/// program) fails with ERR_UNKNOWN_PROGRAM.
#[derive(Clone, Debug, Default)]
pub struct ForeignPrograms {
    pub ok: BTreeSet<Pubkey>,
    pub failing: BTreeSet<Pubkey>,
}

pub struct Executor {
    pub foreign: ForeignPrograms,
    pub record_mid_states: bool,
}

impl Default for Executor {
    fn default() -> Self {
        Executor {
            foreign: ForeignPrograms::default(),
            record_mid_states: true,
        }
    }
}

fn build_ix_sysvar_data(tx: &Tx, tx_privs: &BTreeMap<Pubkey, (bool, bool)>, cur: u16) -> Vec<u8> {
    use solana_program::sysvar::instructions::{
        construct_instructions_data, BorrowedAccountMeta, BorrowedInstruction,
    };
    // top-level view: a wrapped instruction shows up as the wrapper's instruction
    let keys: Vec<(Pubkey, Vec<(Pubkey, bool, bool)>, Vec<u8>)> = tx
        .ixs
        .iter()
        .map(|ix| {
            let pid = ix.wrapper.unwrap_or(ix.program_id);
            let metas = ix
                .accounts
                .iter()
                .map(|m| {
                    let (s, w) = tx_privs.get(&m.pubkey).copied().unwrap_or((false, false));
                    (m.pubkey, s, w)
                })
                .collect();
            let data = if ix.wrapper.is_some() {
                // the wrapper's own instruction data is opaque; 8 bytes so anchor-style parsing works
                vec![0xAB; 8]
            } else {
                ix.data.clone()
            };
            (pid, metas, data)
        })
        .collect();
    let borrowed: Vec<BorrowedInstruction> = keys
        .iter()
        .map(|(pid, metas, data)| BorrowedInstruction {
            program_id: pid,
            accounts: metas
                .iter()
                .map(|(k, s, w)| BorrowedAccountMeta {
                    pubkey: k,
                    is_signer: *s,
                    is_writable: *w,
                })
                .collect(),
            data,
        })
        .collect();
    let mut d = construct_instructions_data(&borrowed);
    let n = d.len();
    d[n - 2..].copy_from_slice(&cur.to_le_bytes());
    d
}

impl Executor {
    /// Execute a transaction atomically against `store`.  Returns the outcome and, on success,
    /// the post-state (the input store is never modified).
    pub fn execute(&self, store: &Store, clock: SimClock, tx: &Tx) -> (TxOutcome, Option<Store>) {
        install_stubs();
        // transaction-wide privileges: union over all instructions
        let mut privs: BTreeMap<Pubkey, (bool, bool)> = BTreeMap::new();
        for ix in &tx.ixs {
            for m in &ix.accounts {
                let e = privs.entry(m.pubkey).or_insert((false, false));
                e.0 |= m.is_signer;
                e.1 |= m.is_writable;
            }
        }
        // programs are never writable
        for ix in &tx.ixs {
            if let Some(e) = privs.get_mut(&ix.program_id) {
                e.1 = false;
            }
        }

        let mut work: BTreeMap<Pubkey, Account> = store.accounts.clone();
        let lamports_before: u128 = store.total_lamports();
        let mut mid_states = Vec::new();
        let mut all_cpis: Vec<CpiRecord> = Vec::new();
        let mut cpi_counter: u32 = 0;

        for (idx, ix) in tx.ixs.iter().enumerate() {
            let r = self.execute_ix(
                &mut work,
                clock,
                tx,
                idx,
                ix,
                &privs,
                &mut cpi_counter,
                &mut all_cpis,
            );
            if let Err((e, failed)) = r {
                return (
                    TxOutcome {
                        result: Err(e),
                        mid_states,
                        cpis: all_cpis,
                        failed_state: failed.map(|accounts| Store { accounts }),
                    },
                    None,
                );
            }
            if self.record_mid_states {
                mid_states.push(Store {
                    accounts: work.clone(),
                });
            }
        }
        // commit: drop zero-lamport accounts (the runtime garbage-collects them)
        work.retain(|_, a| a.lamports > 0 || a.executable);
        let after = Store { accounts: work };
        if after.total_lamports() != lamports_before {
            return (
                TxOutcome {
                    result: Err(TxError {
                        ix_index: tx.ixs.len(),
                        code: ERR_RUNTIME,
                        source: ErrSource::Runtime,
                        msg: "lamports not conserved".into(),
                    }),
                    mid_states,
                    cpis: all_cpis,
                    failed_state: None,
                },
                None,
            );
        }
        (
            TxOutcome {
                result: Ok(()),
                mid_states,
                cpis: all_cpis,
                failed_state: None,
            },
            Some(after),
        )
    }

    #[allow(clippy::too_many_arguments)]
    fn execute_ix(
        &self,
        work: &mut BTreeMap<Pubkey, Account>,
        clock: SimClock,
        tx: &Tx,
        idx: usize,
        ix: &Ix,
        privs: &BTreeMap<Pubkey, (bool, bool)>,
        cpi_counter: &mut u32,
        all_cpis: &mut Vec<CpiRecord>,
    ) -> Result<(), (TxError, Option<BTreeMap<Pubkey, Account>>)> {
        self.execute_ix_inner(work, clock, tx, idx, ix, privs, cpi_counter, all_cpis)
    }

    #[allow(clippy::too_many_arguments)]
    fn execute_ix_inner(
        &self,
        work: &mut BTreeMap<Pubkey, Account>,
        clock: SimClock,
        tx: &Tx,
        idx: usize,
        ix: &Ix,
        privs: &BTreeMap<Pubkey, (bool, bool)>,
        cpi_counter: &mut u32,
        all_cpis: &mut Vec<CpiRecord>,
    ) -> Result<(), (TxError, Option<BTreeMap<Pubkey, Account>>)> {
        let mk_err = |code: u32, source: ErrSource, msg: String| TxError {
            ix_index: idx,
            code,
            source,
            msg,
        };
        if ix.program_id != marginfi_id() {
            // foreign top-level program: compute budget and configured stubs succeed as no-ops
            if ix.program_id == compute_budget_id() || self.foreign.ok.contains(&ix.program_id) {
                return Ok(());
            }
            if self.foreign.failing.contains(&ix.program_id) {
                return Err((
                    mk_err(
                        ERR_FOREIGN_FAIL,
                        ErrSource::Foreign,
                        "foreign program failed".into(),
                    ),
                    None,
                ));
            }
            return Err((
                mk_err(
                    ERR_UNKNOWN_PROGRAM,
                    ErrSource::Foreign,
                    format!("unknown program {}", ix.program_id),
                ),
                None,
            ));
        }

        // materialise the instructions sysvar for this instruction
        let ixs_key = ix_sysvar_id();
        if ix.accounts.iter().any(|m| m.pubkey == ixs_key) {
            work.insert(
                ixs_key,
                Account {
                    lamports: 0,
                    data: build_ix_sysvar_data(tx, privs, idx as u16),
                    owner: sysvar::ID,
                    executable: false,
                },
            );
        }

        let metas: Vec<(Pubkey, bool, bool)> = ix
            .accounts
            .iter()
            .map(|m| {
                let (s, w) = privs.get(&m.pubkey).copied().unwrap_or((false, false));
                // inside a wrapper CPI the wrapper decides the flags it forwards; we forward the
                // instruction's own flags (a wrapper cannot escalate beyond the tx privileges)
                if ix.wrapper.is_some() {
                    (m.pubkey, m.is_signer && s, m.is_writable && w)
                } else {
                    (m.pubkey, s, w)
                }
            })
            .collect();

        let mut input = serialize_input(&metas, work, &ix.data, &ix.program_id);

        CTX.with(|c| {
            *c.borrow_mut() = Some(ExecCtx {
                clock,
                stack_height: if ix.wrapper.is_some() { 2 } else { 1 },
                caller_program: marginfi_id(),
                cpi_counter: *cpi_counter,
                fail_cpi_at: tx.fail_cpi_at,
                cur_ix_index: idx,
                cpis: Vec::new(),
                cpi_touched: BTreeSet::new(),
                nested_touched: BTreeSet::new(),
                runtime_violation: None,
                injected_fired: false,
            })
        });

        let ptr = input.buf.as_mut_ptr() as *mut u8;
        let result = std::panic::catch_unwind(std::panic::AssertUnwindSafe(|| unsafe {
            let (program_id, accounts, data) = solana_program::entrypoint::deserialize(ptr);
            // `entry` wants `&'info [AccountInfo<'info>]`; the slice does not escape the call
            let slice: &'static [AccountInfo<'static>] =
                std::mem::transmute::<&[AccountInfo], &'static [AccountInfo<'static>]>(&accounts[..]);
            let r = marginfi::entry(program_id, slice, data);
            drop(accounts);
            r
        }));

        let ctx = CTX.with(|c| c.borrow_mut().take()).unwrap();
        *cpi_counter = ctx.cpi_counter;
        all_cpis.extend(ctx.cpis);

        match result {
            Err(p) => {
                let msg = if let Some(s) = p.downcast_ref::<&str>() {
                    s.to_string()
                } else if let Some(s) = p.downcast_ref::<String>() {
                    s.clone()
                } else {
                    "panic".to_string()
                };
                return Err((mk_err(ERR_PANIC, ErrSource::Panic, msg), None));
            }
            Ok(Err(e)) => {
                let code = match &e {
                    ProgramError::Custom(c) => *c,
                    other => {
                        // map builtin program errors into a disjoint range
                        0x8000_0000 | (u64::from(other.clone()) >> 32) as u32
                    }
                };
                let source = if ctx.injected_fired && code == ERR_INJECTED {
                    ErrSource::Injected
                } else if code == ERR_PRIVILEGE || code == ERR_RUNTIME {
                    ErrSource::Runtime
                } else {
                    ErrSource::Program
                };
                let msg = ctx.runtime_violation.unwrap_or_else(|| format!("{e:?}"));
                // state as the failing instruction left it
                let mut failed = work.clone();
                for slot in input.slots.iter() {
                    if let Ok((lamports, owner, data)) = input.read_back(slot) {
                        let exec = failed.get(&slot.key).map(|a| a.executable).unwrap_or(false);
                        failed.insert(
                            slot.key,
                            Account {
                                lamports,
                                data,
                                owner,
                                executable: exec,
                            },
                        );
                    }
                }
                return Err((mk_err(code, source, msg), Some(failed)));
            }
            Ok(Ok(())) => {}
        }

        // post-instruction rules for the marginfi invocation, then write back
        let mut updates: Vec<(Pubkey, Account)> = Vec::new();
        for (slot, meta) in input
            .slots
            .iter()
            .map(|s| (s, metas.iter().find(|m| m.0 == s.key).unwrap()))
        {
            let (lamports, owner, data) = input
                .read_back(slot)
                .map_err(|m| (mk_err(ERR_RUNTIME, ErrSource::Runtime, m), None))?;
            let default_acc = Account::system(0);
            let pre = work.get(&slot.key).unwrap_or(&default_acc);
            let changed_data = pre.data != data;
            let changed_owner = pre.owner != owner;
            let changed_lamports = pre.lamports != lamports;
            if !(changed_data || changed_owner || changed_lamports) {
                continue;
            }
            if !meta.2 {
                return Err((mk_err(
                    ERR_RUNTIME,
                    ErrSource::Runtime,
                    format!("read-only account {} modified", slot.key),
                ), None));
            }
            if pre.executable {
                return Err((mk_err(
                    ERR_RUNTIME,
                    ErrSource::Runtime,
                    format!("executable account {} modified", slot.key),
                ), None));
            }
            let by_cpi = ctx.cpi_touched.contains(&slot.key);
            if (changed_data || changed_owner) && pre.owner != marginfi_id() && !by_cpi {
                return Err((mk_err(
                    ERR_RUNTIME,
                    ErrSource::Runtime,
                    format!("account {} not owned by program had data modified", slot.key),
                ), None));
            }
            if lamports < pre.lamports && pre.owner != marginfi_id() && !by_cpi {
                return Err((mk_err(
                    ERR_RUNTIME,
                    ErrSource::Runtime,
                    format!("account {} not owned by program was debited", slot.key),
                ), None));
            }
            updates.push((
                slot.key,
                Account {
                    lamports,
                    data,
                    owner,
                    executable: pre.executable,
                },
            ));
        }
        for (k, a) in updates {
            work.insert(k, a);
        }
        work.remove(&ixs_key);
        Ok(())
    }
}
