//! Simulation engine: events, the single run PRNG, monitors, coverage.

use crate::rt::{Account, Executor, SimClock, Store, Tx, TxOutcome};
use anchor_lang::prelude::Pubkey;
use rand::{Rng as _, RngCore, SeedableRng};
use rand_chacha::ChaCha8Rng;
use std::collections::{BTreeMap, BTreeSet};

// ------------------------------------------------------------------------------------------
// PRNG: one per run, seeded from (VERIF_SEED, property, run index)
// ------------------------------------------------------------------------------------------

pub fn splitmix64(mut x: u64) -> u64 {
    x = x.wrapping_add(0x9E3779B97F4A7C15);
    let mut z = x;
    z = (z ^ (z >> 30)).wrapping_mul(0xBF58476D1CE4E5B9);
    z = (z ^ (z >> 27)).wrapping_mul(0x94D049BB133111EB);
    z ^ (z >> 31)
}

pub fn run_seed(base: u64, property: &str, profile: &str, i: u64) -> u64 {
    let mut h = splitmix64(base);
    for b in property.bytes().chain(profile.bytes()) {
        h = splitmix64(h ^ b as u64);
    }
    splitmix64(h ^ i.wrapping_mul(0x9E3779B97F4A7C15))
}

pub struct Rng(pub ChaCha8Rng);

impl Rng {
    pub fn new(seed: u64) -> Self {
        Rng(ChaCha8Rng::seed_from_u64(seed))
    }
    pub fn u64(&mut self) -> u64 {
        self.0.next_u64()
    }
    /// uniform in [0, n)
    pub fn below(&mut self, n: u64) -> u64 {
        if n == 0 {
            0
        } else {
            self.0.gen_range(0..n)
        }
    }
    pub fn range(&mut self, lo: u64, hi_incl: u64) -> u64 {
        if hi_incl <= lo {
            lo
        } else {
            self.0.gen_range(lo..=hi_incl)
        }
    }
    pub fn irange(&mut self, lo: i64, hi_incl: i64) -> i64 {
        if hi_incl <= lo {
            lo
        } else {
            self.0.gen_range(lo..=hi_incl)
        }
    }
    pub fn chance(&mut self, num: u64, den: u64) -> bool {
        self.below(den) < num
    }
    pub fn pick<'a, T>(&mut self, v: &'a [T]) -> &'a T {
        &v[self.below(v.len() as u64) as usize]
    }
    pub fn pick_weighted(&mut self, weights: &[u32]) -> usize {
        let total: u64 = weights.iter().map(|w| *w as u64).sum();
        if total == 0 {
            return 0;
        }
        let mut r = self.below(total);
        for (i, w) in weights.iter().enumerate() {
            if r < *w as u64 {
                return i;
            }
            r -= *w as u64;
        }
        weights.len() - 1
    }
    pub fn pubkey(&mut self) -> Pubkey {
        let mut b = [0u8; 32];
        self.0.fill_bytes(&mut b);
        Pubkey::new_from_array(b)
    }
    /// log-uniform integer in [1, 10^max_exp]
    pub fn log_amount(&mut self, max_exp: u32) -> u64 {
        let e = self.below(max_exp as u64 + 1) as u32;
        let hi = 10u64.saturating_pow(e);
        let lo = if e == 0 { 1 } else { 10u64.saturating_pow(e - 1) };
        self.range(lo, hi.max(lo))
    }
}

// ------------------------------------------------------------------------------------------
// Events
// ------------------------------------------------------------------------------------------

#[derive(Clone, Debug, PartialEq, Eq)]
pub enum Event {
    Advance {
        dt: i64,
        dslot: u64,
        depoch: u64,
    },
    Tx(Tx),
    /// Execute on a fork, judge, discard (boundary probes, single-mutation sweeps).
    ForkTx(Tx),
    /// External write: oracle publish, fixture creation, fault (account tamper).
    SetAccount {
        key: Pubkey,
        account: Option<Account>,
        why: &'static str,
    },
}

#[derive(Clone, Debug, PartialEq, Eq, PartialOrd, Ord)]
pub struct Violation {
    pub property: &'static str,
    pub rule: &'static str,
    pub ix: String,
    pub detail: String,
    pub event_index: usize,
}

impl Violation {
    pub fn class(&self) -> (String, String, String) {
        (
            self.property.to_string(),
            self.rule.to_string(),
            self.ix.clone(),
        )
    }
}

pub struct Step<'a> {
    pub pre: &'a Store,
    /// equals `pre` when the transaction failed
    pub post: &'a Store,
    pub clock: SimClock,
    pub tx: &'a Tx,
    pub out: &'a TxOutcome,
    pub exec: &'a Executor,
    pub event_index: usize,
    pub is_fork: bool,
}

impl<'a> Step<'a> {
    /// State sequence s[0] = pre, s[i+1] = after instruction i (only for successful txs with
    /// recorded mid states; otherwise [pre, post]).
    pub fn states(&self) -> Vec<&Store> {
        if self.out.ok() && self.out.mid_states.len() == self.tx.ixs.len() {
            let mut v: Vec<&Store> = vec![self.pre];
            for (i, m) in self.out.mid_states.iter().enumerate() {
                if i + 1 == self.out.mid_states.len() {
                    v.push(self.post);
                } else {
                    v.push(m);
                }
            }
            v
        } else {
            vec![self.pre, self.post]
        }
    }
    pub fn ok(&self) -> bool {
        self.out.ok()
    }
}

/// What a monitor needs to run its own fork executions from a non-transaction hook.
pub struct Hook<'a> {
    pub exec: &'a Executor,
    pub clock: SimClock,
    pub event_index: usize,
}

#[derive(Clone, Debug, Default)]
pub struct Cov {
    pub evaluations: u64,
    pub distinct: BTreeSet<String>,
    pub probes: BTreeMap<&'static str, u64>,
    pub samples: Vec<String>,
}

impl Cov {
    pub fn eval(&mut self, key: String) {
        self.evaluations += 1;
        if self.distinct.len() < 200_000 {
            self.distinct.insert(key);
        }
    }
    pub fn probe(&mut self, name: &'static str) {
        *self.probes.entry(name).or_insert(0) += 1;
    }
    pub fn probe_n(&mut self, name: &'static str, n: u64) {
        *self.probes.entry(name).or_insert(0) += n;
    }
    pub fn declare(&mut self, names: &[&'static str]) {
        for n in names {
            self.probes.entry(n).or_insert(0);
        }
    }
    pub fn sample(&mut self, s: String) {
        if self.samples.len() < 4 {
            self.samples.push(s);
        }
    }
    pub fn merge(&mut self, o: &Cov) {
        self.evaluations += o.evaluations;
        for k in &o.distinct {
            if self.distinct.len() < 2_000_000 {
                self.distinct.insert(k.clone());
            }
        }
        for (k, v) in &o.probes {
            *self.probes.entry(k).or_insert(0) += v;
        }
        for s in &o.samples {
            if self.samples.len() < 6 {
                self.samples.push(s.clone());
            }
        }
    }
}

pub trait Monitor {
    fn property(&self) -> &'static str;
    fn on_tx(&mut self, s: &Step, out: &mut Vec<Violation>);
    fn on_advance(&mut self, _pre: SimClock, _post: SimClock, _store: &Store, _hook: &Hook, _out: &mut Vec<Violation>) {}
    fn on_set_account(&mut self, _key: &Pubkey, _pre: &Store, _post: &Store, _why: &'static str, _hook: &Hook, _out: &mut Vec<Violation>) {}
    /// end-of-run checks over the recorded history
    fn finish(&mut self, _store: &Store, _clock: SimClock, _out: &mut Vec<Violation>) {}
    fn cov(&self) -> &Cov;
}

#[derive(Clone, Debug, Default)]
pub struct Stats {
    pub events: u64,
    pub txs: u64,
    pub txs_ok: u64,
    pub forks: u64,
    pub instructions: u64,
    pub sim_seconds: i64,
    pub ix_ok: BTreeMap<String, u64>,
    pub ix_err: BTreeMap<String, u64>,
    pub faults: BTreeMap<&'static str, u64>,
    pub trigrams: BTreeSet<(String, String, String)>,
    pub honest_txs: u64,
    pub honest_ok: u64,
}

impl Stats {
    pub fn fault(&mut self, k: &'static str) {
        *self.faults.entry(k).or_insert(0) += 1;
    }
    pub fn merge(&mut self, o: &Stats) {
        self.events += o.events;
        self.txs += o.txs;
        self.txs_ok += o.txs_ok;
        self.forks += o.forks;
        self.instructions += o.instructions;
        self.sim_seconds += o.sim_seconds;
        self.honest_txs += o.honest_txs;
        self.honest_ok += o.honest_ok;
        for (k, v) in &o.ix_ok {
            *self.ix_ok.entry(k.clone()).or_insert(0) += v;
        }
        for (k, v) in &o.ix_err {
            *self.ix_err.entry(k.clone()).or_insert(0) += v;
        }
        for (k, v) in &o.faults {
            *self.faults.entry(k).or_insert(0) += v;
        }
        for t in &o.trigrams {
            if self.trigrams.len() < 500_000 {
                self.trigrams.insert(t.clone());
            }
        }
    }
}

pub struct Sim {
    pub store: Store,
    pub clock: SimClock,
    pub exec: Executor,
    pub log: Vec<Event>,
    pub monitors: Vec<Box<dyn Monitor>>,
    pub violations: Vec<Violation>,
    pub stats: Stats,
    last_tags: Vec<String>,
    /// stop at first violation (the runner minimises from the log)
    pub stop_on_violation: bool,
}

pub const GENESIS_TIME: i64 = 1_760_000_000;

impl Sim {
    pub fn new(monitors: Vec<Box<dyn Monitor>>) -> Self {
        Sim {
            store: Store::default(),
            clock: SimClock {
                unix_timestamp: GENESIS_TIME,
                slot: 1_000,
                epoch: 10,
            },
            exec: Executor::default(),
            log: Vec::new(),
            monitors,
            violations: Vec::new(),
            stats: Stats::default(),
            last_tags: Vec::new(),
            stop_on_violation: true,
        }
    }

    pub fn violated(&self) -> bool {
        !self.violations.is_empty()
    }

    /// Apply one event; returns the tx outcome for Tx / ForkTx events.
    pub fn apply(&mut self, ev: Event) -> Option<TxOutcome> {
        let idx = self.log.len();
        self.stats.events += 1;
        let res = match &ev {
            Event::Advance { dt, dslot, depoch } => {
                let pre = self.clock;
                self.clock.unix_timestamp += *dt;
                self.clock.slot += *dslot;
                self.clock.epoch += *depoch;
                self.stats.sim_seconds += *dt;
                let post = self.clock;
                let hook = Hook {
                    exec: &self.exec,
                    clock: self.clock,
                    event_index: idx,
                };
                let mut v = Vec::new();
                for m in self.monitors.iter_mut() {
                    m.on_advance(pre, post, &self.store, &hook, &mut v);
                }
                self.violations.extend(v);
                None
            }
            Event::SetAccount { key, account, why } => {
                let pre = self.store.clone();
                match account {
                    Some(a) => {
                        self.store.put(*key, a.clone());
                    }
                    None => {
                        self.store.accounts.remove(key);
                    }
                }
                let post = &self.store;
                let hook = Hook {
                    exec: &self.exec,
                    clock: self.clock,
                    event_index: idx,
                };
                let mut v = Vec::new();
                for m in self.monitors.iter_mut() {
                    m.on_set_account(key, &pre, post, why, &hook, &mut v);
                }
                self.violations.extend(v);
                None
            }
            Event::Tx(tx) => {
                let (out, post) = self.exec.execute(&self.store, self.clock, tx);
                self.stats.txs += 1;
                self.stats.instructions += tx.ixs.len() as u64;
                let tag = tx_tag(tx);
                if out.ok() {
                    self.stats.txs_ok += 1;
                    *self.stats.ix_ok.entry(tag.clone()).or_insert(0) += 1;
                } else {
                    *self.stats.ix_err.entry(tag.clone()).or_insert(0) += 1;
                    if tag.contains("withdraw_emissions,end_liquidation") && std::env::var("MFISIM_DEBUG_EMIBR").is_ok() {
                        eprintln!("emibr failed: {} {:?}", tag.contains("settle"), out.result.as_ref().err().map(|e| (e.ix_index, e.code)));
                    }
                    if tag == "accrue_interest" {
                        if let Ok(v) = std::env::var("MFISIM_DEBUG_ACCRUE") {
                            if !v.is_empty() {
                                let code = out.result.as_ref().err().map(|e| e.code);
                                if code == Some(6062) {
                                    if let Some(b) = tx.ixs.first().and_then(|i| i.accounts.get(1)).and_then(|m| crate::model::bank_of(&self.store, &m.pubkey)) {
                                        let q = crate::model::BankQ::of(&b);
                                        eprintln!("accrue MathError: A={} L={} asv={} lsv={} dt={} curve0={} curve100={} pts={:?}", crate::model::q_str(&q.assets()), crate::model::q_str(&q.liabs()), crate::model::q_str(&crate::model::q_w(b.asset_share_value)), crate::model::q_str(&crate::model::q_w(b.liability_share_value)), self.clock.unix_timestamp - b.last_update, b.config.interest_rate_config.zero_util_rate, b.config.interest_rate_config.hundred_util_rate, b.config.interest_rate_config.points.iter().map(|p| (p.util, p.rate)).collect::<Vec<_>>());
                                    }
                                }
                                eprintln!("accrue failed: {:?}", out.result.as_ref().err().map(|e| (e.code, e.msg.clone())));
                            }
                        }
                    }
                }
                self.last_tags.push(format!("{}:{}", tx.actor, tag));
                if self.last_tags.len() >= 3 {
                    let n = self.last_tags.len();
                    self.stats.trigrams.insert((
                        self.last_tags[n - 3].clone(),
                        self.last_tags[n - 2].clone(),
                        self.last_tags[n - 1].clone(),
                    ));
                    if n > 3 {
                        self.last_tags.remove(0);
                    }
                }
                let post_store = post.unwrap_or_else(|| self.store.clone());
                {
                    let step = Step {
                        pre: &self.store,
                        post: &post_store,
                        clock: self.clock,
                        tx,
                        out: &out,
                        exec: &self.exec,
                        event_index: idx,
                        is_fork: false,
                    };
                    let mut v = Vec::new();
                    for m in self.monitors.iter_mut() {
                        m.on_tx(&step, &mut v);
                    }
                    self.violations.extend(v);
                }
                if out.ok() {
                    self.store = post_store;
                }
                Some(out)
            }
            Event::ForkTx(tx) => {
                let (out, post) = self.exec.execute(&self.store, self.clock, tx);
                self.stats.forks += 1;
                self.stats.instructions += tx.ixs.len() as u64;
                let post_store = post.unwrap_or_else(|| self.store.clone());
                let step = Step {
                    pre: &self.store,
                    post: &post_store,
                    clock: self.clock,
                    tx,
                    out: &out,
                    exec: &self.exec,
                    event_index: idx,
                    is_fork: true,
                };
                let mut v = Vec::new();
                for m in self.monitors.iter_mut() {
                    m.on_tx(&step, &mut v);
                }
                self.violations.extend(v);
                Some(out)
            }
        };
        self.log.push(ev);
        res
    }

    pub fn finish(&mut self) {
        let mut v = Vec::new();
        for m in self.monitors.iter_mut() {
            m.finish(&self.store, self.clock, &mut v);
        }
        self.violations.extend(v);
    }
}

pub fn tx_tag(tx: &Tx) -> String {
    if tx.ixs.len() == 1 {
        tx.ixs[0].tag.to_string()
    } else {
        let mut s = String::from("[");
        for (i, ix) in tx.ixs.iter().enumerate() {
            if i > 0 {
                s.push(',');
            }
            s.push_str(ix.tag);
        }
        s.push(']');
        s
    }
}
