//! World construction ("genesis"): every account is created either by a fixture write or by a
//! real instruction executed through the shim.  All keys and parameters come from the run PRNG.

use crate::fixtures::{self, PythData, SwbData, TokenKind};
use crate::ix::{self, BankKeys, GroupAdmins};
use crate::rt::{Account, Tx};
use crate::sim::{Event, Rng, Sim, GENESIS_TIME};
use anchor_lang::prelude::{AccountMeta, Pubkey};
use fixed::types::I80F48;
use marginfi_type_crate::constants::*;
use marginfi_type_crate::types::{
    make_points, BankConfigCompact, BankOperationalState, InterestRateConfigCompact, OracleSetup,
    RatePoint, RiskTier, WrappedI80F48,
};
use std::collections::BTreeMap;

#[derive(Clone, Copy, Debug, PartialEq, Eq, PartialOrd, Ord)]
pub enum OracleKind {
    Pyth,
    Swb,
    Fixed,
}

#[derive(Clone, Debug)]
pub struct BankInfo {
    pub keys: BankKeys,
    pub kind: TokenKind,
    pub decimals: u8,
    pub oracle: OracleKind,
    pub oracle_key: Pubkey,
    pub feed_id: [u8; 32],
    pub expo: i32,
    /// current "true" UI price in micro-dollars (oracle publisher's random walk state)
    pub price_micro: u64,
    pub group_index: usize,
    /// staked-collateral bank: (spl-single-pool stake pool, its native stake account); the LST
    /// mint is `keys.mint` and `oracle_key` is the group's SOL feed
    pub staked: Option<(Pubkey, Pubkey)>,
}

#[derive(Clone, Debug)]
pub struct UserInfo {
    pub authority: Pubkey,
    /// marginfi accounts by group index
    pub maccounts: Vec<(usize, Pubkey)>,
    /// token account per mint
    pub tokens: BTreeMap<Pubkey, Pubkey>,
}

#[derive(Clone, Debug)]
pub struct GroupInfo {
    pub key: Pubkey,
    pub admins: GroupAdmins,
    pub banks: Vec<BankInfo>,
}

#[derive(Clone, Debug)]
pub struct World {
    pub payer: Pubkey,
    pub fee_admin: Pubkey,
    pub fee_wallet: Pubkey,
    pub stranger: Pubkey,
    pub stranger_tokens: BTreeMap<Pubkey, Pubkey>,
    pub groups: Vec<GroupInfo>,
    pub users: Vec<UserInfo>,
    pub allowed_foreign: Pubkey,
    pub bad_foreign: Pubkey,
    pub failing_foreign: Pubkey,
    /// wallets the global fee state named before a rotation (their ATAs still exist)
    pub retired_fee_wallets: Vec<Pubkey>,
}

#[derive(Clone, Debug)]
pub struct WorldCfg {
    pub n_groups: usize,
    pub n_banks: usize,
    pub n_users: usize,
    /// 0 = low magnitudes (10^3..10^9 native), 1 = medium, 2 = huge (10^15..)
    pub magnitude: u8,
    pub allow_t22: bool,
    pub allow_fee_mints: bool,
    pub allow_isolated: bool,
    pub allow_swb: bool,
    pub allow_fixed: bool,
    pub tight_limits: bool,
    pub origination_fees: bool,
    pub program_fees: bool,
    pub emode: bool,
    pub init_limit_caps: bool,
    pub flat_sol_fees: bool,
    /// staked-collateral settings and one or two permissionlessly added LST banks per group
    pub staked: bool,
}

impl WorldCfg {
    pub fn swarm(rng: &mut Rng) -> Self {
        WorldCfg {
            n_groups: if rng.chance(1, 5) { 2 } else { 1 },
            n_banks: match rng.below(36) {
                0 => 17, // more banks than an account has slots
                1 | 2 | 3 => rng.range(8, 10) as usize,
                _ => rng.range(2, 5) as usize,
            },
            n_users: rng.range(2, 5) as usize,
            magnitude: *rng.pick(&[0u8, 0, 1, 1, 1, 2]),
            allow_t22: rng.chance(2, 3),
            allow_fee_mints: rng.chance(1, 2),
            allow_isolated: rng.chance(1, 3),
            allow_swb: rng.chance(1, 2),
            allow_fixed: rng.chance(1, 3),
            tight_limits: rng.chance(1, 3),
            origination_fees: rng.chance(1, 2),
            program_fees: rng.chance(2, 3),
            emode: rng.chance(1, 3),
            init_limit_caps: rng.chance(1, 4),
            flat_sol_fees: rng.chance(1, 2),
            staked: rng.chance(1, 3),
        }
    }
}

pub fn w(x: f64) -> WrappedI80F48 {
    I80F48::from_num(x).into()
}

pub fn rate_u32(apr: f64) -> u32 {
    // out of 1000 %
    ((apr / 10.0).clamp(0.0, 1.0) * u32::MAX as f64) as u32
}
pub fn util_u32(u: f64) -> u32 {
    (u.clamp(0.0, 1.0) * u32::MAX as f64) as u32
}

pub fn gen_curve(rng: &mut Rng) -> (u32, u32, [RatePoint; 5]) {
    if rng.chance(1, 12) {
        // a curve at the very top of the representable range (rates of 800 % - 1000 % a year):
        // with fees on top the borrowing rate leaves the range the curve points can express
        let zero = rate_u32(8.0 + rng.below(100) as f64 / 100.0);
        let mid = rate_u32(9.0 + rng.below(50) as f64 / 100.0);
        let hundred = if rng.chance(1, 2) { u32::MAX } else { rate_u32(9.5 + rng.below(50) as f64 / 100.0) };
        let pts = vec![RatePoint::new(rng.range(1, u32::MAX as u64 / 2) as u32, mid)];
        return (zero, hundred, make_points(&pts));
    }
    let n = rng.below(6) as usize; // 0..5 points
    let zero = rate_u32(rng.below(50) as f64 / 1000.0);
    let mut utils: Vec<u32> = Vec::new();
    let mut u = 0u32;
    for _ in 0..n {
        let step = match rng.below(4) {
            0 => 1,                                 // adjacent points
            1 => rng.range(1, 1000) as u32,         // very close
            _ => rng.range(1, u32::MAX as u64 / 6) as u32,
        };
        if (u as u64 + step as u64) >= u32::MAX as u64 {
            break;
        }
        u += step;
        utils.push(u);
    }
    let mut rate = zero;
    let mut pts: Vec<RatePoint> = Vec::new();
    for u in utils {
        let inc = match rng.below(3) {
            0 => 0,
            1 => rng.range(0, rate_u32(0.05) as u64) as u32,
            _ => rng.range(0, rate_u32(0.5) as u64) as u32,
        };
        rate = rate.saturating_add(inc);
        pts.push(RatePoint::new(u, rate));
    }
    let hundred = rate.saturating_add(rng.range(0, rate_u32(3.0) as u64) as u32);
    (zero, hundred, make_points(&pts))
}

pub fn gen_interest(rng: &mut Rng, cfg: &WorldCfg) -> InterestRateConfigCompact {
    let (zero, hundred, points) = gen_curve(rng);
    let fee = |rng: &mut Rng| -> f64 {
        match rng.below(4) {
            0 => 0.0,
            1 => rng.below(100) as f64 / 10_000.0,
            _ => rng.below(300) as f64 / 1000.0,
        }
    };
    // one bank in six charges no bank-level fee at all (neither insurance nor group), so that the
    // program fee - which comes from the global fee state, not from the bank - is the only fee
    let feeless = rng.chance(1, 6);
    let mut fee = move |rng: &mut Rng| -> f64 { if feeless { 0.0 } else { fee(rng) } };
    InterestRateConfigCompact {
        insurance_fee_fixed_apr: w(fee(rng) / 10.0),
        insurance_ir_fee: w(fee(rng)),
        protocol_fixed_fee_apr: w(fee(rng) / 10.0),
        protocol_ir_fee: w(fee(rng)),
        protocol_origination_fee: if cfg.origination_fees && rng.chance(1, 2) {
            w(rng.range(1, 500) as f64 / 10_000.0)
        } else {
            w(0.0)
        },
        zero_util_rate: zero,
        hundred_util_rate: hundred,
        points,
    }
}

pub fn gen_bank_config(rng: &mut Rng, cfg: &WorldCfg, decimals: u8, isolated: bool) -> BankConfigCompact {
    let a_i = if isolated {
        0.0
    } else {
        *rng.pick(&[0.0f64, 0.25, 0.5, 0.65, 0.8, 0.9, 1.0])
    };
    let a_m = if isolated {
        0.0
    } else {
        f64::min(a_i + *rng.pick(&[0.0f64, 0.05, 0.1, 0.2]), 1.0)
    };
    let l_m = *rng.pick(&[1.0, 1.05, 1.1, 1.25]);
    let l_i = l_m + *rng.pick(&[0.0, 0.05, 0.1, 0.25]);
    let unit = 10u64.saturating_pow(decimals as u32);
    let limit = |rng: &mut Rng| -> u64 {
        if cfg.tight_limits {
            match rng.below(5) {
                0 => u64::MAX,
                1 => unit.saturating_mul(rng.range(1, 1000)),
                2 => unit.saturating_mul(rng.range(1000, 1_000_000)),
                3 => rng.range(1, 10_000),
                _ => unit.saturating_mul(1_000_000_000).max(1),
            }
        } else if rng.chance(1, 3) {
            u64::MAX
        } else {
            u64::MAX / 4
        }
    };
    BankConfigCompact {
        asset_weight_init: w(a_i),
        asset_weight_maint: w(a_m),
        liability_weight_init: w(l_i),
        liability_weight_maint: w(l_m),
        deposit_limit: limit(rng),
        interest_rate_config: gen_interest(rng, cfg),
        operational_state: BankOperationalState::Operational,
        borrow_limit: limit(rng),
        risk_tier: if isolated {
            RiskTier::Isolated
        } else {
            RiskTier::Collateral
        },
        asset_tag: if rng.chance(1, 4) {
            ASSET_TAG_SOL
        } else {
            ASSET_TAG_DEFAULT
        },
        config_flags: PYTH_PUSH_MIGRATED_DEPRECATED,
        _pad0: [0; 5],
        total_asset_value_init_limit: if cfg.init_limit_caps && rng.chance(1, 2) {
            rng.range(1, 100_000)
        } else {
            0
        },
        oracle_max_age: rng.range(10, 600) as u16,
        oracle_max_confidence: match rng.below(3) {
            0 => 0,
            1 => u32::MAX / 50,
            _ => rng.range(u32::MAX as u64 / 100, u32::MAX as u64 / 4) as u32,
        },
    }
}

fn sys(lamports: u64) -> Account {
    Account::system(lamports)
}

pub fn pyth_from_micro(micro: u64, expo: i32, conf_bps: u64, ema_skew_bps: i64, t: i64) -> PythData {
    // price = micro * 1e-6 = mant * 10^expo  => mant = micro * 10^(-6-expo)
    let shift = -6 - expo;
    let mant: i128 = if shift >= 0 {
        micro as i128 * 10i128.pow(shift as u32)
    } else {
        micro as i128 / 10i128.pow((-shift) as u32)
    };
    let mant = mant.clamp(0, i64::MAX as i128) as i64;
    let ema = (mant as i128 * (10_000 + ema_skew_bps as i128) / 10_000).clamp(0, i64::MAX as i128) as i64;
    let conf = (mant as u128 * conf_bps as u128 / 10_000) as u64;
    let ema_conf = (ema as u128 * conf_bps as u128 / 10_000) as u64;
    PythData {
        price: mant,
        conf,
        ema_price: ema,
        ema_conf,
        exponent: expo,
        publish_time: t,
        verification_full: true,
    }
}

pub fn swb_from_micro(micro: u64, conf_bps: u64, t: i64) -> SwbData {
    let value = micro as i128 * 1_000_000_000_000i128; // 1e-6 * 1e18
    SwbData {
        value,
        std_dev: value * conf_bps as i128 / 10_000,
        last_update_timestamp: t,
    }
}

impl World {
    pub fn all_banks(&self) -> Vec<&BankInfo> {
        self.groups.iter().flat_map(|g| g.banks.iter()).collect()
    }
    pub fn bank_info(&self, bank: &Pubkey) -> Option<&BankInfo> {
        self.all_banks().into_iter().find(|b| b.keys.bank == *bank)
    }
    pub fn bank_info_mut(&mut self, bank: &Pubkey) -> Option<&mut BankInfo> {
        self.groups
            .iter_mut()
            .flat_map(|g| g.banks.iter_mut())
            .find(|b| b.keys.bank == *bank)
    }
    pub fn fee_ata(&self, b: &BankInfo) -> Pubkey {
        ix::ata(&self.fee_wallet, &b.keys.mint, &b.keys.token_program)
    }
}

/// Oracle account metas a bank needs in a risk-engine account list (after the bank itself).
pub fn oracle_metas_for(bank: &marginfi_type_crate::types::Bank) -> Vec<AccountMeta> {
    match bank.config.oracle_setup {
        OracleSetup::Fixed => vec![],
        OracleSetup::StakedWithPythPush => vec![
            ix::ro(bank.config.oracle_keys[0]),
            ix::ro(bank.config.oracle_keys[1]),
            ix::ro(bank.config.oracle_keys[2]),
        ],
        OracleSetup::KaminoPythPush
        | OracleSetup::KaminoSwitchboardPull
        | OracleSetup::DriftPythPull
        | OracleSetup::DriftSwitchboardPull
        | OracleSetup::SolendPythPull
        | OracleSetup::SolendSwitchboardPull => vec![
            ix::ro(bank.config.oracle_keys[0]),
            ix::ro(bank.config.oracle_keys[1]),
        ],
        _ => vec![ix::ro(bank.config.oracle_keys[0])],
    }
}

/// Risk-engine remaining accounts for `account` as it will look *after* an operation that adds
/// `include` and/or closes `exclude`: active banks sorted descending by key, each followed by
/// its oracle account(s).
pub fn risk_metas(
    store: &crate::rt::Store,
    account: &Pubkey,
    include: Option<Pubkey>,
    exclude: Option<Pubkey>,
) -> Vec<AccountMeta> {
    let mut banks: Vec<Pubkey> = Vec::new();
    if let Some(a) = crate::model::account_of(store, account) {
        for b in a.lending_account.balances.iter() {
            if b.active != 0 {
                banks.push(b.bank_pk);
            }
        }
    }
    if let Some(i) = include {
        if !banks.contains(&i) {
            banks.push(i);
        }
    }
    if let Some(e) = exclude {
        banks.retain(|b| *b != e);
    }
    banks.sort_by(|a, b| b.cmp(a));
    let mut metas = Vec::new();
    for bk in banks {
        metas.push(ix::ro(bk));
        if let Some(bank) = crate::model::bank_of(store, &bk) {
            metas.extend(oracle_metas_for(&bank));
        }
    }
    metas
}

pub struct Genesis;

impl Genesis {
    /// Build a world by applying events to `sim`.  Returns None if a genesis transaction failed
    /// (harness error, reported as such by the caller).
    pub fn build(sim: &mut Sim, rng: &mut Rng, cfg: &WorldCfg) -> Result<World, String> {
        let set = |sim: &mut Sim, key: Pubkey, a: Account| {
            sim.apply(Event::SetAccount {
                key,
                account: Some(a),
                why: "genesis",
            });
        };
        let run = |sim: &mut Sim, tx: Tx| -> Result<(), String> {
            let tag = crate::sim::tx_tag(&tx);
            let out = sim.apply(Event::Tx(tx)).unwrap();
            match out.result {
                Ok(()) => Ok(()),
                Err(e) => Err(format!("genesis tx {tag} failed: {e:?}")),
            }
        };

        let payer = rng.pubkey();
        let fee_admin = rng.pubkey();
        let fee_wallet = rng.pubkey();
        let stranger = rng.pubkey();
        let big = 1_000_000_000_000_000u64;
        set(sim, payer, sys(big));
        set(sim, fee_admin, sys(big));
        set(sim, fee_wallet, sys(1_000_000_000));
        set(sim, stranger, sys(big));
        // programs
        for p in [
            crate::rt::system_id(),
            crate::rt::spl_token_id(),
            crate::rt::token22_id(),
            crate::rt::marginfi_id(),
        ] {
            set(sim, p, Account::program());
        }
        let allowed_foreign = marginfi::constants::JUP_KEY;
        let bad_foreign = rng.pubkey();
        let failing_foreign = rng.pubkey();
        sim.exec.foreign.ok.insert(allowed_foreign);
        sim.exec.foreign.failing.insert(marginfi::constants::TITAN_KEY);
        sim.exec.foreign.ok.insert(bad_foreign);
        sim.exec.foreign.failing.insert(failing_foreign);

        let flat = if cfg.flat_sol_fees { 10_000 } else { 0 };
        let liq_flat = if cfg.flat_sol_fees { 5_000 } else { 0 };
        let max_liq_fee = *rng.pick(&[0.0, 0.02, 0.05, 0.1, 0.25]);
        // program fee: fixed and rate-proportional part present or absent independently (a
        // fixed-only or rate-only program fee is a legal configuration nothing validates against)
        let (pf_fixed, pf_rate) = if cfg.program_fees {
            *rng.pick(&[(0.01, 0.025), (0.01, 0.025), (0.01, 0.0), (0.0, 0.025), (0.002, 0.3)])
        } else {
            (0.0, 0.0)
        };
        run(
            sim,
            Tx::one(
                "genesis",
                ix::init_global_fee_state(
                    payer,
                    fee_admin,
                    fee_wallet,
                    flat,
                    liq_flat,
                    w(pf_fixed),
                    w(pf_rate),
                    w(max_liq_fee),
                ),
            ),
        )?;

        let mut world = World {
            payer,
            fee_admin,
            fee_wallet,
            stranger,
            stranger_tokens: BTreeMap::new(),
            groups: vec![],
            users: vec![],
            allowed_foreign,
            bad_foreign,
            failing_foreign,
            retired_fee_wallets: vec![],
        };

        for gi in 0..cfg.n_groups {
            let group = rng.pubkey();
            let admins = GroupAdmins {
                admin: rng.pubkey(),
                emode: rng.pubkey(),
                curve: rng.pubkey(),
                limit: rng.pubkey(),
                emissions: rng.pubkey(),
                metadata: rng.pubkey(),
                risk: rng.pubkey(),
            };
            for k in [
                admins.admin,
                admins.emode,
                admins.curve,
                admins.limit,
                admins.emissions,
                admins.metadata,
                admins.risk,
            ] {
                set(sim, k, sys(big));
            }
            let mut gix = ix::group_initialize(group, admins.admin);
            // the fresh group keypair signs
            for m in gix.accounts.iter_mut() {
                if m.pubkey == group {
                    m.is_signer = true;
                }
            }
            run(sim, Tx::one("genesis", gix))?;
            run(
                sim,
                Tx::one(
                    "genesis",
                    ix::group_configure(group, admins.admin, &admins, None, None),
                ),
            )?;
            if !cfg.program_fees || rng.chance(1, 4) {
                run(
                    sim,
                    Tx::one("genesis", ix::config_group_fee(group, fee_admin, false)),
                )?;
            }
            let mut banks = Vec::new();
            for _ in 0..cfg.n_banks {
                let b = Self::add_bank(sim, rng, cfg, &world, group, gi, &admins)?;
                banks.push(b);
            }
            if cfg.staked {
                let more = Self::add_staked_banks(sim, rng, cfg, &world, group, gi, &admins)?;
                banks.extend(more);
            }
            // e-mode tables (swarm option): tags on some banks, entries on some (possibly other)
            // banks, valid against each bank's own liability weights and the default caps
            if cfg.emode {
                let tags: Vec<u16> = banks.iter().map(|_| if rng.chance(2, 3) { rng.range(1, 3) as u16 } else { 0 }).collect();
                for (bi, b) in banks.iter().enumerate() {
                    let Some(bank) = crate::model::bank_of(&sim.store, &b.keys.bank) else { continue };
                    let li: f64 = I80F48::from_le_bytes(bank.config.liability_weight_init.value).to_num();
                    let lm: f64 = I80F48::from_le_bytes(bank.config.liability_weight_maint.value).to_num();
                    let mut entries = [marginfi_type_crate::types::EmodeEntry {
                        collateral_bank_emode_tag: 0,
                        flags: 0,
                        pad0: [0; 5],
                        asset_weight_init: w(0.0),
                        asset_weight_maint: w(0.0),
                    }; marginfi_type_crate::types::MAX_EMODE_ENTRIES];
                    let mut used: Vec<u16> = Vec::new();
                    let n = rng.below(3) as usize; // 0, 1 or 2 entries (0 = entry-less table)
                    for e in entries.iter_mut().take(n) {
                        let t = *rng.pick(&[1u16, 2, 3]);
                        if used.contains(&t) {
                            continue;
                        }
                        used.push(t);
                        let wi = li * *rng.pick(&[0.6f64, 0.8, 0.9]);
                        let wm = f64::min(wi + 0.03, lm * 0.94).max(wi);
                        *e = marginfi_type_crate::types::EmodeEntry {
                            collateral_bank_emode_tag: t,
                            flags: 0,
                            pad0: [0; 5],
                            asset_weight_init: w(wi),
                            asset_weight_maint: w(wm),
                        };
                    }
                    let tx = Tx::one(
                        "genesis",
                        ix::configure_bank_emode(group, admins.emode, b.keys.bank, tags[bi], entries),
                    );
                    // an invalid combination is simply refused; that is not a harness error
                    sim.apply(Event::Tx(tx));
                }
            }
            world.groups.push(GroupInfo {
                key: group,
                admins,
                banks,
            });
        }

        // users
        for _ in 0..cfg.n_users {
            let authority = rng.pubkey();
            set(sim, authority, sys(big));
            let mut tokens = BTreeMap::new();
            let mut maccounts = Vec::new();
            for (gi, g) in world.groups.iter().enumerate() {
                for b in &g.banks {
                    let ta = rng.pubkey();
                    let mint_acc = sim.store.get(&b.keys.mint).unwrap().clone();
                    let bal = user_balance(rng, cfg, b.decimals);
                    set(
                        sim,
                        ta,
                        fixtures::token_account(&b.keys.mint, &mint_acc, &authority, bal),
                    );
                    tokens.insert(b.keys.mint, ta);
                }
                let ma = rng.pubkey();
                let mut i = ix::account_initialize(g.key, ma, authority, payer);
                for m in i.accounts.iter_mut() {
                    if m.pubkey == ma {
                        m.is_signer = true;
                    }
                }
                run(sim, Tx::one("genesis", i))?;
                maccounts.push((gi, ma));
            }
            world.users.push(UserInfo {
                authority,
                maccounts,
                tokens,
            });
        }
        // stranger token accounts (attack destinations) and fee ATAs
        let all: Vec<BankInfo> = world.all_banks().into_iter().cloned().collect();
        for b in &all {
            let mint_acc = sim.store.get(&b.keys.mint).unwrap().clone();
            let ta = rng.pubkey();
            set(
                sim,
                ta,
                fixtures::token_account(&b.keys.mint, &mint_acc, &stranger, 0),
            );
            world.stranger_tokens.insert(b.keys.mint, ta);
            let fee_ata = world.fee_ata(b);
            if sim.store.get(&fee_ata).is_none() {
                set(
                    sim,
                    fee_ata,
                    fixtures::token_account(&b.keys.mint, &mint_acc, &fee_wallet, 0),
                );
            }
        }
        Ok(world)
    }

    #[allow(clippy::too_many_arguments)]
    pub fn add_bank(
        sim: &mut Sim,
        rng: &mut Rng,
        cfg: &WorldCfg,
        world: &World,
        group: Pubkey,
        gi: usize,
        admins: &GroupAdmins,
    ) -> Result<BankInfo, String> {
        let decimals = *rng.pick(&[0u8, 2, 6, 6, 6, 8, 9, 9, 12]);
        let kind = if cfg.allow_t22 && rng.chance(1, 2) {
            if cfg.allow_fee_mints && rng.chance(1, 2) {
                let bps = *rng.pick(&[1u16, 10, 100, 500, 2500]);
                let max_fee = *rng.pick(&[1u64, 1000, 1_000_000, u64::MAX]);
                TokenKind::T22Fee {
                    bps,
                    max_fee,
                    newer_bps: *rng.pick(&[0u16, 5, 200, 1000]),
                    newer_max_fee: *rng.pick(&[10u64, 5_000_000, u64::MAX]),
                    newer_epoch: if rng.chance(1, 2) { 0 } else { rng.range(11, 14) },
                }
            } else {
                TokenKind::T22
            }
        } else {
            TokenKind::Spl
        };
        let mint = rng.pubkey();
        sim.apply(Event::SetAccount {
            key: mint,
            account: Some(fixtures::mint_account(kind, decimals, u64::MAX / 2)),
            why: "genesis",
        });
        let bank = rng.pubkey();
        let keys = BankKeys::new(group, bank, mint, kind.program());
        let isolated = cfg.allow_isolated && rng.chance(1, 4);
        let config = gen_bank_config(rng, cfg, decimals, isolated);
        let oracle = if cfg.allow_fixed && rng.chance(1, 4) {
            OracleKind::Fixed
        } else if cfg.allow_swb && rng.chance(1, 3) {
            OracleKind::Swb
        } else {
            OracleKind::Pyth
        };
        let price_micro = match rng.below(4) {
            0 => rng.range(100, 10_000),                 // < 1 cent
            1 => rng.range(500_000, 2_000_000),          // ~ $1
            2 => rng.range(10_000_000, 300_000_000),     // $10..$300
            _ => rng.range(1_000_000_000, 70_000_000_000), // $1k..$70k
        };
        let expo = -(*rng.pick(&[6i32, 8, 8, 8, 10]));
        let feed_id = rng.pubkey().to_bytes();
        let oracle_key = if oracle == OracleKind::Fixed {
            Pubkey::default()
        } else {
            rng.pubkey()
        };
        match oracle {
            OracleKind::Pyth => {
                let p = pyth_from_micro(price_micro, expo, 10, 0, GENESIS_TIME);
                sim.apply(Event::SetAccount {
                    key: oracle_key,
                    account: Some(fixtures::pyth_account(feed_id, &p)),
                    why: "genesis",
                });
            }
            OracleKind::Swb => {
                let s = swb_from_micro(price_micro, 10, GENESIS_TIME);
                sim.apply(Event::SetAccount {
                    key: oracle_key,
                    account: Some(fixtures::swb_account(&s)),
                    why: "genesis",
                });
            }
            OracleKind::Fixed => {}
        }
        let mut add = ix::add_bank(&keys, admins.admin, world.payer, world.fee_wallet, config);
        for m in add.accounts.iter_mut() {
            if m.pubkey == bank {
                m.is_signer = true;
            }
        }
        let out = sim.apply(Event::Tx(Tx::one("genesis", add))).unwrap();
        if let Err(e) = out.result {
            return Err(format!("genesis add_bank failed: {e:?}"));
        }
        let otx = match oracle {
            OracleKind::Pyth => ix::configure_bank_oracle(
                group,
                admins.admin,
                bank,
                OracleSetup::PythPushOracle as u8,
                oracle_key,
                vec![ix::ro(oracle_key)],
            ),
            OracleKind::Swb => ix::configure_bank_oracle(
                group,
                admins.admin,
                bank,
                OracleSetup::SwitchboardPull as u8,
                oracle_key,
                vec![ix::ro(oracle_key)],
            ),
            OracleKind::Fixed => ix::set_fixed_oracle_price(
                group,
                admins.admin,
                bank,
                w(price_micro as f64 / 1e6),
            ),
        };
        let out = sim.apply(Event::Tx(Tx::one("genesis", otx))).unwrap();
        if let Err(e) = out.result {
            return Err(format!("genesis oracle config failed: {e:?}"));
        }
        Ok(BankInfo {
            keys,
            kind,
            decimals,
            oracle,
            oracle_key,
            feed_id,
            expo,
            price_micro,
            group_index: gi,
            staked: None,
        })
    }

    /// Staked-collateral settings for the group plus one or two LST banks added through the
    /// permissionless path (real instruction; the spl-single-pool accounts are fixtures).
    #[allow(clippy::too_many_arguments)]
    pub fn add_staked_banks(
        sim: &mut Sim,
        rng: &mut Rng,
        cfg: &WorldCfg,
        world: &World,
        group: Pubkey,
        gi: usize,
        admins: &GroupAdmins,
    ) -> Result<Vec<BankInfo>, String> {
        let sol_feed = rng.pubkey();
        let feed_id = rng.pubkey().to_bytes();
        let expo = -8;
        let sol_micro = rng.range(20_000_000, 300_000_000);
        sim.apply(Event::SetAccount {
            key: sol_feed,
            account: Some(fixtures::pyth_account(feed_id, &pyth_from_micro(sol_micro, expo, 10, 0, GENESIS_TIME))),
            why: "genesis",
        });
        let a_i = *rng.pick(&[0.5f64, 0.65, 0.8, 0.9, 1.0]);
        let a_m = f64::min(a_i + *rng.pick(&[0.0f64, 0.05, 0.1]), 1.0);
        let unit = 1_000_000_000u64;
        let settings = marginfi::instructions::StakedSettingsConfig {
            oracle: sol_feed,
            asset_weight_init: w(a_i),
            asset_weight_maint: w(a_m),
            deposit_limit: if cfg.tight_limits && rng.chance(1, 2) { unit * rng.range(1, 100_000) } else { u64::MAX / 4 },
            total_asset_value_init_limit: if cfg.init_limit_caps && rng.chance(1, 2) { rng.range(1, 100_000) } else { 0 },
            oracle_max_age: rng.range(10, 600) as u16,
            risk_tier: RiskTier::Collateral,
        };
        let out = sim
            .apply(Event::Tx(Tx::one("genesis", ix::init_staked_settings(group, admins.admin, world.payer, settings))))
            .unwrap();
        if let Err(e) = out.result {
            return Err(format!("genesis init_staked_settings failed: {e:?}"));
        }
        let mut v = Vec::new();
        for _ in 0..(if rng.chance(1, 3) { 2 } else { 1 }) {
            let stake_pool = rng.pubkey();
            let mint = ix::single_pool_mint_pda(&stake_pool);
            let sol_pool = ix::single_pool_stake_pda(&stake_pool);
            // exchange rate (stake - 1 SOL) / supply between 1.0 and 1.3, any magnitude of pool
            let supply = match cfg.magnitude {
                0 => rng.range(1_000_000, 1_000_000_000_000),
                1 => unit.saturating_mul(rng.range(100, 10_000_000)),
                _ => rng.range(1_000_000_000_000_000, 1_000_000_000_000_000_000),
            };
            let stake = ((supply as u128 * rng.range(1000, 1300) as u128 / 1000) as u64).saturating_add(unit);
            sim.apply(Event::SetAccount {
                key: stake_pool,
                account: Some(Account::new(10_000_000, vec![1u8; 8], marginfi::constants::SPL_SINGLE_POOL_ID)),
                why: "genesis",
            });
            sim.apply(Event::SetAccount {
                key: mint,
                account: Some(fixtures::mint_account(TokenKind::Spl, 9, supply)),
                why: "genesis",
            });
            sim.apply(Event::SetAccount {
                key: sol_pool,
                account: Some(fixtures::stake_account(stake, 2)),
                why: "genesis",
            });
            let seed = rng.below(4);
            let bank = ix::bank_with_seed_pda(&group, &mint, seed);
            let keys = BankKeys::new(group, bank, mint, crate::rt::spl_token_id());
            let add = ix::add_bank_permissionless(&keys, world.payer, stake_pool, sol_pool, seed, sol_feed);
            let out = sim.apply(Event::Tx(Tx::one("genesis", add))).unwrap();
            if let Err(e) = out.result {
                return Err(format!("genesis add_bank_permissionless failed: {e:?}"));
            }
            v.push(BankInfo {
                keys,
                kind: TokenKind::Spl,
                decimals: 9,
                oracle: OracleKind::Pyth,
                oracle_key: sol_feed,
                feed_id,
                expo,
                price_micro: sol_micro,
                group_index: gi,
                staked: Some((stake_pool, sol_pool)),
            });
        }
        Ok(v)
    }
}

pub fn user_balance(rng: &mut Rng, cfg: &WorldCfg, decimals: u8) -> u64 {
    let unit = 10u64.saturating_pow(decimals as u32);
    match cfg.magnitude {
        0 => rng.range(1_000, 1_000_000_000),
        1 => unit.saturating_mul(rng.range(10, 10_000_000)).min(u64::MAX / 64),
        _ => rng.range(1_000_000_000_000_000, 100_000_000_000_000_000),
    }
}
