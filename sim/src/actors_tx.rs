//! TX profile: transaction-shape generators for the flash-loan, receivership and deleverage
//! brackets, with shape faults (missing/misplaced/duplicated start and end, forbidden inner
//! instructions, foreign programs, CPI wrappers, mid-transaction abort).

use crate::actors::*;
use crate::ix;
use crate::model;
use crate::rt::{Ix, Tx};
use crate::sim::{Event, Sim};
use crate::world::risk_metas;
use anchor_lang::prelude::Pubkey;
use fixed::types::I80F48;
use marginfi_type_crate::types::Balance;

fn users_in_group(ctx: &Ctx, gi: usize) -> Vec<(usize, Pubkey)> {
    ctx.world
        .users
        .iter()
        .enumerate()
        .flat_map(|(ui, u)| {
            u.maccounts
                .iter()
                .filter(move |(g, _)| *g == gi)
                .map(move |(_, ma)| (ui, *ma))
        })
        .collect()
}

/// Flash loan: [start(end_idx), inner..., end] with faults on the shape.
pub fn act_flashloan(sim: &mut Sim, ctx: &mut Ctx) -> Option<Tx> {
    let gi = ctx.rng.below(ctx.world.groups.len() as u64) as usize;
    let us = users_in_group(ctx, gi);
    if us.is_empty() {
        return None;
    }
    let (ui, ma) = *ctx.rng.pick(&us);
    let u = ctx.world.users[ui].clone();
    let n_inner = ctx.rng.range(0, 3) as usize;
    let mut inner: Vec<Ix> = Vec::new();
    let mut touched: Vec<Pubkey> = Vec::new();
    for _ in 0..n_inner {
        let b = ctx.rng.pick(&ctx.world.groups[gi].banks).clone();
        let ta = *u.tokens.get(&b.keys.mint)?;
        let vault = token_balance(&sim.store, &b.keys.liquidity_vault);
        let bal = token_balance(&sim.store, &ta);
        match ctx.rng.below(4) {
            0 => {
                inner.push(ix::borrow(&b.keys, ma, u.authority, ta, pick_amount(ctx.rng, vault / 2 + 1), vec![]));
                touched.push(b.keys.bank);
            }
            1 => {
                inner.push(ix::deposit(&b.keys, ma, u.authority, ta, pick_amount(ctx.rng, bal / 4 + 1), None));
                touched.push(b.keys.bank);
            }
            2 => {
                let all = ctx.rng.chance(1, 3);
                inner.push(ix::repay(&b.keys, ma, u.authority, ta, pick_amount(ctx.rng, bal / 4 + 1), if all { Some(true) } else { None }));
            }
            _ => {
                inner.push(ix::withdraw(&b.keys, ma, u.authority, ta, pick_amount(ctx.rng, vault / 2 + 1), None, vec![]));
            }
        }
    }
    // risk accounts for the end: current positions plus every bank an inner ix may open
    let mut end_metas_banks: Vec<Pubkey> = model::account_of(&sim.store, &ma)
        .map(|a| active_balances(&a).iter().map(|b| b.bank_pk).collect())
        .unwrap_or_default();
    for t in &touched {
        if !end_metas_banks.contains(t) {
            end_metas_banks.push(*t);
        }
    }
    end_metas_banks.sort_by(|a, b| b.cmp(a));
    let mut end_metas = Vec::new();
    for bk in &end_metas_banks {
        end_metas.push(ix::ro(*bk));
        if let Some(bank) = model::bank_of(&sim.store, bk) {
            end_metas.extend(crate::world::oracle_metas_for(&bank));
        }
    }
    let mut ixs: Vec<Ix> = Vec::new();
    if ctx.rng.chance(1, 4) {
        ixs.push(ix::compute_budget());
    }
    let start_pos = ixs.len();
    let end_pos = start_pos + 1 + inner.len();
    ixs.push(ix::start_flashloan(ma, u.authority, end_pos as u64));
    ixs.extend(inner);
    ixs.push(ix::end_flashloan(ma, u.authority, end_metas.clone()));
    // shape faults
    match ctx.rng.below(21) {
        16 => {
            // the named "end" is a look-alike: a foreign program's instruction carrying the
            // end_flashloan discriminator and this account first - no real end anywhere
            ixs.pop();
            let n = ixs.len();
            let fake = ix::end_flashloan(ma, u.authority, vec![]);
            ixs.push(Ix {
                program_id: ctx.world.allowed_foreign,
                accounts: vec![ix::ro(ma)],
                data: fake.data.clone(),
                wrapper: None,
                tag: "allowed_foreign",
            });
            ixs[start_pos] = ix::start_flashloan(ma, u.authority, n as u64);
            sim.stats.fault("tx_flashloan_end_is_foreign_lookalike");
        }
        17 => {
            // the named "end" is another instruction of this program with the account first
            ixs.pop();
            let n = ixs.len();
            ixs.push(ix::pulse_health(ma, end_metas.clone()));
            ixs[start_pos] = ix::start_flashloan(ma, u.authority, n as u64);
            sim.stats.fault("tx_flashloan_end_is_other_marginfi_ix");
        }
        11 => {
            // an end that closes nothing: no start at all (optionally keep harmless inner ixs out)
            ixs.truncate(start_pos);
            ixs.push(ix::end_flashloan(ma, u.authority, end_metas.clone()));
            sim.stats.fault("tx_flashloan_end_without_start");
        }
        12 => {
            // a second end after the bracket has been closed
            ixs.push(ix::end_flashloan(ma, u.authority, end_metas.clone()));
            sim.stats.fault("tx_flashloan_duplicate_end");
        }
        0 => {
            // end index pointing at itself / before / out of range / a non-end ix
            let n_ix = ixs.len() as u64;
            let bad = *ctx.rng.pick(&[start_pos as u64, 0, 99, (start_pos + 1) as u64, u64::MAX, (1u64 << 16) + n_ix - 1, (1u64 << 32) + n_ix - 1, u16::MAX as u64, u32::MAX as u64]);
            ixs[start_pos] = ix::start_flashloan(ma, u.authority, bad);
            sim.stats.fault("tx_flashloan_bad_end_index");
        }
        1 => {
            ixs.pop();
            sim.stats.fault("tx_flashloan_missing_end");
        }
        2 => {
            // end belongs to another account; sometimes the started account is merely *mentioned*
            // among the end's remaining accounts
            if let Some((oui, oma)) = us.iter().find(|(x, _)| *x != ui) {
                let n = ixs.len();
                let mut rem = if ctx.rng.chance(1, 2) { risk_metas(&sim.store, oma, None, None) } else { vec![] };
                if ctx.rng.chance(2, 3) {
                    rem.push(ix::ro(ma));
                    sim.stats.fault("tx_flashloan_end_other_account_mentions_started_one");
                }
                ixs[n - 1] = ix::end_flashloan(*oma, ctx.world.users[*oui].authority, rem);
                sim.stats.fault("tx_flashloan_end_other_account");
            }
        }
        3 => {
            // nested start
            let n = ixs.len();
            ixs.insert(start_pos + 1, ix::start_flashloan(ma, u.authority, n as u64));
            ixs[start_pos] = ix::start_flashloan(ma, u.authority, n as u64);
            sim.stats.fault("tx_flashloan_nested_start");
        }
        4 => {
            ixs[start_pos].wrapper = Some(ctx.world.bad_foreign);
            sim.stats.fault("tx_flashloan_start_via_cpi");
        }
        18 => {
            // an end reached through a wrapper CPI in the middle of the bracket (while the account
            // is still healthy), then a fresh start: the named top-level end is genuine, so only
            // the end handler's own CPI refusal stands in the way
            let mut cpi_end = ix::end_flashloan(ma, u.authority, risk_metas(&sim.store, &ma, None, None));
            cpi_end.wrapper = Some(ctx.world.bad_foreign);
            ixs.insert(start_pos + 1, cpi_end);
            ixs.insert(start_pos + 2, ix::start_flashloan(ma, u.authority, 0));
            let n = ixs.len();
            ixs[start_pos] = ix::start_flashloan(ma, u.authority, (n - 1) as u64);
            ixs[start_pos + 2] = ix::start_flashloan(ma, u.authority, (n - 1) as u64);
            sim.stats.fault("tx_flashloan_cpi_end_mid_bracket_then_restart");
        }
        5 => {
            let n = ixs.len();
            ixs[n - 1].wrapper = Some(ctx.world.bad_foreign);
            sim.stats.fault("tx_flashloan_end_via_cpi");
        }
        6 => {
            // liquidation / bankruptcy aimed at the flagged account, inside the bracket
            let g = &ctx.world.groups[gi];
            if let Some(acc) = model::account_of(&sim.store, &ma) {
                if let Some(bal) = active_balances(&acc).first() {
                    if let Some(b) = ctx.world.bank_info(&bal.bank_pk) {
                        let rm = risk_metas(&sim.store, &ma, None, None);
                        ixs.insert(start_pos + 1, ix::handle_bankruptcy(&b.keys, g.admins.risk, ma, rm));
                        // keep the named end index pointing at the end
                        let n = ixs.len();
                        ixs[start_pos] = ix::start_flashloan(ma, u.authority, (n - 1) as u64);
                        sim.stats.fault("tx_flashloan_bankruptcy_inside");
                    }
                }
            }
        }
        13 | 14 => {
            // the account is transferred to a new one INSIDE the bracket (keypair or PDA variant):
            // the flag must not travel to the new account, and the end named by the start closes
            // the old one
            let g = ctx.world.groups[gi].clone();
            let pda = ctx.rng.chance(1, 2);
            let t = if pda {
                let index = ctx.rng.range(9, 200) as u16;
                let new = ix::account_pda(&g.key, &u.authority, index, None);
                ix::transfer_to_new_account_pda(g.key, ma, new, u.authority, ctx.world.payer, u.authority, ctx.world.fee_wallet, index, None)
            } else {
                let new = ctx.rng.pubkey();
                let mut t = ix::transfer_to_new_account(g.key, ma, new, u.authority, ctx.world.payer, u.authority, ctx.world.fee_wallet);
                for m in t.accounts.iter_mut() {
                    if m.pubkey == new {
                        m.is_signer = true;
                    }
                }
                t
            };
            let n = ixs.len();
            ixs.insert(n - 1, t);
            let n = ixs.len();
            ixs[start_pos] = ix::start_flashloan(ma, u.authority, (n - 1) as u64);
            // the end's risk list: the old account is empty by then
            if ctx.rng.chance(1, 2) {
                ixs[n - 1] = ix::end_flashloan(ma, u.authority, vec![]);
            }
            sim.stats.fault("tx_flashloan_account_transferred_inside_bracket");
        }
        7 => {
            // abort in the middle: a failing foreign instruction
            let pos = ctx.rng.range(start_pos as u64 + 1, ixs.len() as u64) as usize;
            ixs.insert(pos, Ix::foreign("failing_foreign", ctx.world.failing_foreign, vec![0; 8]));
            sim.stats.fault("tx_abort_inside_bracket");
        }
        9 | 10 => {
            // a genuine end for this account placed BEFORE the start, which names it
            let pos = start_pos;
            ixs.insert(pos, ix::end_flashloan(ma, u.authority, end_metas.clone()));
            // start is now at pos + 1 and names the earlier end
            ixs[pos + 1] = ix::start_flashloan(ma, u.authority, pos as u64);
            if ctx.rng.chance(1, 2) {
                ixs.pop(); // no closing end at all
            }
            if ctx.rng.chance(1, 3) {
                // ... and the start names that earlier end through an index that only matches it
                // modulo 2^16 (or 2^32): far out of range, must be refused like any other
                let wrap = *ctx.rng.pick(&[1u64 << 16, 3u64 << 16, 1u64 << 32, (1u64 << 32) + (1u64 << 16)]);
                ixs[pos + 1] = ix::start_flashloan(ma, u.authority, wrap + pos as u64);
                sim.stats.fault("tx_flashloan_end_index_wraps_to_earlier_end");
            }
            sim.stats.fault("tx_flashloan_end_before_start");
        }
        8 => {
            // end points at a foreign program's instruction
            let n = ixs.len();
            ixs.push(Ix::foreign("allowed_foreign", ctx.world.allowed_foreign, vec![1; 8]));
            ixs[start_pos] = ix::start_flashloan(ma, u.authority, n as u64);
            sim.stats.fault("tx_flashloan_end_index_foreign");
        }
        _ => {}
    }
    Some(Tx::many("flash_user", ixs))
}

#[derive(Clone, Copy, PartialEq, Eq)]
pub enum BracketKind {
    Liquidation,
    Deleverage,
}

/// Receivership / deleverage bracket around an account (preferably one Ref considers unhealthy).
pub fn act_bracket(sim: &mut Sim, ctx: &mut Ctx, kind: BracketKind) -> Option<Tx> {
    // candidates: accounts with both a deposit and a debt
    let mut cands: Vec<(usize, usize, Pubkey, bool)> = Vec::new();
    for (ui, u) in ctx.world.users.iter().enumerate() {
        for (gi, ma) in &u.maccounts {
            let Some(acc) = model::account_of(&sim.store, ma) else { continue };
            let bals = active_balances(&acc);
            let has_l = bals.iter().any(|b| i80(b.liability_shares) >= I80F48::ONE);
            let has_a = bals.iter().any(|b| i80(b.asset_shares) >= I80F48::ONE);
            if !(has_l && has_a) {
                continue;
            }
            let unhealthy = crate::refm::health(&sim.store, &acc, crate::refm::Req::Maint, sim.clock)
                .map(|h| h.net() < model::qi(0))
                .unwrap_or(false);
            cands.push((ui, *gi, *ma, unhealthy));
        }
    }
    if cands.is_empty() {
        return None;
    }
    if !cands.iter().any(|c| c.3) && ctx.rng.chance(3, 4) {
        act_make_unhealthy(sim, ctx);
        for c in cands.iter_mut() {
            if let Some(acc) = model::account_of(&sim.store, &c.2) {
                c.3 = crate::refm::health(&sim.store, &acc, crate::refm::Req::Maint, sim.clock)
                    .map(|h| h.net() < model::qi(0))
                    .unwrap_or(false);
            }
        }
    }
    let unhealthy: Vec<_> = cands.iter().filter(|c| c.3).cloned().collect();
    let (lui, gi, target, _) = if !unhealthy.is_empty() && ctx.rng.chance(4, 5) {
        *ctx.rng.pick(&unhealthy)
    } else {
        *ctx.rng.pick(&cands)
    };
    let g = ctx.world.groups[gi].clone();
    // the receiver: another user (liquidation) or the risk admin acting with a user's tokens
    let others: Vec<usize> = (0..ctx.world.users.len()).filter(|x| *x != lui).collect();
    if others.is_empty() {
        return None;
    }
    let rui = *ctx.rng.pick(&others);
    let ruser = ctx.world.users[rui].clone();
    let receiver = match kind {
        BracketKind::Liquidation => ruser.authority,
        BracketKind::Deleverage => g.admins.risk,
    };
    let acc = model::account_of(&sim.store, &target)?;
    let bals = active_balances(&acc);
    let assets: Vec<Balance> = bals.iter().filter(|b| i80(b.asset_shares) >= I80F48::ONE).cloned().collect();
    let liabs: Vec<Balance> = bals.iter().filter(|b| i80(b.liability_shares) >= I80F48::ONE).cloned().collect();
    let ab = ctx.rng.pick(&assets).clone();
    let lb = ctx.rng.pick(&liabs).clone();
    let a_info = ctx.world.bank_info(&ab.bank_pk)?.clone();
    let l_info = ctx.world.bank_info(&lb.bank_pk)?.clone();
    // tiny account: the collateral's price is set so that the account's unweighted assets are
    // worth a few dollars - just above the five-dollar close-out threshold (where the premium and
    // end-health rules still apply) or just below it (where they do not)
    let mut tiny = false;
    if ctx.rng.chance(1, 5) && assets.len() == 1 && a_info.oracle != crate::world::OracleKind::Fixed && a_info.staked.is_none() {
        if let Some(bank) = model::bank_of(&sim.store, &ab.bank_pk) {
            use num_traits::ToPrimitive;
            let amount = model::q_w(ab.asset_shares) * model::q_w(bank.asset_share_value) / model::pow10(bank.mint_decimals as u32);
            let target_cents = *ctx.rng.pick(&[420u64, 505, 560, 640, 780, 950]);
            if amount > model::qi(0) {
                let np = (model::qu(target_cents) * model::qu(10_000) / amount).floor().to_integer().to_u64().unwrap_or(0);
                if np >= 1 {
                    let now = sim.clock.unix_timestamp;
                    if let Some(info) = ctx.world.bank_info_mut(&ab.bank_pk) {
                        info.price_micro = np;
                        let ev = match info.oracle {
                            crate::world::OracleKind::Pyth => Event::SetAccount { key: info.oracle_key, account: Some(crate::fixtures::pyth_account(info.feed_id, &crate::world::pyth_from_micro(np, info.expo.min(-8), 0, 0, now))), why: "oracle_jump" },
                            _ => Event::SetAccount { key: info.oracle_key, account: Some(crate::fixtures::swb_account(&crate::world::swb_from_micro(np, 0, now))), why: "oracle_jump" },
                        };
                        sim.apply(ev);
                        sim.stats.fault("tx_bracket_tiny_account");
                        tiny = true;
                    }
                }
            }
        }
    }
    // operator churn aimed at the bracket: the bank about to be seized from was switched to
    // reduce-only after the deposit (its collateral then counts for nothing towards NEW borrowing,
    // but fully for liquidation purposes - seizing it is still seizing value)
    if ctx.rng.chance(1, 6) && !a_info.keys.bank.eq(&l_info.keys.bank) {
        let opt = marginfi_type_crate::types::BankConfigOpt {
            operational_state: Some(marginfi_type_crate::types::BankOperationalState::ReduceOnly),
            ..Default::default()
        };
        let o = sim.apply(Event::Tx(Tx::one("group_admin", ix::configure_bank(g.key, g.admins.admin, a_info.keys.bank, opt))));
        if o.map(|o| o.ok()).unwrap_or(false) {
            sim.stats.fault("tx_bracket_seized_bank_made_reduce_only");
        }
    }
    // ... or was given a collateral-value cap far below its deposits (the cap scales what the
    // collateral counts for towards NEW borrowing only - seizing it is still seizing its full value)
    if ctx.rng.chance(1, 6) {
        if let Some(lim) = a_info.keys.bank.ne(&l_info.keys.bank).then(|| *ctx.rng.pick(&[1u64, 5, 100])) {
            let o = sim.apply(Event::Tx(Tx::one("limit_admin", ix::configure_bank_limits_only(g.key, g.admins.limit, a_info.keys.bank, None, None, Some(lim)))));
            if o.map(|o| o.ok()).unwrap_or(false) {
                sim.stats.fault("tx_bracket_seized_bank_capped");
            }
        }
    }
    // ... or is a bank whose token-less wind-down was declared complete (its deposits are still
    // worth what the oracle says: a forced deleverage withdrawal from it counts towards the limit)
    if kind == BracketKind::Deleverage && ctx.rng.chance(1, 5) && a_info.keys.bank != l_info.keys.bank {
        let opt = marginfi_type_crate::types::BankConfigOpt { tokenless_repayments_allowed: Some(true), ..Default::default() };
        sim.apply(Event::Tx(Tx::one("group_admin", ix::configure_bank(g.key, g.admins.admin, a_info.keys.bank, opt))));
        let o = sim.apply(Event::Tx(Tx::one("risk_admin", ix::force_tokenless_repay_complete(g.key, g.admins.risk, a_info.keys.bank))));
        if o.map(|o| o.ok()).unwrap_or(false) {
            sim.stats.fault("tx_bracket_seized_bank_tokenless_complete");
        }
    }
    let a_bank = model::bank_of(&sim.store, &ab.bank_pk)?;
    let l_bank = model::bank_of(&sim.store, &lb.bank_pk)?;
    let debt = liab_amount_u64(&l_bank, &lb);
    let coll = asset_amount_u64(&a_bank, &ab);
    // token accounts used for the swap legs: for deleverage the risk admin signs but uses the
    // other user's token accounts only as destination; repay source must be owned by the signer,
    // so give the risk admin its own token accounts on demand
    let (dst_ta, src_ta) = match kind {
        BracketKind::Liquidation => (*ruser.tokens.get(&a_info.keys.mint)?, *ruser.tokens.get(&l_info.keys.mint)?),
        BracketKind::Deleverage => {
            let dst = *ruser.tokens.get(&a_info.keys.mint)?;
            // risk admin's funding account for the debt mint (created lazily as a fixture)
            let key = Pubkey::new_from_array({
                let mut b = g.admins.risk.to_bytes();
                let m = l_info.keys.mint.to_bytes();
                for i in 0..32 {
                    b[i] ^= m[i].rotate_left(3);
                }
                b
            });
            if sim.store.get(&key).is_none() {
                let mint_acc = sim.store.get(&l_info.keys.mint)?.clone();
                sim.apply(Event::SetAccount {
                    key,
                    account: Some(crate::fixtures::token_account(&l_info.keys.mint, &mint_acc, &g.admins.risk, debt.saturating_mul(2).saturating_add(1_000_000))),
                    why: "fixture_risk_admin_funding",
                });
            }
            (dst, key)
        }
    };
    let rm = risk_metas(&sim.store, &target, None, None);
    let mut repay_amt = pick_amount(ctx.rng, debt.max(1));
    if tiny {
        // repay a dollar or two, so that the seizure sized from it stays within the few dollars
        // of collateral there are
        use num_traits::ToPrimitive;
        if let Ok(vl) = crate::refm::read_oracle(&sim.store, &l_bank, sim.clock) {
            if vl.ema.price > model::qi(0) {
                let dollars = model::qr(*ctx.rng.pick(&[100i128, 150, 200, 300]), 100);
                let amt = (dollars * model::pow10(l_bank.mint_decimals as u32) / &vl.ema.price).floor().to_integer().to_u64().unwrap_or(1);
                repay_amt = amt.clamp(1, debt.max(1));
            }
        }
    }
    // value-matched withdrawal around the premium boundary (rough; C10 judges by Ref)
    let est_w = {
        let va = crate::refm::read_oracle(&sim.store, &a_bank, sim.clock).ok();
        let vl = crate::refm::read_oracle(&sim.store, &l_bank, sim.clock).ok();
        match (va, vl) {
            (Some(va), Some(vl)) if va.ema.price > model::qi(0) => {
                let rv = model::qu(repay_amt) * &vl.ema.price / model::pow10(l_bank.mint_decimals as u32);
                let prem = *ctx.rng.pick(&[100u64, 103, 105, 106, 110, 126, 200]);
                let w = rv * model::qu(prem) / model::qu(100) * model::pow10(a_bank.mint_decimals as u32) / &va.ema.price;
                use num_traits::ToPrimitive;
                w.floor().to_integer().to_u64().unwrap_or(coll).min(coll.saturating_add(1))
            }
            _ => pick_amount(ctx.rng, coll),
        }
    };
    let w_amt = est_w.max(1);
    // deleverage daily-limit drill: put the group's limit right around the whole-dollar value of
    // the planned withdrawal and, half of the time, let a day pass so that this withdrawal is the
    // one that opens a new window
    if kind == BracketKind::Deleverage && ctx.rng.chance(2, 5) {
        let low = crate::refm::read_oracle(&sim.store, &a_bank, sim.clock)
            .ok()
            .and_then(|v| crate::refm::biased(&v, &a_bank, false).ok())
            .map(|(low, _, _)| low);
        if let Some(low) = low {
            use num_traits::ToPrimitive;
            let dollars = (model::qu(w_amt) * low / model::pow10(a_bank.mint_decimals as u32)).floor().to_integer().to_u64().unwrap_or(0);
            let lim = match ctx.rng.below(5) {
                0 => dollars.saturating_sub(1),
                1 => dollars,
                2 => dollars.saturating_add(1),
                3 => dollars / 2,
                _ => dollars.saturating_mul(3),
            }
            .clamp(1, u32::MAX as u64) as u32;
            sim.stats.fault("deleverage_limit_set_near_withdrawal_value");
            sim.apply(Event::Tx(Tx::one("group_admin", ix::configure_deleverage_withdrawal_limit(g.key, g.admins.admin, lim))));
            if ctx.rng.chance(1, 2) {
                let dt = 86_400 + ctx.rng.irange(-1, 3);
                sim.stats.fault("deleverage_day_boundary_advance");
                sim.apply(Event::Advance { dt, dslot: dt as u64 * 2, depoch: 0 });
                let mut f = Vec::new();
                let evs = act_oracle_publish(sim, ctx, &mut f);
                for e in evs {
                    sim.apply(e);
                }
            }
        }
    }
    let has_record = acc.liquidation_record != Pubkey::default();
    let mut ixs: Vec<Ix> = Vec::new();
    if ctx.rng.chance(1, 3) {
        ixs.push(ix::compute_budget());
    }
    if !has_record || ctx.rng.chance(1, 10) {
        ixs.push(ix::init_liq_record(target, ctx.world.payer));
    }
    let mut start_pos = ixs.len();
    let start = match kind {
        BracketKind::Liquidation => ix::start_liquidation(target, receiver, rm.clone()),
        BracketKind::Deleverage => ix::start_deleverage(g.key, target, receiver, rm.clone()),
    };
    ixs.push(start.clone());
    let mut body: Vec<Ix> = Vec::new();
    let w_ix = ix::withdraw(&a_info.keys, target, receiver, dst_ta, w_amt, None, rm.clone());
    // token-less write-off (sanctioned exception): the debt bank is flagged for it by the group
    // admin and the risk admin repays "all" with nothing
    let mut repay_all = None;
    if kind == BracketKind::Deleverage && ctx.rng.chance(1, 4) {
        let opt = marginfi_type_crate::types::BankConfigOpt {
            tokenless_repayments_allowed: Some(true),
            ..Default::default()
        };
        sim.stats.fault("deleverage_tokenless_writeoff_attempt");
        sim.apply(Event::Tx(Tx::one("group_admin", ix::configure_bank(g.key, g.admins.admin, lb.bank_pk, opt))));
        if ctx.rng.chance(1, 3) {
            // wind-down declared complete, then the bank is re-opened (flag withdrawn): a
            // "repay all" by the risk admin must from now on bring tokens like anybody's
            sim.stats.fault("deleverage_tokenless_flag_withdrawn_again");
            sim.apply(Event::Tx(Tx::one("risk_admin", ix::force_tokenless_repay_complete(g.key, g.admins.risk, lb.bank_pk))));
            let off = marginfi_type_crate::types::BankConfigOpt {
                tokenless_repayments_allowed: Some(false),
                ..Default::default()
            };
            sim.apply(Event::Tx(Tx::one("group_admin", ix::configure_bank(g.key, g.admins.admin, lb.bank_pk, off))));
        }
        repay_all = Some(true);
    }
    let r_ix = ix::repay(&l_info.keys, target, receiver, src_ta, repay_amt, repay_all);
    match ctx.rng.below(6) {
        0 => body.push(r_ix.clone()),
        1 => body.push(w_ix.clone()),
        2 => {
            body.push(w_ix.clone());
            body.push(r_ix.clone());
        }
        _ => {
            body.push(r_ix.clone());
            body.push(w_ix.clone());
        }
    }
    if ctx.rng.chance(1, 4) {
        body.insert(
            ctx.rng.below(body.len() as u64 + 1) as usize,
            Ix::foreign("allowed_foreign", ctx.world.allowed_foreign, vec![7; 8]),
        );
    }
    ixs.extend(body);
    let end = match kind {
        BracketKind::Liquidation => ix::end_liquidation(target, receiver, ctx.world.fee_wallet, rm.clone()),
        BracketKind::Deleverage => ix::end_deleverage(g.key, target, receiver, rm.clone()),
    };
    ixs.push(end.clone());
    // drill: a forced wind-down while the group has NO daily limit yet, then the group admin
    // configures one (about the value just withdrawn), then the same bracket again within the day:
    // what was withdrawn before the limit existed still belongs to that day
    if kind == BracketKind::Deleverage && ctx.rng.chance(4, 5) {
        let lim0 = model::group_of(&sim.store, &g.key).map(|x| x.deleverage_withdraw_window_cache.daily_limit).unwrap_or(1);
        let low = crate::refm::read_oracle(&sim.store, &a_bank, sim.clock)
            .ok()
            .and_then(|v| crate::refm::biased(&v, &a_bank, false).ok())
            .map(|(low, _, _)| low);
        if let (0, Some(low)) = (lim0, low) {
            let v0 = token_balance(&sim.store, &a_info.keys.liquidity_vault);
            let o = sim.apply(Event::Tx(Tx::many("risk_admin", ixs.clone())));
            if sim.violated() && sim.stop_on_violation {
                return None;
            }
            if o.map(|o| o.ok()).unwrap_or(false) {
                use num_traits::ToPrimitive;
                let out = v0.saturating_sub(token_balance(&sim.store, &a_info.keys.liquidity_vault));
                let dollars = (model::qu(out) * low / model::pow10(a_bank.mint_decimals as u32)).floor().to_integer().to_u64().unwrap_or(0);
                if dollars >= 4 {
                    let lim = dollars.clamp(1, u32::MAX as u64) as u32;
                    sim.stats.fault("deleverage_limit_configured_after_unlimited_withdrawal");
                    sim.apply(Event::Tx(Tx::one("group_admin", ix::configure_deleverage_withdrawal_limit(g.key, g.admins.admin, lim))));
                    // the same bracket again, at once (refused for the limit on a correct program)
                    // (the liquidation record exists by now)
                    ixs.retain(|x| x.tag != "init_liq_record");
                    start_pos = ixs.iter().position(|x| x.tag == start.tag).unwrap_or(0);
                    let o2 = sim.apply(Event::Tx(Tx::many("risk_admin", ixs.clone())));
                    if sim.violated() && sim.stop_on_violation {
                        return None;
                    }
                }
            }
        }
    }
    // shape faults
    match ctx.rng.below(24) {
        0 => {
            ixs.remove(start_pos);
            sim.stats.fault("tx_bracket_missing_start");
        }
        1 => {
            ixs.pop();
            sim.stats.fault("tx_bracket_missing_end");
        }
        2 => {
            let mut again = start.clone();
            if ctx.rng.chance(1, 3) {
                // the argument-less start followed by trailing bytes (the framework ignores them)
                again.data.extend(vec![0u8; *ctx.rng.pick(&[1usize, 8])]);
                sim.stats.fault("tx_bracket_start_with_trailing_bytes");
            }
            ixs.insert(start_pos + 1, again);
            if ctx.rng.chance(1, 2) {
                let len = *ctx.rng.pick(&[0usize, 1, 4, 7, 8]);
                ixs.insert(start_pos + 1, Ix::foreign("allowed_foreign", ctx.world.allowed_foreign, vec![3; len]));
            }
            sim.stats.fault("tx_bracket_repeated_start");
        }
        3 => {
            // something before the start: a marginfi instruction, or an allowed foreign program's
            // instruction with short (0/1/4-byte) or ordinary data
            if ctx.rng.chance(1, 2) {
                ixs.insert(start_pos, r_ix.clone());
            } else {
                let len = *ctx.rng.pick(&[0usize, 1, 4, 8, 16]);
                ixs.insert(start_pos, Ix::foreign("allowed_foreign", ctx.world.allowed_foreign, vec![1; len]));
            }
            sim.stats.fault("tx_bracket_start_not_first");
        }
        4 => {
            // something after the end
            ixs.push(w_ix.clone());
            sim.stats.fault("tx_bracket_end_not_last");
        }
        5 => {
            // forbidden instruction inside
            let b = ctx.rng.pick(&ctx.world.groups[gi].banks).clone();
            let ta = ruser.tokens.get(&b.keys.mint).cloned()?;
            let forbidden = match ctx.rng.below(3) {
                0 => ix::deposit(&b.keys, target, receiver, ta, 5, None),
                1 => ix::borrow(&b.keys, target, receiver, ta, 5, rm.clone()),
                _ => ix::start_flashloan(target, receiver, 9),
            };
            ixs.insert(start_pos + 1, forbidden);
            sim.stats.fault("tx_bracket_forbidden_ix");
        }
        6 => {
            ixs[start_pos].wrapper = Some(ctx.world.allowed_foreign);
            sim.stats.fault("tx_bracket_start_via_cpi");
        }
        7 => {
            let n = ixs.len();
            ixs[n - 1].wrapper = Some(ctx.world.allowed_foreign);
            sim.stats.fault("tx_bracket_end_via_cpi");
        }
        8 => {
            ixs.insert(start_pos + 1, Ix::foreign("bad_foreign", ctx.world.bad_foreign, vec![3; 8]));
            sim.stats.fault("tx_bracket_unlisted_program");
        }
        9 => {
            let pos = ctx.rng.range(start_pos as u64 + 1, ixs.len() as u64 - 1) as usize;
            // an *allowed* program that fails: the bracket is valid, the transaction aborts
            ixs.insert(pos, Ix::foreign("failing_foreign", marginfi::constants::TITAN_KEY, vec![0; 8]));
            sim.stats.fault("tx_abort_inside_bracket");
        }
        10 => {
            // mismatched end kind
            let n = ixs.len();
            ixs[n - 1] = match kind {
                BracketKind::Liquidation => ix::end_deleverage(g.key, target, g.admins.risk, rm.clone()),
                BracketKind::Deleverage => ix::end_liquidation(target, receiver, ctx.world.fee_wallet, rm.clone()),
            };
            sim.stats.fault("tx_bracket_mismatched_end");
        }
        11 => {
            // act on a *different* account that is not in receivership, as the receiver
            if let Some((_, _, other, _)) = cands.iter().find(|c| c.2 != target && c.1 == gi) {
                let orm = risk_metas(&sim.store, other, None, None);
                ixs.insert(start_pos + 1, ix::withdraw(&a_info.keys, *other, receiver, dst_ta, 1, None, orm));
                sim.stats.fault("tx_bracket_withdraw_other_account");
            }
        }
        12 => {
            // inner withdraw reached through a wrapper CPI (allowed by the program; judged by end state)
            if ixs.len() > start_pos + 2 {
                ixs[start_pos + 1].wrapper = Some(ctx.world.allowed_foreign);
                sim.stats.fault("tx_bracket_inner_via_cpi");
            }
        }
        14 | 15 | 19 => {
            // a second start for ANOTHER account (made unhealthy first); the single end closes
            // only one of the two brackets
            if let Some((_, _, other, _)) = cands.iter().find(|c| c.2 != target && c.1 == gi).cloned() {
                make_unhealthy_target(sim, ctx, Some(other));
                let orm = risk_metas(&sim.store, &other, None, None);
                let other_has_record = model::account_of(&sim.store, &other).map(|a| a.liquidation_record != Pubkey::default()).unwrap_or(false);
                let second = match kind {
                    BracketKind::Liquidation => ix::start_liquidation(other, receiver, orm.clone()),
                    BracketKind::Deleverage => ix::start_deleverage(g.key, other, receiver, orm.clone()),
                };
                let which = ctx.rng.below(2);
                let mut second = second;
                if ctx.rng.chance(1, 2) {
                    second.data.extend(vec![0u8; *ctx.rng.pick(&[1usize, 8])]);
                    sim.stats.fault("tx_bracket_start_with_trailing_bytes");
                }
                ixs.insert(start_pos + 1, second);
                if ctx.rng.chance(1, 2) {
                    // ... hidden behind a neutral instruction (short or ordinary data)
                    let len = *ctx.rng.pick(&[0usize, 1, 4, 7, 8]);
                    ixs.insert(start_pos + 1, Ix::foreign("allowed_foreign", ctx.world.allowed_foreign, vec![3; len]));
                    sim.stats.fault("tx_bracket_second_start_behind_neutral_instruction");
                }
                if !other_has_record {
                    ixs.insert(start_pos, ix::init_liq_record(other, ctx.world.payer));
                }
                if which == 1 {
                    let n = ixs.len();
                    ixs[n - 1] = match kind {
                        BracketKind::Liquidation => ix::end_liquidation(other, receiver, ctx.world.fee_wallet, orm),
                        BracketKind::Deleverage => ix::end_deleverage(g.key, other, receiver, orm),
                    };
                }
                sim.stats.fault("tx_bracket_second_start_other_account");
            }
        }
        16 => {
            // a second end after the bracket has been closed
            ixs.push(end.clone());
            sim.stats.fault("tx_bracket_duplicate_end");
        }
        17 => {
            // the last instruction is a foreign look-alike of the end (same data, same accounts)
            let n = ixs.len();
            let mut fake = end.clone();
            fake.program_id = ctx.world.allowed_foreign;
            fake.tag = "allowed_foreign";
            for m in fake.accounts.iter_mut() {
                m.is_signer = false;
                m.is_writable = false;
            }
            ixs[n - 1] = fake;
            sim.stats.fault("tx_bracket_end_is_foreign_lookalike");
        }
        18 => {
            // the last instruction is another instruction of this program on the same account
            let n = ixs.len();
            ixs[n - 1] = ix::pulse_health(target, rm.clone());
            sim.stats.fault("tx_bracket_end_is_other_marginfi_ix");
        }
        13 => {
            // a third party (not the receiver) signs the end
            let n = ixs.len();
            if kind == BracketKind::Liquidation {
                ixs[n - 1] = ix::end_liquidation(target, ctx.world.stranger, ctx.world.fee_wallet, rm.clone());
                sim.stats.fault("tx_bracket_end_by_other_signer");
            }
        }
        _ => {}
    }
    // whatever the shape: sometimes a neutral instruction (an allowed foreign program's instruction
    // with short or ordinary data, a compute-budget instruction) lands at a random position -
    // between two starts, between start and the first withdraw, right before the end.  A shape
    // check that stops scanning at such an instruction is only visible this way.
    if ixs.len() >= 2 && ctx.rng.chance(1, 4) {
        let pos = ctx.rng.range(1, ixs.len() as u64 - 1) as usize;
        let neutral = if ctx.rng.chance(1, 4) {
            ix::compute_budget()
        } else {
            let len = *ctx.rng.pick(&[0usize, 1, 4, 7, 8, 16]);
            Ix::foreign("allowed_foreign", ctx.world.allowed_foreign, vec![3; len])
        };
        ixs.insert(pos, neutral);
        sim.stats.fault("tx_bracket_neutral_instruction_inserted");
    }
    Some(Tx::many(
        match kind {
            BracketKind::Liquidation => "receiver",
            BracketKind::Deleverage => "risk_admin",
        },
        ixs,
    ))
}

/// Make some indebted account unhealthy: crash the price of one of its collateral banks (or
/// spike the price of one of its debt banks) far enough that Ref maintenance health is negative.
pub fn act_make_unhealthy(sim: &mut Sim, ctx: &mut Ctx) {
    make_unhealthy_target(sim, ctx, None)
}

pub fn make_unhealthy_target(sim: &mut Sim, ctx: &mut Ctx, only: Option<Pubkey>) {
    let mut cands: Vec<(Pubkey, Pubkey)> = Vec::new();
    for u in ctx.world.users.iter() {
        for (_, ma) in &u.maccounts {
            let Some(acc) = model::account_of(&sim.store, ma) else { continue };
            let bals = active_balances(&acc);
            if !bals.iter().any(|b| i80(b.liability_shares) >= I80F48::ONE) {
                continue;
            }
            if only.map(|o| o != *ma).unwrap_or(false) {
                continue;
            }
            for b in bals.iter().filter(|b| i80(b.asset_shares) >= I80F48::ONE) {
                cands.push((*ma, b.bank_pk));
            }
        }
    }
    if cands.is_empty() {
        return;
    }
    let (ma, bank_pk) = *ctx.rng.pick(&cands);
    let now = sim.clock.unix_timestamp;
    for _ in 0..6 {
        let Some(acc) = model::account_of(&sim.store, &ma) else { return };
        let unhealthy = crate::refm::health(&sim.store, &acc, crate::refm::Req::Maint, sim.clock)
            .map(|h| h.net() < model::qi(0))
            .unwrap_or(true);
        if unhealthy {
            return;
        }
        let pct = *ctx.rng.pick(&[50u64, 70, 85, 95]);
        let Some(b) = ctx.world.bank_info_mut(&bank_pk) else { return };
        let np = (b.price_micro as u128 * pct as u128 / 100).max(1) as u64;
        b.price_micro = np;
        let ev = match b.oracle {
            crate::world::OracleKind::Pyth => Event::SetAccount {
                key: b.oracle_key,
                account: Some(crate::fixtures::pyth_account(b.feed_id, &crate::world::pyth_from_micro(np, b.expo, 10, 0, now))),
                why: "oracle_jump",
            },
            crate::world::OracleKind::Swb => Event::SetAccount {
                key: b.oracle_key,
                account: Some(crate::fixtures::swb_account(&crate::world::swb_from_micro(np, 10, now))),
                why: "oracle_jump",
            },
            crate::world::OracleKind::Fixed => {
                let gi = b.group_index;
                let bank = b.keys.bank;
                let g = &ctx.world.groups[gi];
                Event::Tx(Tx::one("admin", ix::set_fixed_oracle_price(g.key, g.admins.admin, bank, crate::world::w(np as f64 / 1e6))))
            }
        };
        sim.stats.fault("oracle_price_jump");
        sim.apply(ev);
    }
}

/// Grammar-based shape fuzzer: a short random word over the alphabet of bracket-relevant
/// instructions for two accounts A and B of the same group (starts and ends of all three bracket
/// kinds, look-alikes of ends, ordinary operations, foreign programs), with the start's end index
/// drawn at random or aimed at a random later position.  Most words are refused by the program;
/// the monitors judge the ones that commit.  Complements the template + single-fault generators
/// above, whose blind spots were each found by a seeded regression (DESIGN 9.4).
pub fn act_shape_fuzz(sim: &mut Sim, ctx: &mut Ctx) -> Option<Tx> {
    let gi = ctx.rng.below(ctx.world.groups.len() as u64) as usize;
    let us = users_in_group(ctx, gi);
    if us.len() < 2 {
        return None;
    }
    let (ui_a, a) = *ctx.rng.pick(&us);
    let others: Vec<(usize, Pubkey)> = us.iter().filter(|(x, _)| *x != ui_a).cloned().collect();
    let (ui_b, b) = *ctx.rng.pick(&others);
    let g = ctx.world.groups[gi].clone();
    let ua = ctx.world.users[ui_a].clone();
    let ub = ctx.world.users[ui_b].clone();
    if ctx.rng.chance(1, 3) {
        make_unhealthy_target(sim, ctx, Some(a));
    }
    let n = ctx.rng.range(2, 6) as usize;
    let fee_wallet = ctx.world.fee_wallet;
    let allowed = ctx.world.allowed_foreign;
    let failing = marginfi::constants::TITAN_KEY;
    sim.stats.fault("tx_shape_fuzz");
    let mut ixs: Vec<Ix> = Vec::new();
    let mut start_positions: Vec<(usize, Pubkey, Pubkey)> = Vec::new();
    for pos in 0..n {
        let (x, ux) = if ctx.rng.chance(2, 3) { (a, &ua) } else { (b, &ub) };
        let (y, _uy) = if x == a { (b, &ub) } else { (a, &ua) };
        let rm = risk_metas(&sim.store, &x, None, None);
        let ixn = match ctx.rng.below(20) {
            0 => ix::compute_budget(),
            1 | 2 | 3 => {
                start_positions.push((pos, x, ux.authority));
                ix::start_flashloan(x, ux.authority, ctx.rng.below(n as u64 + 2))
            }
            4 | 5 | 6 => {
                let mut rem = match ctx.rng.below(3) {
                    0 => vec![],
                    _ => rm.clone(),
                };
                if ctx.rng.chance(1, 4) {
                    rem.push(ix::ro(y));
                }
                ix::end_flashloan(x, ux.authority, rem)
            }
            7 => {
                let fake = ix::end_flashloan(x, ux.authority, vec![]);
                Ix { program_id: allowed, accounts: vec![ix::ro(x)], data: fake.data, wrapper: None, tag: "allowed_foreign" }
            }
            8 => ix::pulse_health(x, rm.clone()),
            9 | 10 | 11 | 12 => {
                let bk = ctx.rng.pick(&g.banks).clone();
                let Some(ta) = ux.tokens.get(&bk.keys.mint).cloned() else { continue };
                let vault = token_balance(&sim.store, &bk.keys.liquidity_vault);
                let bal = token_balance(&sim.store, &ta);
                let rmi = risk_metas(&sim.store, &x, Some(bk.keys.bank), None);
                match ctx.rng.below(4) {
                    0 => ix::borrow(&bk.keys, x, ux.authority, ta, pick_amount(ctx.rng, vault / 4 + 1), rmi),
                    1 => ix::withdraw(&bk.keys, x, ux.authority, ta, pick_amount(ctx.rng, vault / 4 + 1), None, rmi),
                    2 => ix::deposit(&bk.keys, x, ux.authority, ta, pick_amount(ctx.rng, bal / 8 + 1), None),
                    _ => ix::repay(&bk.keys, x, ux.authority, ta, pick_amount(ctx.rng, bal / 8 + 1), None),
                }
            }
            13 => Ix::foreign("allowed_foreign", allowed, vec![9; *ctx.rng.pick(&[0usize, 1, 4, 8, 12])]),
            14 => {
                if ctx.rng.chance(1, 3) {
                    Ix::foreign("failing_foreign", failing, vec![0; 8])
                } else {
                    Ix::foreign("allowed_foreign", allowed, vec![5; 8])
                }
            }
            15 => ix::init_liq_record(x, ctx.world.payer),
            16 => ix::start_liquidation(x, ub.authority, rm.clone()),
            17 => ix::end_liquidation(x, ub.authority, fee_wallet, rm.clone()),
            18 => ix::start_deleverage(g.key, x, g.admins.risk, rm.clone()),
            _ => ix::end_deleverage(g.key, x, g.admins.risk, rm.clone()),
        };
        ixs.push(ixn);
    }
    // aim some start at a real later position (otherwise almost every word dies on the index)
    for (pos, x, auth) in start_positions {
        if ctx.rng.chance(2, 3) && pos + 1 < ixs.len() {
            let target = ctx.rng.range(pos as u64 + 1, ixs.len() as u64 - 1);
            ixs[pos] = ix::start_flashloan(x, auth, target);
        }
    }
    if ixs.is_empty() {
        return None;
    }
    Some(Tx::many("shape_fuzzer", ixs))
}
