mod actors;
mod actors_adm;
mod actors_integ;
mod actors_ora;
mod actors_tx;
mod fixtures;
mod ix;
mod model;
mod monitors;
mod props;
mod refm;
mod replay;
mod rt;
mod runner;
mod sim;
mod venues;
mod world;

use serde_json::{json, Value};
use std::collections::BTreeMap;
use std::io::Write;
use std::os::unix::io::FromRawFd;
use std::sync::atomic::{AtomicU64, Ordering};
use std::sync::Mutex;
use std::time::Instant;

const DEFAULT_SEED: u64 = 20260924;

fn out_file() -> std::fs::File {
    // program logs (`msg!`) println natively; keep them away from our report
    unsafe {
        if std::env::var("MFISIM_LOGS").is_ok() {
            return std::fs::File::from_raw_fd(libc::dup(1));
        }
        let saved = libc::dup(1);
        let null = libc::open(b"/dev/null\0".as_ptr() as *const libc::c_char, libc::O_WRONLY);
        libc::dup2(null, 1);
        libc::close(null);
        std::fs::File::from_raw_fd(saved)
    }
}

fn arg(args: &[String], name: &str) -> Option<String> {
    args.iter()
        .position(|a| a == name)
        .and_then(|i| args.get(i + 1))
        .cloned()
}

fn verif_dir() -> String {
    std::env::var("VERIF_DIR").unwrap_or_else(|_| "/verif".to_string())
}

fn load_known(property: &str) -> Vec<((String, String, String), String)> {
    let p = format!("{}/known_findings.json", verif_dir());
    let Ok(s) = std::fs::read_to_string(&p) else {
        return vec![];
    };
    let Ok(v) = serde_json::from_str::<Value>(&s) else {
        return vec![];
    };
    let mut out = vec![];
    if let Some(a) = v["findings"].as_array() {
        for f in a {
            if f["status"].as_str() != Some("open") {
                continue;
            }
            if f["property"].as_str() != Some(property) {
                continue;
            }
            out.push((
                (
                    property.to_string(),
                    f["rule"].as_str().unwrap_or("").to_string(),
                    f["instruction"].as_str().unwrap_or("").to_string(),
                ),
                f["what"].as_str().unwrap_or("").to_string(),
            ));
        }
    }
    out
}

struct Agg {
    stats: sim::Stats,
    cov: sim::Cov,
    runs: u64,
    known_hits: BTreeMap<(String, String, String), u64>,
    first_violation: Option<(u64, usize, runner::RunOutput)>, // (run index, profile idx, output)
    harness_errors: Vec<String>,
    sample_logs: Vec<Value>,
}

fn cmd_check(args: &[String], out: &mut std::fs::File) -> i32 {
    let property = arg(args, "--property").unwrap_or_default();
    let tier = arg(args, "--tier").unwrap_or_else(|| "quick".into());
    let Some(plan) = props::plan(&property) else {
        writeln!(out, "unknown property {property}").ok();
        return 2;
    };
    let seed: u64 = arg(args, "--seed")
        .or_else(|| std::env::var("VERIF_SEED").ok())
        .and_then(|s| s.parse().ok())
        .unwrap_or(DEFAULT_SEED);
    let runs: u64 = arg(args, "--runs")
        .and_then(|s| s.parse().ok())
        .unwrap_or(if tier == "thorough" {
            plan.thorough_runs
        } else {
            plan.quick_runs
        });
    let threads: usize = arg(args, "--threads")
        .and_then(|s| s.parse().ok())
        .unwrap_or_else(|| {
            std::thread::available_parallelism()
                .map(|n| n.get())
                .unwrap_or(8)
        });
    let digest_out = arg(args, "--digests");
    writeln!(out, "mfisim check property={property} tier={tier} VERIF_SEED={seed} runs={runs} threads={threads}").ok();
    if let Err(e) = venues::self_test() {
        writeln!(out, "HARNESS-ERROR: venue fixture layout check failed: {e}").ok();
        return 2;
    }
    let t0 = Instant::now();
    let known = load_known(&property);
    let known_classes: Vec<(String, String, String)> = known.iter().map(|k| k.0.clone()).collect();

    let next = AtomicU64::new(0);
    let limit = AtomicU64::new(runs);
    let agg = Mutex::new(Agg {
        stats: sim::Stats::default(),
        cov: sim::Cov::default(),
        runs: 0,
        known_hits: BTreeMap::new(),
        first_violation: None,
        harness_errors: vec![],
        sample_logs: vec![],
    });
    let digests: Mutex<BTreeMap<u64, u64>> = Mutex::new(BTreeMap::new());
    let nprof = plan.profiles.len() as u64;

    std::thread::scope(|sc| {
        for _ in 0..threads {
            sc.spawn(|| loop {
                let i = next.fetch_add(1, Ordering::SeqCst);
                if i >= limit.load(Ordering::SeqCst) {
                    break;
                }
                let pidx = (i % nprof) as usize;
                let profile = plan.profiles[pidx];
                let rs = sim::run_seed(seed, plan.id, profile.name, i);
                let o = runner::run_one(rs, profile, monitors::make(plan.id), &known_classes);
                if digest_out.is_some() {
                    digests.lock().unwrap().insert(i, o.digest);
                }
                let mut a = agg.lock().unwrap();
                a.runs += 1;
                a.stats.merge(&o.stats);
                for (p, c) in &o.covs {
                    if *p == plan.id {
                        a.cov.merge(c);
                    }
                }
                for k in &o.known_hits {
                    *a.known_hits.entry(k.class()).or_insert(0) += 1;
                }
                if let Some(e) = &o.harness_error {
                    if a.harness_errors.len() < 5 {
                        a.harness_errors.push(format!("run {i}: {e}"));
                    }
                }
                if a.sample_logs.len() < 2 && o.violations.is_empty() && o.log.len() > o.genesis_len + 5 {
                    let tail: Vec<Value> = o.log[o.genesis_len..]
                        .iter()
                        .take(12)
                        .map(summarise_event)
                        .collect();
                    a.sample_logs.push(json!({"run": i, "seed": rs, "profile": profile.name, "faults": profile.faults, "first_events": tail}));
                }
                if !o.violations.is_empty() {
                    let better = match &a.first_violation {
                        None => true,
                        Some((j, _, _)) => i < *j,
                    };
                    if better {
                        a.first_violation = Some((i, pidx, o));
                    }
                    // only lower indices remain interesting
                    let mut cur = limit.load(Ordering::SeqCst);
                    while i < cur {
                        match limit.compare_exchange(cur, i, Ordering::SeqCst, Ordering::SeqCst) {
                            Ok(_) => break,
                            Err(c) => cur = c,
                        }
                    }
                }
            });
        }
    });

    let mut a = agg.into_inner().unwrap();
    if let Some(p) = digest_out {
        let d = digests.into_inner().unwrap();
        let mut s = String::new();
        for (i, h) in d {
            s.push_str(&format!("{i} {h:016x}\n"));
        }
        std::fs::write(p, s).ok();
    }
    let wall = t0.elapsed().as_secs_f64();

    if !a.harness_errors.is_empty() {
        for e in &a.harness_errors {
            writeln!(out, "HARNESS-ERROR: {e}").ok();
        }
        return 2;
    }

    let mut exit = 0;
    let mut violation_json = Value::Null;
    let mut n_viol = 0;
    if let Some((i, pidx, o)) = a.first_violation.take() {
        let v = o.violations[0].clone();
        let class = v.class();
        let make = || monitors::make(plan.id);
        let min = replay::minimise(&o.log, o.genesis_len, &o.foreign, &class, &make, 3000);
        let kept_genesis = min.len().saturating_sub(0);
        let _ = kept_genesis;
        // recompute detail from the minimised replay
        let (vs, _) = replay::execute_list(&min, &o.foreign, monitors::make(plan.id), true);
        let detail = vs
            .iter()
            .find(|x| x.class() == class)
            .map(|x| x.detail.clone())
            .unwrap_or(v.detail.clone());
        let rf = replay::ReplayFile {
            property: plan.id.to_string(),
            seed,
            run_index: i,
            profile: plan.profiles[pidx].name.to_string(),
            class: class.clone(),
            detail: detail.clone(),
            genesis_len: 0,
            foreign: o.foreign.clone(),
            events: min.clone(),
        };
        let dir = format!("{}/replays", verif_dir());
        std::fs::create_dir_all(&dir).ok();
        let path = format!("{dir}/{}-{}-{}.json", plan.id, seed, i);
        std::fs::write(&path, serde_json::to_string(&rf.to_json()).unwrap()).ok();
        // confirm in a fresh process
        let confirmed = std::env::current_exe()
            .ok()
            .and_then(|exe| {
                std::process::Command::new(exe)
                    .args(["replay", &path])
                    .output()
                    .ok()
            })
            .map(|o| o.status.code() == Some(1))
            .unwrap_or(false);
        writeln!(
            out,
            "violation: rule={} ix={} run={} events={} (minimised from {}) detail={}",
            class.1,
            class.2,
            i,
            min.len(),
            o.log.len(),
            detail
        )
        .ok();
        if confirmed {
            writeln!(out, "VIOLATION property={} replay={}", plan.id, path).ok();
            exit = 1;
        } else {
            writeln!(out, "HARNESS-ERROR: violation did not reproduce from {path}").ok();
            exit = 2;
        }
        n_viol = 1;
        violation_json = json!({"rule": class.1, "ix": class.2, "detail": detail, "replay": path, "minimised_events": min.len(), "original_events": o.log.len()});
    }
    for (k, what) in &known {
        let n = a.known_hits.get(k).copied().unwrap_or(0);
        writeln!(
            out,
            "KNOWN-FINDING: property={} rule={} ix={} hits={} {}",
            plan.id, k.1, k.2, n, what
        )
        .ok();
    }

    // evidence
    let zero_probes: Vec<&str> = a
        .cov
        .probes
        .iter()
        .filter(|(_, v)| **v == 0)
        .map(|(k, _)| *k)
        .collect();
    for z in &zero_probes {
        writeln!(out, "warning: probe '{z}' never fired in this batch").ok();
    }
    let mut samples: Vec<Value> = a.sample_logs.clone();
    for s in &a.cov.samples {
        samples.push(json!(s));
    }
    if samples.is_empty() {
        samples.push(json!("no sample recorded"));
    }
    let honest_rate = if a.stats.honest_txs > 0 {
        a.stats.honest_ok as f64 / a.stats.honest_txs as f64
    } else {
        0.0
    };
    let ev = json!({
        "property_id": plan.id,
        "tier": if tier == "thorough" { "thorough" } else { "quick" },
        "seed": seed,
        "level": plan.level,
        "coverage": {
            "evaluations": a.cov.evaluations.max(1),
            "distinct_nontrivial": a.cov.distinct.len(),
            "rule": plan.rule,
            "samples": samples,
            "runs": a.runs,
            "seeds_per_hour": (a.runs as f64 / wall.max(1e-9) * 3600.0) as u64,
            "events": a.stats.events,
            "transactions": a.stats.txs,
            "transactions_ok": a.stats.txs_ok,
            "fork_executions": a.stats.forks,
            "instructions_executed": a.stats.instructions,
            "simulated_seconds": a.stats.sim_seconds,
            "honest_tx_success_rate": honest_rate,
            "faults_fired": a.stats.faults.iter().map(|(k, v)| (k.to_string(), json!(v))).collect::<serde_json::Map<_, _>>(),
            "probes": a.cov.probes.iter().map(|(k, v)| (k.to_string(), json!(v))).collect::<serde_json::Map<_, _>>(),
            "probes_at_zero": zero_probes,
            "distinct_actor_ix_trigrams": a.stats.trigrams.len(),
            "ix_ok": a.stats.ix_ok.iter().map(|(k, v)| (k.clone(), json!(v))).collect::<serde_json::Map<_, _>>(),
            "ix_rejected": a.stats.ix_err.iter().map(|(k, v)| (k.clone(), json!(v))).collect::<serde_json::Map<_, _>>(),
            "profiles": plan.profiles.iter().map(|p| json!({"name": p.name, "faults": p.faults})).collect::<Vec<_>>(),
            "known_finding_hits": a.known_hits.iter().map(|(k, v)| json!({"rule": k.1, "ix": k.2, "hits": v})).collect::<Vec<_>>(),
            "violation": violation_json,
            "exhaustive": false,
        },
        "assumptions": props::ASSUMPTIONS,
        "wall_s": wall,
        "violations": n_viol,
    });
    let edir = format!("{}/evidence", verif_dir());
    std::fs::create_dir_all(&edir).ok();
    std::fs::write(
        format!("{edir}/{}.json", plan.id),
        serde_json::to_string_pretty(&ev).unwrap(),
    )
    .ok();
    writeln!(
        out,
        "done: runs={} events={} txs={} ok={} instr={} evals={} distinct={} wall={:.1}s exit={}",
        a.runs,
        a.stats.events,
        a.stats.txs,
        a.stats.txs_ok,
        a.stats.instructions,
        a.cov.evaluations,
        a.cov.distinct.len(),
        wall,
        exit
    )
    .ok();
    exit
}

fn summarise_event(e: &sim::Event) -> Value {
    match e {
        sim::Event::Advance { dt, .. } => json!(format!("advance {dt}s")),
        sim::Event::Tx(tx) => json!(format!("{}:{}", tx.actor, sim::tx_tag(tx))),
        sim::Event::ForkTx(tx) => json!(format!("fork {}:{}", tx.actor, sim::tx_tag(tx))),
        sim::Event::SetAccount { why, .. } => json!(format!("set({why})")),
    }
}

fn cmd_replay(args: &[String], out: &mut std::fs::File) -> i32 {
    let Some(path) = args.get(1) else {
        writeln!(out, "usage: mfisim replay <file>").ok();
        return 2;
    };
    let Ok(s) = std::fs::read_to_string(path) else {
        writeln!(out, "cannot read {path}").ok();
        return 2;
    };
    let Some(rf) = serde_json::from_str::<Value>(&s)
        .ok()
        .and_then(|v| replay::ReplayFile::from_json(&v))
    else {
        writeln!(out, "cannot parse {path}").ok();
        return 2;
    };
    let (vs, digest) =
        replay::execute_list(&rf.events, &rf.foreign, monitors::make(&rf.property), true);
    writeln!(out, "replayed {} events, final digest {digest:016x}", rf.events.len()).ok();
    for v in &vs {
        writeln!(
            out,
            "violation at event {}: property={} rule={} ix={} detail={}",
            v.event_index, v.property, v.rule, v.ix, v.detail
        )
        .ok();
    }
    if args.iter().any(|a| a == "--debug") {
        debug_last(&rf, out);
    }
    if vs.iter().any(|v| v.class() == rf.class) {
        writeln!(out, "VIOLATION property={} replay={}", rf.property, path).ok();
        1
    } else {
        writeln!(out, "recorded violation did not occur").ok();
        0
    }
}

fn debug_last(rf: &replay::ReplayFile, out: &mut std::fs::File) {
    // re-execute and dump the reference view of the last transaction
    let mut sim = sim::Sim::new(vec![]);
    sim.exec.foreign = rf.foreign.clone();
    let n = rf.events.len();
    for (i, e) in rf.events.iter().enumerate() {
        if i + 1 == n {
            if let sim::Event::Tx(tx) | sim::Event::ForkTx(tx) = e {
                let (o, post) = sim.exec.execute(&sim.store, sim.clock, tx);
                writeln!(out, "last tx {} result {:?}", sim::tx_tag(tx), o.result).ok();
                let st = post.as_ref().or(o.failed_state.as_ref()).unwrap_or(&sim.store);
                for ix in &tx.ixs {
                    writeln!(out, "ix {} accounts:", ix.tag).ok();
                    for m in &ix.accounts {
                        writeln!(out, "   {} s={} w={}", m.pubkey, m.is_signer, m.is_writable).ok();
                    }
                    if let Some(k) = monitors::ix_user_account(ix) {
                        if let Some(a) = model::account_of(st, &k) {
                            writeln!(out, "account {k} flags {:#x}", a.account_flags).ok();
                            for b in a.lending_account.balances.iter().filter(|b| b.active != 0) {
                                writeln!(out, "  slot bank {} tag {} a {} l {}", b.bank_pk, b.bank_asset_tag,
                                    model::q_str(&model::q_w(b.asset_shares)), model::q_str(&model::q_w(b.liability_shares))).ok();
                                if let Some(bank) = model::bank_of(st, &b.bank_pk) {
                                    writeln!(out, "     bank: dec {} asv {} lsv {} wa {} / {} wl {} / {} state {:?} tier {:?} oracle {:?} maxage {} maxconf {} cap {} price-> {:?}",
                                        bank.mint_decimals, model::q_str(&model::q_w(bank.asset_share_value)), model::q_str(&model::q_w(bank.liability_share_value)),
                                        model::q_str(&model::q_w(bank.config.asset_weight_init)), model::q_str(&model::q_w(bank.config.asset_weight_maint)),
                                        model::q_str(&model::q_w(bank.config.liability_weight_init)), model::q_str(&model::q_w(bank.config.liability_weight_maint)),
                                        bank.config.operational_state, bank.config.risk_tier, bank.config.oracle_setup, bank.config.oracle_max_age, bank.config.oracle_max_confidence,
                                        bank.config.total_asset_value_init_limit,
                                        refm::read_oracle(st, &bank, sim.clock).map(|v| (model::q_str(&v.spot.price), model::q_str(&v.spot.conf), model::q_str(&v.ema.price), model::q_str(&v.ema.conf)))).ok();
                                }
                            }
                            for req in [refm::Req::Init, refm::Req::Maint, refm::Req::Equity] {
                                match refm::health(st, &a, req, sim.clock) {
                                    Ok(h) => { writeln!(out, "  ref {:?}: assets {} liabs {} err {} zeroed {}", req, model::q_str(&h.assets), model::q_str(&h.liabs), model::q_str(&h.err), h.any_zeroed).ok();
                                        for p in &h.positions { writeln!(out, "      pos bank {} liab {} amount {} value {} price {} w {} zeroed {}", p.bank, p.is_liab, model::q_str(&p.amount), model::q_str(&p.value), model::q_str(&p.price_used), model::q_str(&p.weight), p.zeroed_bad_oracle).ok(); } }
                                    Err(e) => { writeln!(out, "  ref {:?}: {:?}", req, e).ok(); }
                                }
                            }
                            let hc = a.health_cache;
                            writeln!(out, "  cache: a {} l {} am {} lm {} ae {} le {} flags {} err {} ierr {} idx {}", model::q_str(&model::q_w(hc.asset_value)), model::q_str(&model::q_w(hc.liability_value)),
                                model::q_str(&model::q_w(hc.asset_value_maint)), model::q_str(&model::q_w(hc.liability_value_maint)), model::q_str(&model::q_w(hc.asset_value_equity)), model::q_str(&model::q_w(hc.liability_value_equity)), hc.flags, hc.mrgn_err, hc.internal_err, hc.err_index).ok();
                        }
                    }
                }
                writeln!(out, "clock {:?}", sim.clock).ok();
            }
        }
        sim.apply(e.clone());
    }
}

/// Triage aid: re-execute a replay file and print, after every transaction, each bank's position
/// counters, share totals and the number of live (>= 1 share) positions per side.
fn cmd_trace(args: &[String], out: &mut std::fs::File) -> i32 {
    let Some(path) = args.get(1) else { return 2 };
    let Ok(text) = std::fs::read_to_string(path) else { return 2 };
    let Ok(v) = serde_json::from_str::<serde_json::Value>(&text) else { return 2 };
    let Some(rf) = replay::ReplayFile::from_json(&v) else { return 2 };
    let mut sim = sim::Sim::new(vec![]);
    sim.exec.foreign = rf.foreign.clone();
    for (i, e) in rf.events.iter().enumerate() {
        let label = match e {
            sim::Event::Tx(tx) => format!("tx {} {}", tx.actor, sim::tx_tag(tx)),
            sim::Event::ForkTx(tx) => format!("fork {} {}", tx.actor, sim::tx_tag(tx)),
            sim::Event::Advance { dt, .. } => format!("advance {dt}"),
            sim::Event::SetAccount { why, .. } => format!("set {why}"),
        };
        let res = sim.apply(e.clone());
        let r = res.map(|o| format!("{:?}", o.result.as_ref().err().map(|x| x.code))).unwrap_or_default();
        writeln!(out, "[{i}] {label} -> {r}").ok();
        if matches!(e, sim::Event::Tx(_)) {
            for (bk, b) in model::all_banks(&sim.store) {
                let mut la = 0;
                let mut ll = 0;
                for (_, a) in model::all_accounts(&sim.store) {
                    for bal in a.lending_account.balances.iter().filter(|x| x.active != 0 && x.bank_pk == bk) {
                        if model::q_w(bal.asset_shares) >= model::qi(1) { la += 1; }
                        if model::q_w(bal.liability_shares) >= model::qi(1) { ll += 1; }
                    }
                }
                writeln!(out, "     bank {} counters {}/{} live {}/{} TA {} TL {}", &bk.to_string()[..6], b.lending_position_count, b.borrowing_position_count, la, ll,
                    model::q_str(&model::q_w(b.total_asset_shares)), model::q_str(&model::q_w(b.total_liability_shares))).ok();
            }
        }
    }
    0
}

fn main() {
    let args: Vec<String> = std::env::args().skip(1).collect();
    let mut out = out_file();
    let code = match args.first().map(|s| s.as_str()) {
        Some("check") => cmd_check(&args, &mut out),
        Some("replay") => cmd_replay(&args, &mut out),
        Some("trace") => cmd_trace(&args, &mut out),
        _ => {
            writeln!(out, "usage: mfisim check --property <id> --tier quick|thorough [--seed N] [--runs N] [--threads N] | replay <file>").ok();
            2
        }
    };
    out.flush().ok();
    std::process::exit(code);
}
