//! Accounts that no marginfi instruction creates: mints, user token accounts, oracle accounts.
//! All built from bytes; nothing here is random or time dependent.

use crate::rt::{spl_token_id, token22_id, Account};
use anchor_lang::prelude::Pubkey;
use anchor_lang::solana_program::program_pack::Pack;
use anchor_lang::{AnchorSerialize, Discriminator};
use anchor_spl::token_2022::spl_token_2022::{
    self,
    extension::{
        transfer_fee::{TransferFee, TransferFeeConfig},
        BaseStateWithExtensions, BaseStateWithExtensionsMut, ExtensionType, StateWithExtensions,
        StateWithExtensionsMut,
    },
};
use pyth_solana_receiver_sdk::price_update::{PriceFeedMessage, PriceUpdateV2, VerificationLevel};

#[derive(Clone, Copy, Debug, PartialEq, Eq, PartialOrd, Ord)]
pub enum TokenKind {
    Spl,
    T22,
    T22Fee {
        bps: u16,
        max_fee: u64,
        /// fee that becomes active at `newer_epoch`
        newer_bps: u16,
        newer_max_fee: u64,
        newer_epoch: u64,
    },
}

impl TokenKind {
    pub fn program(&self) -> Pubkey {
        match self {
            TokenKind::Spl => spl_token_id(),
            _ => token22_id(),
        }
    }
    pub fn label(&self) -> &'static str {
        match self {
            TokenKind::Spl => "spl",
            TokenKind::T22 => "t22",
            TokenKind::T22Fee { .. } => "t22fee",
        }
    }
}

const RENT_LAMPORTS: u64 = 10_000_000;

pub fn mint_account(kind: TokenKind, decimals: u8, supply: u64) -> Account {
    match kind {
        TokenKind::Spl => {
            let mut data = vec![0u8; spl_token::state::Mint::LEN];
            let mint = spl_token::state::Mint {
                is_initialized: true,
                decimals,
                supply,
                ..Default::default()
            };
            spl_token::state::Mint::pack(mint, &mut data).unwrap();
            Account::new(RENT_LAMPORTS, data, spl_token_id())
        }
        TokenKind::T22 => {
            let mut data = vec![0u8; spl_token_2022::state::Mint::LEN];
            let mint = spl_token_2022::state::Mint {
                is_initialized: true,
                decimals,
                supply,
                ..Default::default()
            };
            spl_token_2022::state::Mint::pack(mint, &mut data).unwrap();
            Account::new(RENT_LAMPORTS, data, token22_id())
        }
        TokenKind::T22Fee {
            bps,
            max_fee,
            newer_bps,
            newer_max_fee,
            newer_epoch,
        } => {
            let len = ExtensionType::try_calculate_account_len::<spl_token_2022::state::Mint>(&[
                ExtensionType::TransferFeeConfig,
            ])
            .unwrap();
            let mut data = vec![0u8; len];
            {
                let mut st = StateWithExtensionsMut::<spl_token_2022::state::Mint>::unpack_uninitialized(
                    &mut data,
                )
                .unwrap();
                st.init_account_type().unwrap();
                let cfg = st.init_extension::<TransferFeeConfig>(false).unwrap();
                *cfg = TransferFeeConfig {
                    transfer_fee_config_authority: Default::default(),
                    withdraw_withheld_authority: Default::default(),
                    withheld_amount: 0.into(),
                    older_transfer_fee: TransferFee {
                        epoch: 0.into(),
                        maximum_fee: max_fee.into(),
                        transfer_fee_basis_points: bps.into(),
                    },
                    newer_transfer_fee: TransferFee {
                        epoch: newer_epoch.into(),
                        maximum_fee: newer_max_fee.into(),
                        transfer_fee_basis_points: newer_bps.into(),
                    },
                };
                st.base = spl_token_2022::state::Mint {
                    is_initialized: true,
                    decimals,
                    supply,
                    ..Default::default()
                };
                st.pack_base();
            }
            Account::new(RENT_LAMPORTS, data, token22_id())
        }
    }
}

/// A token account for `mint` (whose account bytes are given, to know the extensions).
pub fn token_account(mint_key: &Pubkey, mint: &Account, owner: &Pubkey, amount: u64) -> Account {
    if mint.owner == spl_token_id() {
        let mut data = vec![0u8; spl_token::state::Account::LEN];
        let acc = spl_token::state::Account {
            mint: *mint_key,
            owner: *owner,
            amount,
            state: spl_token::state::AccountState::Initialized,
            ..Default::default()
        };
        spl_token::state::Account::pack(acc, &mut data).unwrap();
        return Account::new(RENT_LAMPORTS, data, spl_token_id());
    }
    let mint_state = StateWithExtensions::<spl_token_2022::state::Mint>::unpack(&mint.data).unwrap();
    let mint_ext = mint_state.get_extension_types().unwrap();
    let required = ExtensionType::get_required_init_account_extensions(&mint_ext);
    let space =
        ExtensionType::try_calculate_account_len::<spl_token_2022::state::Account>(&required)
            .unwrap();
    let mut data = vec![0u8; space];
    {
        let mut st =
            StateWithExtensionsMut::<spl_token_2022::state::Account>::unpack_uninitialized(&mut data)
                .unwrap();
        if required.contains(&ExtensionType::TransferFeeAmount) {
            st.init_account_extension_from_type(ExtensionType::TransferFeeAmount)
                .unwrap();
        }
        st.base = spl_token_2022::state::Account {
            mint: *mint_key,
            owner: *owner,
            amount,
            state: spl_token_2022::state::AccountState::Initialized,
            ..Default::default()
        };
        st.pack_base();
        st.init_account_type().unwrap();
    }
    Account::new(RENT_LAMPORTS, data, token22_id())
}

/// Token amount of any SPL / Token-2022 token account (amount is at offset 64 in both layouts).
pub fn token_amount(data: &[u8]) -> u64 {
    if data.len() < 72 {
        return 0;
    }
    u64::from_le_bytes(data[64..72].try_into().unwrap())
}
pub fn token_owner(data: &[u8]) -> Pubkey {
    Pubkey::new_from_array(data[32..64].try_into().unwrap())
}
pub fn token_mint(data: &[u8]) -> Pubkey {
    Pubkey::new_from_array(data[0..32].try_into().unwrap())
}
pub fn set_token_amount(data: &mut [u8], amount: u64) {
    data[64..72].copy_from_slice(&amount.to_le_bytes());
}

// ------------------------------------------------------------------------------------------
// Oracles
// ------------------------------------------------------------------------------------------

#[derive(Clone, Copy, Debug, PartialEq, Eq)]
pub struct PythData {
    pub price: i64,
    pub conf: u64,
    pub ema_price: i64,
    pub ema_conf: u64,
    pub exponent: i32,
    pub publish_time: i64,
    pub verification_full: bool,
}

pub fn pyth_account_data(feed_id: [u8; 32], p: &PythData) -> Vec<u8> {
    let upd = PriceUpdateV2 {
        write_authority: Pubkey::default(),
        verification_level: if p.verification_full {
            VerificationLevel::Full
        } else {
            VerificationLevel::Partial { num_signatures: 3 }
        },
        price_message: PriceFeedMessage {
            feed_id,
            price: p.price,
            conf: p.conf,
            exponent: p.exponent,
            publish_time: p.publish_time,
            prev_publish_time: p.publish_time - 1,
            ema_price: p.ema_price,
            ema_conf: p.ema_conf,
        },
        posted_slot: 1,
    };
    let mut data = Vec::with_capacity(140);
    data.extend_from_slice(PriceUpdateV2::DISCRIMINATOR);
    upd.serialize(&mut data).unwrap();
    // fixed account size as the receiver program allocates it
    if data.len() < 134 {
        data.resize(134, 0);
    }
    data
}

pub fn pyth_account(feed_id: [u8; 32], p: &PythData) -> Account {
    Account::new(
        RENT_LAMPORTS,
        pyth_account_data(feed_id, p),
        pyth_solana_receiver_sdk::id(),
    )
}

/// Parse back what we wrote (the reference model reads oracle bytes itself, not via the program).
pub fn parse_pyth(data: &[u8]) -> Option<PythData> {
    if data.len() < 8 + 32 + 1 || data[..8] != *PriceUpdateV2::DISCRIMINATOR {
        return None;
    }
    let mut o = 8 + 32;
    let tag = data[o];
    o += 1;
    let verification_full = match tag {
        0 => {
            o += 1; // num_signatures
            false
        }
        1 => true,
        _ => return None,
    };
    if data.len() < o + 32 + 8 + 8 + 4 + 8 + 8 + 8 + 8 {
        return None;
    }
    o += 32; // feed id
    let rd_i64 = |o: usize| i64::from_le_bytes(data[o..o + 8].try_into().unwrap());
    let price = rd_i64(o);
    let conf = rd_i64(o + 8) as u64;
    let exponent = i32::from_le_bytes(data[o + 16..o + 20].try_into().unwrap());
    let publish_time = rd_i64(o + 20);
    let ema_price = rd_i64(o + 36);
    let ema_conf = rd_i64(o + 44) as u64;
    Some(PythData {
        price,
        conf,
        ema_price,
        ema_conf,
        exponent,
        publish_time,
        verification_full,
    })
}

#[derive(Clone, Copy, Debug, PartialEq, Eq)]
pub struct SwbData {
    pub value: i128,
    pub std_dev: i128,
    pub last_update_timestamp: i64,
}

fn swb_offsets() -> (usize, usize, usize) {
    use switchboard_on_demand::PullFeedAccountData;
    let z: PullFeedAccountData = bytemuck::Zeroable::zeroed();
    let base = &z as *const _ as usize;
    let ts = &z.last_update_timestamp as *const _ as usize - base;
    let val = &z.result.value as *const _ as usize - base;
    let sd = &z.result.std_dev as *const _ as usize - base;
    (8 + ts, 8 + val, 8 + sd)
}

pub fn swb_account_data(s: &SwbData) -> Vec<u8> {
    use switchboard_on_demand::{Discriminator as SwbDisc, PullFeedAccountData};
    let size = 8 + std::mem::size_of::<PullFeedAccountData>();
    let mut data = vec![0u8; size];
    data[..8].copy_from_slice(&PullFeedAccountData::DISCRIMINATOR);
    let (ts, val, sd) = swb_offsets();
    data[ts..ts + 8].copy_from_slice(&s.last_update_timestamp.to_le_bytes());
    data[val..val + 16].copy_from_slice(&s.value.to_le_bytes());
    data[sd..sd + 16].copy_from_slice(&s.std_dev.to_le_bytes());
    data
}

pub fn swb_account(s: &SwbData) -> Account {
    Account::new(
        RENT_LAMPORTS,
        swb_account_data(s),
        marginfi::constants::SWITCHBOARD_PULL_ID,
    )
}

pub fn parse_swb(data: &[u8]) -> Option<SwbData> {
    use switchboard_on_demand::{Discriminator as SwbDisc, PullFeedAccountData};
    let size = 8 + std::mem::size_of::<PullFeedAccountData>();
    if data.len() < size || data[..8] != PullFeedAccountData::DISCRIMINATOR {
        return None;
    }
    let (ts, val, sd) = swb_offsets();
    Some(SwbData {
        last_update_timestamp: i64::from_le_bytes(data[ts..ts + 8].try_into().unwrap()),
        value: i128::from_le_bytes(data[val..val + 16].try_into().unwrap()),
        std_dev: i128::from_le_bytes(data[sd..sd + 16].try_into().unwrap()),
    })
}

/// Transfer-fee parameters in force at `epoch` for a mint account (None for SPL / plain T22).
pub fn mint_fee_at(mint: &Account, epoch: u64) -> Option<(u16, u64)> {
    if mint.owner != token22_id() {
        return None;
    }
    let st = StateWithExtensions::<spl_token_2022::state::Mint>::unpack(&mint.data).ok()?;
    let cfg = st.get_extension::<TransferFeeConfig>().ok()?;
    let f = cfg.get_epoch_fee(epoch);
    Some((
        u16::from(f.transfer_fee_basis_points),
        u64::from(f.maximum_fee),
    ))
}

pub fn mint_decimals(mint: &Account) -> u8 {
    mint.data[44]
}

// ---------------- native stake account (spl-single-pool "sol pool") ----------------

/// Byte offset of `delegation.stake` in a bincode `StakeStateV2::Stake` (u32 tag, 120-byte Meta,
/// 32-byte voter key).
pub const STAKE_DELEGATION_OFFSET: usize = 4 + 120 + 32;

/// A native stake account in state `Stake` delegating `stake` lamports (200 bytes, the size the
/// stake program allocates).  `tag` other than 2 produces the Uninitialized / Initialized /
/// RewardsPool states for fault injection.
pub fn stake_account(stake: u64, tag: u32) -> Account {
    let mut data = vec![0u8; 200];
    data[0..4].copy_from_slice(&tag.to_le_bytes());
    // Meta.rent_exempt_reserve
    data[4..12].copy_from_slice(&2_282_880u64.to_le_bytes());
    data[STAKE_DELEGATION_OFFSET..STAKE_DELEGATION_OFFSET + 8].copy_from_slice(&stake.to_le_bytes());
    // activation epoch 0, deactivation epoch u64::MAX, warmup rate 0.25 (deprecated field)
    let o = STAKE_DELEGATION_OFFSET + 8;
    data[o + 8..o + 16].copy_from_slice(&u64::MAX.to_le_bytes());
    data[o + 16..o + 24].copy_from_slice(&0.25f64.to_le_bytes());
    Account::new(stake.saturating_add(2_282_880), data, marginfi::constants::NATIVE_STAKE_ID)
}

/// `delegation.stake` of a stake account in state `Stake`, else None.
pub fn parse_stake(data: &[u8]) -> Option<u64> {
    if data.len() < STAKE_DELEGATION_OFFSET + 8 {
        return None;
    }
    if u32::from_le_bytes(data[0..4].try_into().ok()?) != 2 {
        return None;
    }
    Some(u64::from_le_bytes(
        data[STAKE_DELEGATION_OFFSET..STAKE_DELEGATION_OFFSET + 8].try_into().ok()?,
    ))
}

/// Supply of an SPL-Token (classic) mint.
pub fn mint_supply(data: &[u8]) -> Option<u64> {
    if data.len() < 45 {
        return None;
    }
    Some(u64::from_le_bytes(data[36..44].try_into().ok()?))
}
pub fn set_mint_supply(data: &mut [u8], supply: u64) {
    if data.len() >= 44 {
        data[36..44].copy_from_slice(&supply.to_le_bytes());
    }
}
