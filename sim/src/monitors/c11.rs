//! C11 — flash loans are bracketed: health is enforced before the transaction ends.

use super::{ix_user_account, viol};
use crate::model::{self, q_str};
use crate::refm::{self, Req};
use crate::rt::marginfi_id;
use crate::sim::{Cov, Monitor, Step, Violation};
use anchor_lang::prelude::Pubkey;
use marginfi_type_crate::types::*;
use std::collections::BTreeSet;

pub struct C11 {
    cov: Cov,
}

impl Default for C11 {
    fn default() -> Self {
        let mut cov = Cov::default();
        cov.declare(&[
            "flashloan_committed",
            "flashloan_committed_with_borrow_inside",
            "rejected_illegal_flashloan",
            "rejected_at_end_for_health",
            "rejected_cpi",
            "nested_start_rejected",
            "liquidation_of_flagged_account_attempted",
            "abort_inside_bracket_rolled_back",
            "start_refused_for_account_state",
        ]);
        C11 { cov }
    }
}

impl Monitor for C11 {
    fn property(&self) -> &'static str {
        "C11"
    }
    fn cov(&self) -> &Cov {
        &self.cov
    }
    fn on_tx(&mut self, s: &Step, out: &mut Vec<Violation>) {
        let idx = s.event_index;
        let has_fl = s
            .tx
            .ixs
            .iter()
            .any(|x| x.program_id == marginfi_id() && (x.tag == "start_flashloan" || x.tag == "end_flashloan"));
        let tag = crate::sim::tx_tag(s.tx);
        if let Err(e) = &s.out.result {
            if has_fl {
                let word = super::bracket::shape_word(&s.tx.ixs);
                self.cov.eval(format!("{word}|rej{}", e.code));
                let failing = s.tx.ixs.get(e.ix_index).map(|x| x.tag).unwrap_or("");
                match e.code {
                    6038 => {
                        self.cov.probe("rejected_illegal_flashloan");
                        if failing == "start_flashloan" && e.ix_index > 0 && s.tx.ixs[..e.ix_index].iter().any(|x| x.tag == "start_flashloan") {
                            self.cov.probe("nested_start_rejected");
                        }
                    }
                    6009 if failing == "end_flashloan" => self.cov.probe("rejected_at_end_for_health"),
                    6091 => self.cov.probe("rejected_cpi"),
                    6037 if matches!(failing, "liquidate" | "handle_bankruptcy" | "start_liquidation") => {
                        self.cov.probe("liquidation_of_flagged_account_attempted")
                    }
                    6035 | 6103 | 6089 if failing == "start_flashloan" => self.cov.probe("start_refused_for_account_state"),
                    crate::rt::ERR_FOREIGN_FAIL => self.cov.probe("abort_inside_bracket_rolled_back"),
                    _ => {}
                }
            }
            return;
        }
        // every committed state: nobody is flagged
        for (k, a) in model::all_accounts(s.post) {
            if a.account_flags & ACCOUNT_IN_FLASHLOAN != 0 {
                out.push(viol("C11", "flashloan_flag_survived_transaction", &tag, format!("account {k}"), idx));
            }
        }
        if !has_fl {
            return;
        }
        let word = super::bracket::shape_word(&s.tx.ixs);
        self.cov.eval(format!("{word}|ok"));
        let states = s.states();
        let mut flagged: BTreeSet<Pubkey> = BTreeSet::new();
        for (i, ix) in s.tx.ixs.iter().enumerate() {
            if ix.program_id != marginfi_id() {
                continue;
            }
            let before = states[i];
            if ix.tag == "start_flashloan" {
                let acc_key = ix.accounts[0].pubkey;
                self.cov.probe("flashloan_committed");
                if ix.wrapper.is_some() {
                    out.push(viol("C11", "start_executed_via_cpi", ix.tag, format!("account {acc_key}"), idx));
                }
                if let Some(a) = model::account_of(before, &acc_key) {
                    let bad = a.account_flags
                        & (ACCOUNT_IN_FLASHLOAN | ACCOUNT_DISABLED | ACCOUNT_FROZEN | ACCOUNT_IN_RECEIVERSHIP);
                    if bad != 0 {
                        out.push(viol("C11", "start_accepted_in_forbidden_account_state", ix.tag,
                            format!("account {acc_key} flags {:#x}", a.account_flags), idx));
                    }
                }
                let end_index = u64::from_le_bytes(ix.data[8..16].try_into().unwrap()) as usize;
                match s.tx.ixs.get(end_index) {
                    Some(e) if end_index > i => {
                        let ok = e.program_id == marginfi_id()
                            && e.tag == "end_flashloan"
                            && e.wrapper.is_none()
                            && e.accounts.first().map(|m| m.pubkey) == Some(acc_key);
                        if !ok {
                            out.push(viol("C11", "named_end_is_not_matching_end", ix.tag,
                                format!("account {acc_key}: index {end_index} is {}", e.tag), idx));
                        }
                    }
                    _ => out.push(viol("C11", "named_end_missing_or_not_later", ix.tag,
                        format!("account {acc_key}: end index {end_index} of {}", s.tx.ixs.len()), idx)),
                }
                flagged.insert(acc_key);
            }
            if matches!(ix.tag, "borrow" | "withdraw") {
                if let Some(k) = ix_user_account(ix) {
                    if model::account_of(before, &k).map(|a| a.account_flags & ACCOUNT_IN_FLASHLOAN != 0).unwrap_or(false) {
                        self.cov.probe("flashloan_committed_with_borrow_inside");
                    }
                }
            }
            if matches!(ix.tag, "liquidate" | "handle_bankruptcy" | "start_liquidation" | "start_deleverage") {
                let k = match ix.tag {
                    "liquidate" => ix.accounts[5].pubkey,
                    "handle_bankruptcy" => ix.accounts[3].pubkey,
                    _ => ix.accounts[0].pubkey,
                };
                if model::account_of(before, &k).map(|a| a.account_flags & ACCOUNT_IN_FLASHLOAN != 0).unwrap_or(false) {
                    out.push(viol("C11", "flagged_account_liquidated_or_settled", ix.tag, format!("account {k}"), idx));
                }
            }
            if ix.tag == "end_flashloan" && ix.wrapper.is_some() {
                out.push(viol("C11", "end_executed_via_cpi", ix.tag, String::new(), idx));
            }
        }
        // every account that was flagged is initially healthy at commit
        for k in flagged {
            let Some(a) = model::account_of(s.post, &k) else { continue };
            match refm::health(s.post, &a, Req::Init, s.clock) {
                Ok(h) => {
                    if h.net() < -h.err.clone() {
                        out.push(viol("C11", "committed_unhealthy_after_flashloan", &tag,
                            format!("account {k}: ref init net {} (allowance {})", q_str(&h.net()), q_str(&h.err)), idx));
                    }
                    if h.n_isolated_liabs > 0 && h.n_liabs > 1 {
                        out.push(viol("C11", "committed_isolated_debt_not_alone", &tag, format!("account {k}"), idx));
                    }
                }
                Err(e) => out.push(viol("C11", "committed_with_unusable_debt_price", &tag, format!("account {k}: {e:?}"), idx)),
            }
        }
    }
}
