//! Shared judge for the receivership (C10) and deleverage (C12) brackets: a reference acceptor
//! for the transaction shape written from the property text, plus end-state inequalities.

use super::{codes, viol};
use crate::model::{self, q_str, q_w, qi, qr, Q};
use crate::refm::{self, Req};
use crate::rt::{compute_budget_id, marginfi_id, Ix};
use crate::sim::{Cov, Step, Violation};
use anchor_lang::prelude::Pubkey;
use marginfi_type_crate::types::*;
use num_traits::Zero;

#[derive(Clone, Copy, PartialEq, Eq)]
pub enum Kind {
    Liquidation,
    Deleverage,
}

impl Kind {
    pub fn start(&self) -> &'static str {
        match self {
            Kind::Liquidation => "start_liquidation",
            Kind::Deleverage => "start_deleverage",
        }
    }
    pub fn end(&self) -> &'static str {
        match self {
            Kind::Liquidation => "end_liquidation",
            Kind::Deleverage => "end_deleverage",
        }
    }
}

/// word over the alphabet, for the distinct-shape measure
pub fn shape_word(ixs: &[Ix]) -> String {
    let mut w = String::new();
    for ix in ixs {
        let c = match ix.tag {
            "compute_budget" => "c",
            "init_liq_record" => "i",
            "start_liquidation" => "S",
            "end_liquidation" => "E",
            "start_deleverage" => "D",
            "end_deleverage" => "F",
            "withdraw" => "w",
            "kamino_withdraw" | "drift_withdraw" | "solend_withdraw" => "v",
            "repay" => "r",
            "deposit" => "d",
            "borrow" => "b",
            "start_flashloan" => "s",
            "end_flashloan" => "e",
            "liquidate" => "L",
            "handle_bankruptcy" => "K",
            "allowed_foreign" => "j",
            "bad_foreign" => "x",
            "failing_foreign" => "!",
            _ => "?",
        };
        w.push_str(c);
        if ix.wrapper.is_some() {
            w.push('^');
        }
    }
    w
}

/// Reference acceptor: is this transaction in the language the property describes?
pub fn in_language(kind: Kind, ixs: &[Ix]) -> Result<(usize, Pubkey), &'static str> {
    let starts: Vec<usize> = ixs
        .iter()
        .enumerate()
        .filter(|(_, x)| x.program_id == marginfi_id() && x.tag == kind.start())
        .map(|(i, _)| i)
        .collect();
    if starts.len() != 1 {
        return Err("start_not_single");
    }
    let sp = starts[0];
    if ixs[sp].wrapper.is_some() {
        return Err("start_via_cpi");
    }
    for ix in &ixs[..sp] {
        let ok = ix.program_id == compute_budget_id()
            || (ix.program_id == marginfi_id() && ix.tag == "init_liq_record" && ix.wrapper.is_none());
        if !ok {
            return Err("start_not_first");
        }
    }
    let last = ixs.last().unwrap();
    if !(last.program_id == marginfi_id() && last.tag == kind.end()) || ixs.len() - 1 <= sp {
        return Err("end_not_last");
    }
    if last.wrapper.is_some() {
        return Err("end_via_cpi");
    }
    let target = ixs[sp].accounts[0].pubkey;
    if last.accounts[0].pubkey != target {
        return Err("end_for_other_account");
    }
    for ix in &ixs[sp + 1..ixs.len() - 1] {
        if ix.program_id != marginfi_id() {
            continue;
        }
        // the top-level instruction list is what the program can see; an instruction executed
        // under a foreign wrapper shows up as that foreign program's instruction
        if ix.wrapper.is_some() {
            continue;
        }
        if !matches!(ix.tag, "withdraw" | "repay" | "init_liq_record") && !super::is_venue_withdraw(ix.tag) {
            return Err("forbidden_ix_inside");
        }
    }
    Ok((sp, target))
}

pub fn declare(cov: &mut Cov) {
    cov.declare(&[
        "bracket_committed",
        "rejected_start_not_first",
        "rejected_end_not_last",
        "rejected_repeated_start",
        "rejected_forbidden_ix",
        "rejected_cpi",
        "rejected_healthy_account",
        "rejected_premium_too_high",
        "rejected_worse_health",
        "abort_inside_bracket_rolled_back",
        "closeout_under_5_dollars",
        "inner_ix_via_cpi_committed",
        "premium_within_1pct_of_limit",
    ]);
}

pub fn judge(
    property: &'static str,
    kind: Kind,
    s: &Step,
    cov: &mut Cov,
    out: &mut Vec<Violation>,
) {
    let idx = s.event_index;
    let has_kind = s
        .tx
        .ixs
        .iter()
        .any(|x| x.program_id == marginfi_id() && (x.tag == kind.start() || x.tag == kind.end()));
    if !has_kind {
        return;
    }
    let word = shape_word(&s.tx.ixs);
    if let Err(e) = &s.out.result {
        cov.eval(format!("{word}|rej{}", e.code));
        match e.code {
            6086 => cov.probe("rejected_start_not_first"),
            6087 => cov.probe("rejected_repeated_start"),
            6088 => cov.probe("rejected_end_not_last"),
            6089 => cov.probe("rejected_forbidden_ix"),
            6091 => cov.probe("rejected_cpi"),
            _ if word.contains("S^") || word.contains("E^") || word.contains("D^") || word.contains("F^") => cov.probe("rejected_cpi"),
            6090 => cov.probe("rejected_premium_too_high"),
            6072 => cov.probe("rejected_worse_health"),
            codes::HEALTHY_ACCOUNT => cov.probe("rejected_healthy_account"),
            crate::rt::ERR_FOREIGN_FAIL => cov.probe("abort_inside_bracket_rolled_back"),
            _ => {}
        }
        return;
    }
    // committed with a bracket of this kind having been active
    let tag = crate::sim::tx_tag(s.tx);
    cov.eval(format!("{word}|ok"));
    let (sp, target) = match in_language(kind, &s.tx.ixs) {
        Ok(x) => x,
        Err(why) => {
            out.push(viol(property, "bracket_shape_outside_language", kind.start(), format!("{why}: {word}"), idx));
            return;
        }
    };
    cov.probe("bracket_committed");
    if s.tx.ixs[sp + 1..].iter().any(|x| x.wrapper.is_some() && x.program_id == marginfi_id()) {
        cov.probe("inner_ix_via_cpi_committed");
    }
    let states = s.states();
    let before_start = states[sp];
    let after_start = states[sp + 1];
    let end_state = states[states.len() - 1];
    let (Some(acc_before), Some(acc_start), Some(acc_end)) = (
        model::account_of(before_start, &target),
        model::account_of(after_start, &target),
        model::account_of(end_state, &target),
    ) else {
        return;
    };
    // maintenance health: unhealthy at start (liquidation only), not worse and not positive at end
    let h_start = refm::health(after_start, &acc_start, Req::Maint, s.clock);
    let h_end = refm::health(end_state, &acc_end, Req::Maint, s.clock);
    let e_start = refm::health(after_start, &acc_start, Req::Equity, s.clock);
    let e_end = refm::health(end_state, &acc_end, Req::Equity, s.clock);
    let (Ok(h_start), Ok(h_end), Ok(e_start), Ok(e_end)) = (h_start, h_end, e_start, e_end) else {
        out.push(viol(property, "bracket_with_unusable_price", &tag, format!("account {target}"), idx));
        return;
    };
    let _ = acc_before;
    let closeout = e_start.assets < qi(5) - &e_start.err;
    if e_start.assets < qi(5) {
        cov.probe("closeout_under_5_dollars");
    }
    if kind == Kind::Liquidation && h_start.net() > h_start.err.clone() {
        out.push(viol(property, "took_control_of_healthy_account", &tag,
            format!("account {target}: ref maint health at start {} (allowance {})", q_str(&h_start.net()), q_str(&h_start.err)), idx));
    }
    if h_end.net() < h_start.net() - (&h_start.err + &h_end.err) {
        out.push(viol(property, "bracket_worsened_health", &tag,
            format!("account {target}: maint health {} -> {}", q_str(&h_start.net()), q_str(&h_end.net())), idx));
    }
    if kind == Kind::Liquidation && !closeout && h_end.net() > h_end.err.clone() && !(e_start.assets < qi(5) + &e_start.err) {
        out.push(viol(property, "bracket_left_account_healthy", &tag,
            format!("account {target}: maint health at end {}", q_str(&h_end.net())), idx));
    }
    if kind == Kind::Liquidation {
        let seized = &e_start.assets - &e_end.assets;
        let repaid = &e_start.liabs - &e_end.liabs;
        let max_fee = model::fee_state_of(end_state)
            .map(|f| q_w(f.liquidation_max_fee))
            .unwrap_or_else(Q::zero);
        let prem = model::q_max(max_fee, qr(5, 100));
        let limit = &repaid * (qi(1) + &prem);
        let e = (&e_start.err + &e_end.err) * qi(3);
        if !(e_start.assets < qi(5) + &e_start.err) && seized > &limit + &e {
            out.push(viol(property, "seized_more_than_premium_allows", &tag,
                format!("account {target}: seized {} repaid {} max premium {}", q_str(&seized), q_str(&repaid), q_str(&prem)), idx));
        }
        if !repaid.is_zero() && (&seized - &limit) > -(&limit * qr(1, 100)) {
            cov.probe("premium_within_1pct_of_limit");
        }
    }
    // withdrawals inside the bracket: never of zero-weight or non-positively priced collateral
    for (i, ix) in s.tx.ixs.iter().enumerate().skip(sp + 1) {
        if ix.program_id != marginfi_id() || !super::is_withdraw(ix.tag) {
            continue;
        }
        if ix.accounts[1].pubkey != target {
            continue;
        }
        let bk = ix.accounts[3].pubkey;
        let st = states[i];
        if let Some(bank) = model::bank_of(st, &bk) {
            if q_w(bank.config.asset_weight_init).is_zero() {
                out.push(viol(property, "zero_weight_collateral_seized", &tag, format!("bank {bk}"), idx));
            }
            match refm::read_oracle(st, &bank, s.clock).ok().and_then(|v| refm::biased(&v, &bank, false).ok()) {
                Some((low, _, _)) => {
                    if low <= qi(0) {
                        out.push(viol(property, "collateral_seized_at_non_positive_price", &tag, format!("bank {bk}"), idx));
                    }
                }
                None => out.push(viol(property, "collateral_seized_with_unusable_price", &tag, format!("bank {bk}"), idx)),
            }
        }
    }
}

/// In every committed state: no receivership / deleverage marker, no armed liquidation record.
pub fn check_no_marker_survives(property: &'static str, s: &Step, out: &mut Vec<Violation>) {
    if !s.ok() {
        return;
    }
    let tag = crate::sim::tx_tag(s.tx);
    for (k, a) in model::all_accounts(s.post) {
        if a.account_flags & (ACCOUNT_IN_RECEIVERSHIP | ACCOUNT_IN_DELEVERAGE) != 0 {
            out.push(viol(property, "receivership_marker_survived_transaction", &tag, format!("account {k} flags {:#x}", a.account_flags), s.event_index));
        }
    }
    for (k, acc) in s.post.accounts.iter() {
        if acc.owner != marginfi_id() {
            continue;
        }
        if let Some(r) = model::load_liq_record(&acc.data) {
            if r.liquidation_receiver != Pubkey::default() {
                out.push(viol(property, "liquidation_receiver_survived_transaction", &tag, format!("record {k}"), s.event_index));
            }
        }
    }
}
