//! C19 — fees and emissions reach only their destinations, in exactly accrued amounts.

use super::{slot_of, viol};
use crate::fixtures;
use crate::model::{self, q_str, q_w, qi, qu, ulp, Q};
use crate::rt::{marginfi_id, Store};
use crate::sim::{Cov, Monitor, Step, Violation};
use anchor_lang::prelude::Pubkey;
use marginfi_type_crate::constants::*;
use marginfi_type_crate::types::*;
use num_traits::{Signed, Zero};

pub struct C19 {
    cov: Cov,
    /// (account, bank) -> last time the position's shares or its credited emissions were seen to
    /// change (committed history only).  The program's own per-position timestamp can never be
    /// older than this, so size x (now - this) x rate bounds any single credit from above.
    touched: std::collections::BTreeMap<(Pubkey, Pubkey), i64>,
}

impl Default for C19 {
    fn default() -> Self {
        let mut cov = Cov::default();
        cov.declare(&[
            "collect_judged",
            "collect_bucket_gt_liquidity",
            "collect_all_three_fractional",
            "collect_with_t22_fee",
            "withdraw_fees_admin",
            "withdraw_insurance_admin",
            "withdraw_fees_permissionless",
            "bankruptcy_cover_from_insurance",
            "emissions_settled",
            "emissions_capped_by_remaining",
            "emissions_paid_to_authority",
            "emissions_paid_permissionless",
            "emissions_conservation_checked",
            "emissions_credit_bounded_by_history",
            "fees_destination_update_judged",
        ]);
        C19 { cov, touched: Default::default() }
    }
}

fn t22_fee(store: &Store, mint: &Pubkey, amount: u64, epoch: u64) -> u64 {
    match store.get(mint).and_then(|m| fixtures::mint_fee_at(m, epoch)) {
        Some((bps, max)) if bps > 0 && amount > 0 => {
            let f = (amount as u128 * bps as u128 + 9_999) / 10_000;
            f.min(max as u128) as u64
        }
        _ => 0,
    }
}

fn floor_u64(q: &Q) -> u64 {
    use num_traits::ToPrimitive;
    q.floor().to_integer().to_u64().unwrap_or(u64::MAX)
}

impl C19 {
    /// History rule for "proportional to position size, time and rate": whatever instruction
    /// credits emissions to a position, the credit cannot exceed what the position's size (as it
    /// stood before the instruction) earns over the time since the position last changed.
    fn judge_credit_history(&mut self, ix: &crate::rt::Ix, a: &Store, b: &Store, s: &Step, out: &mut Vec<Violation>) {
        let now = s.clock.unix_timestamp;
        let mut seen: Vec<Pubkey> = Vec::new();
        for m in ix.accounts.iter() {
            let k = m.pubkey;
            if seen.contains(&k) {
                continue;
            }
            seen.push(k);
            let (Some(x0), Some(x1)) = (model::account_of(a, &k), model::account_of(b, &k)) else { continue };
            let mut banks: Vec<Pubkey> = Vec::new();
            for bal in x0.lending_account.balances.iter().chain(x1.lending_account.balances.iter()) {
                if bal.active != 0 && !banks.contains(&bal.bank_pk) {
                    banks.push(bal.bank_pk);
                }
            }
            for bk in banks {
                let s0 = slot_of(&x0, &bk);
                let s1 = slot_of(&x1, &bk);
                let key = (k, bk);
                match (s0, s1) {
                    (Some(s0), Some(s1)) => {
                        let d_out = q_w(s1.emissions_outstanding) - q_w(s0.emissions_outstanding);
                        if d_out > qi(0) {
                            if let (Some(pre), Some(post)) = (model::bank_of(a, &bk), model::bank_of(b, &bk)) {
                                let t = self.touched.get(&key).copied().unwrap_or(s0.last_update as i64);
                                let dt = (now - t).max(0) as u64;
                                let sa = q_w(s0.asset_shares);
                                let sl = q_w(s0.liability_shares);
                                let lending = pre.flags & EMISSIONS_FLAG_LENDING_ACTIVE != 0;
                                let borrowing = pre.flags & EMISSIONS_FLAG_BORROW_ACTIVE != 0;
                                let asv = model::q_max(q_w(pre.asset_share_value), q_w(post.asset_share_value));
                                let lsv = model::q_max(q_w(pre.liability_share_value), q_w(post.liability_share_value));
                                let mut amount = Q::zero();
                                if lending {
                                    amount = model::q_max(amount, &sa * &asv);
                                }
                                if borrowing {
                                    amount = model::q_max(amount, &sl * &lsv);
                                }
                                let rate = qu(pre.emissions_rate);
                                let bound = qu(dt) * &amount / model::pow10(pre.mint_decimals as u32) / qi(31_536_000) * &rate;
                                let tol = (&rate * qu(dt + 2) + qi(2)) * ulp() * qi(4);
                                self.cov.probe("emissions_credit_bounded_by_history");
                                if d_out > &bound + &tol {
                                    out.push(viol("C19", "emissions_credited_for_time_before_position_last_changed", ix.tag,
                                        format!("account {k} bank {bk}: credited {} but size {} over {dt}s at rate {} earns at most {} (position last changed at {t}, stored timestamp {})",
                                            q_str(&d_out), q_str(&amount), pre.emissions_rate, q_str(&bound), s0.last_update), s.event_index));
                                }
                            }
                        }
                        let changed = s0.asset_shares.value != s1.asset_shares.value
                            || s0.liability_shares.value != s1.liability_shares.value
                            || s0.emissions_outstanding.value != s1.emissions_outstanding.value;
                        if changed && !s.is_fork {
                            self.touched.insert(key, now);
                        }
                    }
                    (None, Some(_)) => {
                        if !s.is_fork {
                            self.touched.insert(key, now);
                        }
                    }
                    (Some(_), None) => {
                        if !s.is_fork {
                            self.touched.remove(&key);
                        }
                    }
                    (None, None) => {}
                }
            }
        }
    }
}

impl Monitor for C19 {
    fn property(&self) -> &'static str {
        "C19"
    }
    fn cov(&self) -> &Cov {
        &self.cov
    }
    fn on_tx(&mut self, s: &Step, out: &mut Vec<Violation>) {
        if !s.ok() {
            return;
        }
        let idx = s.event_index;
        let states = s.states();
        for (i, ix) in s.tx.ixs.iter().enumerate() {
            if ix.program_id != marginfi_id() {
                continue;
            }
            let a = states[i];
            let b = states[i + 1];
            let fee_state = model::fee_state_of(a);
            self.judge_credit_history(ix, a, b, s, out);
            // "the destination fixed by the group admin": whoever changes a bank's stored fees
            // destination must be the admin of the group that bank belongs to, and the new
            // destination must be a token account of the bank's mint
            if ix.tag == "update_fees_destination" {
                if let Some(bk) = ix.accounts.get(1).map(|m| m.pubkey) {
                    if let (Some(b0), Some(b1)) = (model::bank_of(a, &bk), model::bank_of(b, &bk)) {
                        let signer = ix.accounts.get(2).map(|m| m.pubkey).unwrap_or_default();
                        let admin = model::group_of(a, &b0.group).map(|g| g.admin);
                        self.cov.probe("fees_destination_update_judged");
                        if b1.fees_destination_account != b0.fees_destination_account && admin != Some(signer) {
                            out.push(viol("C19", "fees_destination_changed_by_other_than_the_banks_group_admin", ix.tag,
                                format!("bank {bk} of group {}: signer {signer}, new destination {}", b0.group, b1.fees_destination_account), idx));
                        }
                        if let Some(t) = b.get(&b1.fees_destination_account) {
                            if t.data.len() >= 165 && fixtures::token_mint(&t.data) != b1.mint {
                                out.push(viol("C19", "fees_destination_of_another_mint", ix.tag, format!("bank {bk}"), idx));
                            }
                        }
                    }
                }
            }
            for (bk, pre) in model::all_banks(a) {
                let post = model::bank_of(b, &bk);
                let liq0 = model::vault_amount(a, &pre.liquidity_vault);
                let liq1 = model::vault_amount(b, &pre.liquidity_vault);
                let ins0 = model::vault_amount(a, &pre.insurance_vault);
                let ins1 = model::vault_amount(b, &pre.insurance_vault);
                let fee0 = model::vault_amount(a, &pre.fee_vault);
                let fee1 = model::vault_amount(b, &pre.fee_vault);
                let is_target = super::ix_bank(ix) == Some(bk);

                // ---- fee collection: exact whole parts, right destinations, buckets reduced equally
                if ix.tag == "collect_bank_fees" && is_target {
                    let Some(post) = post else { continue };
                    self.cov.probe("collect_judged");
                    let b_ins = q_w(pre.collected_insurance_fees_outstanding);
                    let b_grp = q_w(pre.collected_group_fees_outstanding);
                    let b_prg = q_w(pre.collected_program_fees_outstanding);
                    let mut avail = qu(liq0);
                    let t_ins = model::q_min(b_ins.clone(), avail.clone()).floor();
                    avail -= &t_ins;
                    let t_grp = model::q_min(b_grp.clone(), avail.clone()).floor();
                    avail -= &t_grp;
                    let t_prg = model::q_min(b_prg.clone(), avail.clone()).floor();
                    if &b_ins + &b_grp + &b_prg > qu(liq0) {
                        self.cov.probe("collect_bucket_gt_liquidity");
                    }
                    let frac = |x: &Q| !(x - x.floor()).is_zero();
                    if frac(&b_ins) && frac(&b_grp) && frac(&b_prg) {
                        self.cov.probe("collect_all_three_fractional");
                    }
                    self.cov.eval(format!(
                        "collect|i{}g{}p{}|liq{}",
                        (b_ins > qi(0)) as u8 + frac(&b_ins) as u8,
                        (b_grp > qi(0)) as u8 + frac(&b_grp) as u8,
                        (b_prg > qi(0)) as u8 + frac(&b_prg) as u8,
                        (&b_ins + &b_grp + &b_prg > qu(liq0)) as u8
                    ));
                    let total = &t_ins + &t_grp + &t_prg;
                    if qu(liq0.saturating_sub(liq1)) != total || liq1 > liq0 {
                        out.push(viol("C19", "collected_amount_not_whole_part_of_buckets", ix.tag,
                            format!("bank {bk}: vault {} -> {} expected outflow {}", liq0, liq1, q_str(&total)), idx));
                    }
                    let d = |x: WrappedI80F48, y: WrappedI80F48| q_w(x) - q_w(y);
                    if d(pre.collected_insurance_fees_outstanding, post.collected_insurance_fees_outstanding) != t_ins
                        || d(pre.collected_group_fees_outstanding, post.collected_group_fees_outstanding) != t_grp
                        || d(pre.collected_program_fees_outstanding, post.collected_program_fees_outstanding) != t_prg
                    {
                        out.push(viol("C19", "bucket_not_reduced_by_collected_amount", ix.tag, format!("bank {bk}"), idx));
                    }
                    // destinations: the bank's own insurance and fee vaults, and the canonical
                    // ATA of the global fee wallet (computed here, not read from the instruction)
                    let epoch = s.clock.epoch;
                    let net = |x: &Q| -> u64 {
                        let g = floor_u64(x);
                        g - t22_fee(a, &pre.mint, g, epoch)
                    };
                    if t22_fee(a, &pre.mint, 1_000_000, epoch) > 0 {
                        self.cov.probe("collect_with_t22_fee");
                    }
                    if ins1.wrapping_sub(ins0) != net(&t_ins) {
                        out.push(viol("C19", "insurance_fees_not_delivered_to_insurance_vault", ix.tag,
                            format!("bank {bk}: {} -> {} expected +{}", ins0, ins1, net(&t_ins)), idx));
                    }
                    if fee1.wrapping_sub(fee0) != net(&t_grp) {
                        out.push(viol("C19", "group_fees_not_delivered_to_fee_vault", ix.tag,
                            format!("bank {bk}: {} -> {} expected +{}", fee0, fee1, net(&t_grp)), idx));
                    }
                    if let (Some(fs), Some(mint_acc)) = (fee_state, a.get(&pre.mint)) {
                        let ata = crate::ix::ata(&fs.global_fee_wallet, &pre.mint, &mint_acc.owner);
                        let (x0, x1) = (model::vault_amount(a, &ata), model::vault_amount(b, &ata));
                        if x1.wrapping_sub(x0) != net(&t_prg) {
                            out.push(viol("C19", "program_fees_not_delivered_to_global_fee_ata", ix.tag,
                                format!("bank {bk}: ata {ata} {} -> {} expected +{}", x0, x1, net(&t_prg)), idx));
                        }
                    }
                    continue;
                }

                // ---- fee / insurance vaults are only ever drawn down through the sanctioned doors
                if fee1 < fee0 {
                    let group = model::group_of(a, &pre.group);
                    match ix.tag {
                        "withdraw_fees" if is_target => {
                            self.cov.probe("withdraw_fees_admin");
                            self.cov.eval("withdraw_fees".into());
                            let signer = ix.accounts[2].pubkey;
                            if group.map(|g| g.admin != signer).unwrap_or(true) {
                                out.push(viol("C19", "fee_vault_drawn_by_non_admin", ix.tag, format!("bank {bk} signer {signer}"), idx));
                            }
                        }
                        "withdraw_fees_permissionless" if is_target => {
                            self.cov.probe("withdraw_fees_permissionless");
                            self.cov.eval("withdraw_fees_permissionless".into());
                            let dst = pre.fees_destination_account;
                            let moved = fee0 - fee1;
                            let (d0, d1) = (model::vault_amount(a, &dst), model::vault_amount(b, &dst));
                            let expect = moved - t22_fee(a, &pre.mint, moved, s.clock.epoch);
                            if dst == Pubkey::default() || d1.wrapping_sub(d0) != expect {
                                out.push(viol("C19", "fees_withdrawn_to_other_than_fixed_destination", ix.tag,
                                    format!("bank {bk}: stored destination {dst} received {} of {}", d1.wrapping_sub(d0), moved), idx));
                            }
                        }
                        _ => out.push(viol("C19", "fee_vault_drawn_down_by_unsanctioned_instruction", ix.tag,
                            format!("bank {bk}: {} -> {}", fee0, fee1), idx)),
                    }
                }
                if ins1 < ins0 {
                    let group = model::group_of(a, &pre.group);
                    match ix.tag {
                        "withdraw_insurance" if is_target => {
                            self.cov.probe("withdraw_insurance_admin");
                            self.cov.eval("withdraw_insurance".into());
                            let signer = ix.accounts[2].pubkey;
                            if group.map(|g| g.admin != signer).unwrap_or(true) {
                                out.push(viol("C19", "insurance_vault_drawn_by_non_admin", ix.tag, format!("bank {bk} signer {signer}"), idx));
                            }
                        }
                        "handle_bankruptcy" if is_target => {
                            self.cov.probe("bankruptcy_cover_from_insurance");
                            // the cover goes to the bank's own liquidity vault
                            let moved = ins0 - ins1;
                            let expect = moved - t22_fee(a, &pre.mint, moved, s.clock.epoch);
                            if liq1.wrapping_sub(liq0) != expect {
                                out.push(viol("C19", "insurance_cover_not_delivered_to_liquidity_vault", ix.tag,
                                    format!("bank {bk}: insurance -{moved}, liquidity +{}", liq1.wrapping_sub(liq0)), idx));
                            }
                        }
                        _ => out.push(viol("C19", "insurance_vault_drawn_down_by_unsanctioned_instruction", ix.tag,
                            format!("bank {bk}: {} -> {}", ins0, ins1), idx)),
                    }
                }

                // ---- emissions
                if pre.emissions_mint == Pubkey::default() {
                    continue;
                }
                let Some(post) = post else { continue };
                let ev = crate::ix::emissions_vault_pda(&bk, &pre.emissions_mint);
                let (e0, e1) = (model::vault_amount(a, &ev), model::vault_amount(b, &ev));
                let outstanding = |st: &Store| -> Q {
                    model::all_accounts(st)
                        .iter()
                        .filter_map(|(_, acc)| slot_of(acc, &bk).map(|sl| q_w(sl.emissions_outstanding)))
                        .fold(Q::zero(), |x, y| x + y)
                };
                let o1 = outstanding(b);
                let r1 = q_w(post.emissions_remaining);
                if post.emissions_mint == pre.emissions_mint && s.store_has_plain_mint(b, &pre.emissions_mint) {
                    self.cov.probe("emissions_conservation_checked");
                    // credited-but-unpaid plus still-to-emit never exceeds what the vault holds
                    if &r1 + &o1 > qu(e1) + ulp() * qi(64) {
                        out.push(viol("C19", "emissions_credited_exceed_funding", ix.tag,
                            format!("bank {bk}: remaining {} + outstanding {} > vault {}", q_str(&r1), q_str(&o1), e1), idx));
                    }
                }
                if r1 < qi(0) {
                    out.push(viol("C19", "emissions_remaining_negative", ix.tag, format!("bank {bk}"), idx));
                }
                // pure settlement: proportional to size, time and rate, capped by remaining
                if ix.tag == "settle_emissions" && is_target {
                    let acc_key = ix.accounts[0].pubkey;
                    if let (Some(x0), Some(x1)) = (model::account_of(a, &acc_key), model::account_of(b, &acc_key)) {
                        if let (Some(s0), Some(s1)) = (slot_of(&x0, &bk), slot_of(&x1, &bk)) {
                            let now = s.clock.unix_timestamp as u64;
                            let last = if s0.last_update < MIN_EMISSIONS_START_TIME { now } else { s0.last_update };
                            let dt = now.saturating_sub(last);
                            let sa = q_w(s0.asset_shares);
                            let sl = q_w(s0.liability_shares);
                            let lending = pre.flags & EMISSIONS_FLAG_LENDING_ACTIVE != 0;
                            let borrowing = pre.flags & EMISSIONS_FLAG_BORROW_ACTIVE != 0;
                            let amount = if sl >= qi(1) {
                                if borrowing { Some(&sl * q_w(pre.liability_share_value)) } else { None }
                            } else if sa >= qi(1) {
                                if lending { Some(&sa * q_w(pre.asset_share_value)) } else { None }
                            } else {
                                None
                            };
                            let rate = qu(pre.emissions_rate);
                            let expect_raw = match &amount {
                                Some(am) => qu(dt) * am / model::pow10(pre.mint_decimals as u32) / qi(31_536_000) * &rate,
                                None => Q::zero(),
                            };
                            let rem0 = q_w(pre.emissions_remaining);
                            let expect = model::q_min(expect_raw.clone(), rem0.clone());
                            let got = q_w(s1.emissions_outstanding) - q_w(s0.emissions_outstanding);
                            let tol = (&rate * qu(dt + 2) + qi(2)) * ulp() * qi(2);
                            self.cov.probe("emissions_settled");
                            self.cov.eval(format!("settle|side{}|capped{}|dt{}", (sl >= qi(1)) as u8, (expect_raw > rem0) as u8, (dt > 0) as u8));
                            if expect_raw > rem0 && !rem0.is_zero() {
                                self.cov.probe("emissions_capped_by_remaining");
                            }
                            if (&got - &expect).abs() > tol {
                                out.push(viol("C19", "emissions_accrual_not_proportional", ix.tag,
                                    format!("account {acc_key} bank {bk}: credited {} expected {} (dt {dt})", q_str(&got), q_str(&expect)), idx));
                            }
                            let dr = &rem0 - q_w(post.emissions_remaining);
                            if dr != got {
                                out.push(viol("C19", "emissions_remaining_not_reduced_by_credit", ix.tag, format!("bank {bk}"), idx));
                            }
                        }
                    }
                }
                // payouts: only through the two withdraw instructions, only to the right place
                if e1 < e0 {
                    let moved = e0 - e1;
                    match ix.tag {
                        "withdraw_emissions" if is_target => {
                            self.cov.probe("emissions_paid_to_authority");
                            self.cov.eval("withdraw_emissions".into());
                            // the destination is the authority's choice: the payout must carry
                            // the authority's signature (the group admin's while the account is
                            // frozen) - nobody else may choose where an account's rewards go
                            let acc_key = ix.accounts[1].pubkey;
                            let signer = ix.accounts.get(2).map(|m| m.pubkey);
                            if let (Some(x0), Some(sg)) = (model::account_of(a, &acc_key), signer) {
                                let frozen = x0.account_flags & marginfi_type_crate::types::ACCOUNT_FROZEN != 0;
                                let admin = model::group_of(a, &x0.group).map(|g| g.admin);
                                let entitled = if frozen { Some(sg) == admin } else { sg == x0.authority };
                                if moved > 0 && !entitled {
                                    out.push(viol("C19", "emissions_paid_on_somebody_elses_signature", ix.tag,
                                        format!("account {acc_key}: authority {} signer {sg} moved {moved}", x0.authority), idx));
                                }
                            }
                        }
                        "withdraw_emissions_permissionless" if is_target => {
                            self.cov.probe("emissions_paid_permissionless");
                            self.cov.eval("withdraw_emissions_permissionless".into());
                            let acc_key = ix.accounts[1].pubkey;
                            if let (Some(x0), Some(mint_acc)) = (model::account_of(a, &acc_key), a.get(&pre.emissions_mint)) {
                                let ata = crate::ix::ata(&x0.emissions_destination_account, &pre.emissions_mint, &mint_acc.owner);
                                let (d0, d1) = (model::vault_amount(a, &ata), model::vault_amount(b, &ata));
                                if x0.emissions_destination_account == Pubkey::default() || d1.wrapping_sub(d0) != moved {
                                    out.push(viol("C19", "emissions_paid_to_other_than_chosen_destination", ix.tag,
                                        format!("account {acc_key}: chosen wallet {} ata {ata} received {} of {moved}", x0.emissions_destination_account, d1.wrapping_sub(d0)), idx));
                                }
                            }
                        }
                        _ => out.push(viol("C19", "emissions_vault_drawn_down_by_unsanctioned_instruction", ix.tag,
                            format!("bank {bk}: {} -> {}", e0, e1), idx)),
                    }
                }
            }
        }
    }
}

trait PlainMint {
    fn store_has_plain_mint(&self, st: &Store, mint: &Pubkey) -> bool;
}
impl<'a> PlainMint for Step<'a> {
    /// no transfer fee on the emissions mint (otherwise vault funding is net of fees)
    fn store_has_plain_mint(&self, st: &Store, mint: &Pubkey) -> bool {
        st.get(mint).map(|m| fixtures::mint_fee_at(m, self.clock.epoch).is_none()).unwrap_or(false)
    }
}
