//! C16 — account structure: one side per bank, sorted, compatible tags, bounded.

use super::{ix_user_account, viol};
use crate::model::{self, q_w, qi};
use crate::sim::{Cov, Monitor, Step, Violation};
use anchor_lang::prelude::Pubkey;
use marginfi_type_crate::constants::*;
use marginfi_type_crate::types::*;
use std::collections::BTreeMap;

pub struct C16 {
    cov: Cov,
    /// (account, bank) -> tag the slot was opened with (while it stays open)
    open_tags: BTreeMap<(Pubkey, Pubkey), u8>,
}

impl Default for C16 {
    fn default() -> Self {
        let mut cov = Cov::default();
        cov.declare(&[
            "slot_created_by_liquidation",
            "slots_ge_8",
            "tag_conflict_rejected",
            "bank_tag_changed_under_open_slot",
            "transfer_ok",
            "second_transfer_rejected",
            "account_close_ok",
            "account_close_rejected",
            "disabled_account_op_rejected",
            "both_sides_above_0_0001",
        ]);
        C16 {
            cov,
            open_tags: BTreeMap::new(),
        }
    }
}

fn is_integration(tag: u8) -> bool {
    matches!(tag, ASSET_TAG_KAMINO | ASSET_TAG_DRIFT | ASSET_TAG_SOLEND)
}

impl C16 {
    fn check_account(
        &mut self,
        key: &Pubkey,
        a: &MarginfiAccount,
        store: &crate::rt::Store,
        ixtag: &str,
        idx: usize,
        out: &mut Vec<Violation>,
    ) {
        let active: Vec<&Balance> = a
            .lending_account
            .balances
            .iter()
            .filter(|b| b.active != 0)
            .collect();
        // at most one active slot per bank, active slots strictly descending by bank key
        for w in active.windows(2) {
            if w[0].bank_pk == w[1].bank_pk {
                out.push(viol(
                    "C16",
                    "duplicate_slot_for_bank",
                    ixtag,
                    format!("account {key} bank {}", w[0].bank_pk),
                    idx,
                ));
            } else if w[0].bank_pk < w[1].bank_pk {
                out.push(viol(
                    "C16",
                    "slots_not_sorted",
                    ixtag,
                    format!("account {key}: {} before {}", w[0].bank_pk, w[1].bank_pk),
                    idx,
                ));
            }
        }
        // duplicates that are not adjacent
        for i in 0..active.len() {
            for j in i + 2..active.len() {
                if active[i].bank_pk == active[j].bank_pk {
                    out.push(viol(
                        "C16",
                        "duplicate_slot_for_bank",
                        ixtag,
                        format!("account {key} bank {}", active[i].bank_pk),
                        idx,
                    ));
                }
            }
        }
        let mut has_default = false;
        let mut has_staked = false;
        let mut n_integration = 0;
        for b in &active {
            match b.bank_asset_tag {
                ASSET_TAG_DEFAULT => has_default = true,
                ASSET_TAG_STAKED => has_staked = true,
                t if is_integration(t) => {
                    has_default = true;
                    n_integration += 1;
                }
                _ => {}
            }
            // not both sides non-dust (judged at one native unit / one share)
            let sa = q_w(b.asset_shares);
            let sl = q_w(b.liability_shares);
            if sa >= qi(1) && sl >= qi(1) {
                let (va, vl) = match model::bank_of(store, &b.bank_pk) {
                    Some(bank) => (
                        &sa * q_w(bank.asset_share_value),
                        &sl * q_w(bank.liability_share_value),
                    ),
                    None => (sa.clone(), sl.clone()),
                };
                if va >= qi(1) && vl >= qi(1) {
                    out.push(viol(
                        "C16",
                        "both_sides_non_dust",
                        ixtag,
                        format!(
                            "account {key} bank {} asset_shares {} liab_shares {}",
                            b.bank_pk,
                            model::q_str(&sa),
                            model::q_str(&sl)
                        ),
                        idx,
                    ));
                }
            }
            let thr = model::qr(1, 10_000);
            if sa > thr && sl > thr {
                self.cov.probe("both_sides_above_0_0001");
            }
            if sa < qi(0) || sl < qi(0) {
                out.push(viol(
                    "C16",
                    "negative_shares",
                    ixtag,
                    format!("account {key} bank {}", b.bank_pk),
                    idx,
                ));
            }
        }
        if has_default && has_staked {
            out.push(viol(
                "C16",
                "staked_mixed_with_default",
                ixtag,
                format!("account {key}"),
                idx,
            ));
        }
        if n_integration > MAX_INTEGRATION_POSITIONS {
            out.push(viol(
                "C16",
                "too_many_integration_positions",
                ixtag,
                format!("account {key}: {n_integration}"),
                idx,
            ));
        }
        if active.len() >= 8 {
            self.cov.probe("slots_ge_8");
        }
        let flags = a.account_flags
            & (ACCOUNT_DISABLED | ACCOUNT_IN_FLASHLOAN | ACCOUNT_IN_RECEIVERSHIP | ACCOUNT_FROZEN);
        self.cov.eval(format!(
            "{ixtag}|n{}|d{}s{}|f{:x}",
            active.len(),
            has_default as u8,
            has_staked as u8,
            flags
        ));
    }
}

impl Monitor for C16 {
    fn property(&self) -> &'static str {
        "C16"
    }
    fn cov(&self) -> &Cov {
        &self.cov
    }
    fn on_tx(&mut self, s: &Step, out: &mut Vec<Violation>) {
        let idx = s.event_index;
        if !s.ok() {
            // probes on rejections
            if let Some(e) = &s.out.result.as_ref().err() {
                let ix = &s.tx.ixs[e.ix_index.min(s.tx.ixs.len() - 1)];
                if e.code == 6000 + 59 {
                    // AssetTagMismatch
                }
                if let Some(acc) = ix_user_account(ix) {
                    if let Some(a) = model::account_of(s.pre, &acc) {
                        if a.account_flags & ACCOUNT_DISABLED != 0
                            && matches!(
                                ix.tag,
                                "deposit" | "withdraw" | "borrow" | "repay" | "start_flashloan" | "solend_deposit" | "solend_withdraw"
                                    | "kamino_deposit" | "kamino_withdraw" | "drift_deposit" | "drift_withdraw"
                            )
                        {
                            self.cov.probe("disabled_account_op_rejected");
                        }
                        if ix.tag.starts_with("transfer_to_new_account")
                            && a.migrated_to != Pubkey::default()
                        {
                            self.cov.probe("second_transfer_rejected");
                        }
                        if ix.tag == "account_close" {
                            self.cov.probe("account_close_rejected");
                        }
                    }
                }
                if e.msg.contains("AssetTagMismatch") || e.code == 6047 {
                    self.cov.probe("tag_conflict_rejected");
                }
            }
            return;
        }
        let states = s.states();
        for (i, ix) in s.tx.ixs.iter().enumerate() {
            if ix.program_id != crate::rt::marginfi_id() {
                continue;
            }
            let a = states[i];
            let b = states[i + 1];
            // per-instruction preconditions on the acted-on account
            if let Some(acc) = ix_user_account(ix) {
                if let Some(pre) = model::account_of(a, &acc) {
                    let disabled = pre.account_flags & ACCOUNT_DISABLED != 0;
                    if disabled
                        && matches!(
                            ix.tag,
                            "deposit" | "withdraw" | "borrow" | "repay" | "start_flashloan" | "solend_deposit" | "solend_withdraw"
                                | "kamino_deposit" | "kamino_withdraw" | "drift_deposit" | "drift_withdraw"
                        )
                    {
                        // a zero-amount "up to limit" deposit returns before touching anything;
                        // only flag if the account or any bank actually changed
                        let post = model::account_of(b, &acc);
                        let changed = post
                            .map(|p| {
                                bytemuck::bytes_of(&p.lending_account)
                                    != bytemuck::bytes_of(&pre.lending_account)
                                    || p.account_flags != pre.account_flags
                            })
                            .unwrap_or(true);
                        if changed || ix.tag == "start_flashloan" {
                            out.push(viol(
                                "C16",
                                "disabled_account_acted",
                                ix.tag,
                                format!("account {acc}"),
                                idx,
                            ));
                        }
                    }
                    if ix.tag == "account_close" {
                        self.cov.probe("account_close_ok");
                        let bad_flags = pre.account_flags
                            & (ACCOUNT_DISABLED
                                | ACCOUNT_FROZEN
                                | ACCOUNT_IN_FLASHLOAN
                                | ACCOUNT_IN_RECEIVERSHIP);
                        if bad_flags != 0 {
                            out.push(viol(
                                "C16",
                                "closed_with_forbidden_flag",
                                ix.tag,
                                format!("account {acc} flags {:#x}", pre.account_flags),
                                idx,
                            ));
                        }
                        for bal in pre.lending_account.balances.iter() {
                            if q_w(bal.asset_shares) >= qi(1) || q_w(bal.liability_shares) >= qi(1) {
                                out.push(viol(
                                    "C16",
                                    "closed_non_empty",
                                    ix.tag,
                                    format!("account {acc} bank {}", bal.bank_pk),
                                    idx,
                                ));
                            }
                        }
                    }
                    if ix.tag.starts_with("transfer_to_new_account") {
                        self.cov.probe("transfer_ok");
                        let new_key = ix.accounts[2].pubkey;
                        if pre.migrated_to != Pubkey::default() {
                            out.push(viol(
                                "C16",
                                "transferred_twice",
                                ix.tag,
                                format!("account {acc}"),
                                idx,
                            ));
                        }
                        let old_post = model::account_of(b, &acc);
                        let new_post = model::account_of(b, &new_key);
                        match (old_post, new_post) {
                            (Some(op), Some(np)) => {
                                if bytemuck::bytes_of(&np.lending_account)
                                    != bytemuck::bytes_of(&pre.lending_account)
                                {
                                    out.push(viol(
                                        "C16",
                                        "transfer_positions_differ",
                                        ix.tag,
                                        format!("old {acc} new {new_key}"),
                                        idx,
                                    ));
                                }
                                if op.lending_account.balances.iter().any(|x| x.active != 0)
                                    || op.account_flags & ACCOUNT_DISABLED == 0
                                    || op.migrated_to != new_key
                                {
                                    out.push(viol(
                                        "C16",
                                        "transfer_source_not_retired",
                                        ix.tag,
                                        format!("old {acc}"),
                                        idx,
                                    ));
                                }
                                // move open-tag history to the new account
                                let keys: Vec<(Pubkey, Pubkey)> = self
                                    .open_tags
                                    .keys()
                                    .filter(|(k, _)| *k == acc)
                                    .cloned()
                                    .collect();
                                for k in keys {
                                    if let Some(t) = self.open_tags.remove(&k) {
                                        self.open_tags.insert((new_key, k.1), t);
                                    }
                                }
                            }
                            _ => out.push(viol(
                                "C16",
                                "transfer_accounts_missing",
                                ix.tag,
                                format!("old {acc} new {new_key}"),
                                idx,
                            )),
                        }
                    }
                }
            }
            // structural invariants on every account after the instruction
            for (k, acc) in model::all_accounts(b) {
                // skip unchanged accounts (cheap byte compare)
                let unchanged = a
                    .get(&k)
                    .zip(b.get(&k))
                    .map(|(x, y)| x.data == y.data)
                    .unwrap_or(false);
                if unchanged {
                    continue;
                }
                self.check_account(&k, &acc, b, ix.tag, idx, out);
                // tag permanence
                let mut still: Vec<(Pubkey, Pubkey)> = Vec::new();
                for bal in acc.lending_account.balances.iter().filter(|x| x.active != 0) {
                    let key = (k, bal.bank_pk);
                    still.push(key);
                    match self.open_tags.get(&key) {
                        Some(t) if *t != bal.bank_asset_tag => out.push(viol(
                            "C16",
                            "slot_tag_changed",
                            ix.tag,
                            format!("account {k} bank {} {} -> {}", bal.bank_pk, t, bal.bank_asset_tag),
                            idx,
                        )),
                        Some(_) => {}
                        None => {
                            if !s.is_fork {
                                self.open_tags.insert(key, bal.bank_asset_tag);
                            }
                            if ix.tag == "liquidate" {
                                self.cov.probe("slot_created_by_liquidation");
                            }
                            // a freshly opened slot carries the bank's current tag
                            if let Some(bank) = model::bank_of(b, &bal.bank_pk) {
                                if bank.config.asset_tag != bal.bank_asset_tag
                                    && !ix.tag.starts_with("transfer_to_new_account")
                                {
                                    out.push(viol(
                                        "C16",
                                        "new_slot_wrong_tag",
                                        ix.tag,
                                        format!("account {k} bank {}", bal.bank_pk),
                                        idx,
                                    ));
                                }
                            }
                        }
                    }
                    if let Some(bank) = model::bank_of(b, &bal.bank_pk) {
                        if bank.config.asset_tag != bal.bank_asset_tag {
                            self.cov.probe("bank_tag_changed_under_open_slot");
                        }
                    }
                }
                if !s.is_fork {
                    let gone: Vec<(Pubkey, Pubkey)> = self
                        .open_tags
                        .keys()
                        .filter(|(ak, _)| *ak == k)
                        .filter(|key| !still.contains(key))
                        .cloned()
                        .collect();
                    for g in gone {
                        self.open_tags.remove(&g);
                    }
                }
            }
        }
    }
}
