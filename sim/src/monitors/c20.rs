//! C20 - venue exchange-rate handling never overstates value and fails closed.
//!
//! Decided on the INTEG profiles: real marginfi venue deposits / withdrawals and the six real
//! exchange-rate-adjusted price adapters, against stub venues whose books and token movements are
//! computed independently (big integers, rounding against the depositor) and whose exchange rate
//! rises over simulated time.  What is judged:
//!  * staleness (clock-dependent): a venue account not refreshed in the current slot (Solend,
//!    Kamino) or second (Drift) never yields a price, and no Solend / Kamino deposit or withdrawal
//!    goes through on it;
//!  * the adjusted price the adapter reports never exceeds price x exact exchange rate (one-sided,
//!    exact rationals), stays within the derived truncation bound of it, and does not fall when
//!    the feed price or the venue's rate rises with everything else equal;
//!  * fail closed: when the exactly computed adjusted value does not fit the integer type it is
//!    stored in, the adapter must report an error, not a price;
//!  * no value from conversions: a venue deposit never credits a position with more than the
//!    venue credited to the bank's own venue position, and that credit is never worth more than
//!    the tokens paid in; a venue withdrawal never pays the user more than the venue released,
//!    nor more than the debited units are worth at the exact rate; consequently (checked directly,
//!    after every transaction) the bank's claims on a venue never exceed the venue position it
//!    holds;
//!  * conformance: against a venue that computes exactly, marginfi's own expectation of the
//!    venue's result (its conversion helpers) is never off by more than the tolerance marginfi
//!    itself grants - i.e. the "deposit / withdraw failed" read-back errors never fire.

use super::{ix_bank, ix_user_account, viol};
use crate::model::{self, pow10, q_str, q_w, qi, qu, Q};
use crate::refm::{self, OracleBad};
use crate::rt::{Store, Tx};
use crate::sim::{Cov, Hook, Monitor, Step, Violation};
use crate::venues;
use anchor_lang::prelude::Pubkey;
use marginfi_type_crate::constants::{ASSET_TAG_DRIFT, ASSET_TAG_KAMINO, ASSET_TAG_SOLEND};
use marginfi_type_crate::types::{Bank, OracleSetup};
use num_traits::Zero;
use std::collections::BTreeMap;

#[derive(Clone, Debug, PartialEq)]
struct ProbeRec {
    /// exponent of the feed's integer mantissa (the adjustment truncates to that mantissa, so
    /// pairs are only comparable at equal exponent)
    expo: i32,
    base_price: Q,
    liq: Q,
    col: u64,
    got: Q,
}

pub struct C20 {
    cov: Cov,
    last: BTreeMap<Pubkey, ProbeRec>,
}

impl Default for C20 {
    fn default() -> Self {
        let mut cov = Cov::default();
        cov.declare(&[
            "adapter_probe_fresh_venue",
            "adapter_probe_stale_venue_rejected",
            "adapter_probe_overflow_rejected",
            "adjusted_price_strictly_below_exact",
            "monotonicity_pair_judged",
            "venue_deposit_judged",
            "venue_withdraw_judged",
            "venue_withdraw_all_judged",
            "cover_invariant_judged",
            "stale_venue_instruction_rejected",
            "exchange_rate_not_one",
            "drift_deposit_judged",
            "drift_withdraw_judged",
            "round_trip_at_unchanged_rate",
        ]);
        C20 { cov, last: BTreeMap::new() }
    }
}

fn is_venue_bank(b: &Bank) -> bool {
    matches!(b.config.asset_tag, ASSET_TAG_KAMINO | ASSET_TAG_SOLEND | ASSET_TAG_DRIFT)
}

/// (units of the venue's collateral the bank holds at the venue, exact tokens per unit)
fn venue_position(store: &Store, bank: &Bank) -> Option<(u64, Q)> {
    let a1 = store.get(&bank.integration_acc_1)?;
    let a2 = store.get(&bank.integration_acc_2)?;
    match bank.config.asset_tag {
        ASSET_TAG_SOLEND => {
            let v = venues::parse_solend_reserve(&a1.data)?;
            let dep = venues::solend_obligation_deposited(&a2.data)?;
            let l = qu(v.available) + model::qu128(v.borrowed_wads) / pow10(18) - model::qu128(v.fees_wads) / pow10(18);
            let rate = if v.collateral_supply == 0 { qi(1) } else { l / qu(v.collateral_supply) };
            Some((dep, rate))
        }
        ASSET_TAG_KAMINO => {
            let v = venues::parse_kamino_reserve(&a1.data)?;
            let dep = venues::kamino_obligation_deposited(&a2.data)?;
            let sf = Q::from_integer(num_bigint::BigInt::from(1u8) << 60);
            let l = qu(v.available) + model::qu128(v.borrowed_sf) / &sf - model::qu128(v.fees_sf) / &sf;
            let rate = if v.collateral_supply == 0 { qi(1) } else { l / qu(v.collateral_supply) };
            Some((dep, rate))
        }
        ASSET_TAG_DRIFT => {
            let v = venues::parse_drift_market(&a1.data)?;
            let bal = venues::drift_user_scaled_balance(&a2.data, v.market_index)?;
            if v.decimals > 19 {
                return None;
            }
            // tokens per unit of scaled balance
            let rate = model::qu128(v.cumulative_deposit_interest) / pow10(19 - v.decimals);
            Some((bal, rate))
        }
        _ => None,
    }
}

fn venue_stale(store: &Store, bank: &Bank, clock: crate::rt::SimClock) -> Option<bool> {
    let a1 = store.get(&bank.integration_acc_1)?;
    match bank.config.asset_tag {
        ASSET_TAG_SOLEND => Some(venues::parse_solend_reserve(&a1.data)?.slot < clock.slot),
        ASSET_TAG_KAMINO => Some(venues::parse_kamino_reserve(&a1.data)?.slot < clock.slot),
        ASSET_TAG_DRIFT => Some((venues::parse_drift_market(&a1.data)?.last_interest_ts as i64) < clock.unix_timestamp),
        _ => None,
    }
}

/// (total liquidity as the rate's numerator, collateral supply) for the monotonicity pairs
fn rate_parts(store: &Store, bank: &Bank) -> Option<(Q, u64)> {
    let a1 = store.get(&bank.integration_acc_1)?;
    match bank.config.asset_tag {
        ASSET_TAG_SOLEND => {
            let v = venues::parse_solend_reserve(&a1.data)?;
            Some((qu(v.available) + model::qu128(v.borrowed_wads) / pow10(18) - model::qu128(v.fees_wads) / pow10(18), v.collateral_supply))
        }
        ASSET_TAG_KAMINO => {
            let v = venues::parse_kamino_reserve(&a1.data)?;
            let sf = Q::from_integer(num_bigint::BigInt::from(1u8) << 60);
            Some((qu(v.available) + model::qu128(v.borrowed_sf) / &sf - model::qu128(v.fees_sf) / &sf, v.collateral_supply))
        }
        ASSET_TAG_DRIFT => {
            let v = venues::parse_drift_market(&a1.data)?;
            Some((model::qu128(v.cumulative_deposit_interest), 1))
        }
        _ => None,
    }
}

/// the base feed's spot price (unadjusted), exact, with the exponent of its mantissa
fn base_price(store: &Store, bank: &Bank) -> Option<(Q, i32)> {
    let acc = store.get(&bank.config.oracle_keys[0])?;
    match bank.config.oracle_setup {
        OracleSetup::KaminoPythPush | OracleSetup::SolendPythPull | OracleSetup::DriftPythPull => {
            let p = crate::fixtures::parse_pyth(&acc.data)?;
            let m = qi(p.price as i128);
            Some((if p.exponent >= 0 { m * pow10(p.exponent as u32) } else { m / pow10((-p.exponent) as u32) }, p.exponent))
        }
        OracleSetup::KaminoSwitchboardPull | OracleSetup::SolendSwitchboardPull | OracleSetup::DriftSwitchboardPull => {
            let s = crate::fixtures::parse_swb(&acc.data)?;
            Some((qi(s.value) / pow10(18), -18))
        }
        _ => None,
    }
}

impl C20 {
    fn probe_bank(&mut self, bk: &Pubkey, store: &Store, hook: &Hook, why: &str, out: &mut Vec<Violation>) {
        let Some(bank) = model::bank_of(store, bk) else { return };
        if !is_venue_bank(&bank) {
            return;
        }
        let rem = crate::world::oracle_metas_for(&bank);
        let t = Tx::one("c20_probe", crate::ix::pulse_bank_price_cache(bank.group, *bk, rem));
        let (o, post) = hook.exec.execute(store, hook.clock, &t);
        let kind = format!("{:?}", bank.config.oracle_setup);
        // the venue account on its own: authentic and fresh?
        let vr = refm::venue_rate(store, &bank, hook.clock);
        match &vr {
            Err(e) => {
                self.cov.eval(format!("probe|{kind}|venue_{e:?}|ok{}|{why}", o.ok() as u8));
                if o.ok() {
                    let rule = if *e == OracleBad::Stale { "stale_venue_priced" } else { "unusable_venue_account_priced" };
                    out.push(viol("C20", rule, "pulse_bank_price_cache", format!("bank {bk}: venue account {:?} is {e:?} but the adapter produced a price", bank.config.oracle_keys[1]), hook.event_index));
                } else if *e == OracleBad::Stale {
                    self.cov.probe("adapter_probe_stale_venue_rejected");
                }
                return;
            }
            Ok(v) => {
                if v.rate.as_ref().map(|r| *r != qi(1)).unwrap_or(false) {
                    self.cov.probe("exchange_rate_not_one");
                }
            }
        }
        match refm::read_oracle(store, &bank, hook.clock) {
            Err(OracleBad::OutOfRange) => {
                self.cov.eval(format!("probe|{kind}|overflow|ok{}|{why}", o.ok() as u8));
                if o.ok() {
                    out.push(viol("C20", "conversion_overflow_not_reported", "pulse_bank_price_cache", format!("bank {bk}: the exactly adjusted value does not fit its integer type, yet a price was produced (feed {:?}, liquidity/collateral {:?}, cached price now {:?})", base_price(store, &bank).map(|(p, e)| (q_str(&p), e)), rate_parts(store, &bank).map(|(l, c)| (q_str(&l), c)), post.as_ref().and_then(|s| model::bank_of(s, bk)).map(|b| q_str(&q_w(b.cache.last_oracle_price)))), hook.event_index));
                } else {
                    self.cov.probe("adapter_probe_overflow_rejected");
                }
            }
            Err(_) => {} // base feed unusable: C09's business
            Ok(view) => {
                if !o.ok() {
                    self.cov.eval(format!("probe|{kind}|fresh|rej{}|{why}", o.code().unwrap_or(0)));
                    return;
                }
                let Some(pb) = post.as_ref().and_then(|s| model::bank_of(s, bk)) else { return };
                self.cov.probe("adapter_probe_fresh_venue");
                self.cov.eval(format!("probe|{kind}|fresh|ok|{why}"));
                let got = q_w(pb.cache.last_oracle_price);
                let exact = view.spot.price.clone();
                if exact >= qi(0) {
                    // one-sided: the final truncation to the integer mantissa only ever lowers the
                    // result, so the adapter may exceed price x exact rate by no more than the
                    // error of the program's own fixed-point ratio (derived; ~1e-17 relative in
                    // ordinary venue states, zero for Drift's integer arithmetic)
                    if got > &exact + &view.adj_ratio_err {
                        out.push(viol("C20", "adjusted_price_exceeds_price_times_rate", "pulse_bank_price_cache", format!("bank {bk}: adapter {} exact {} (excess {}, ratio allowance {})", q_str(&got), q_str(&exact), q_str(&(&got - &exact)), q_str(&view.adj_ratio_err)), hook.event_index));
                    } else if got < exact {
                        self.cov.probe("adjusted_price_strictly_below_exact");
                    }
                    let bound = refm::biased_price_err(&view, false);
                    if &exact - &got > bound {
                        out.push(viol("C20", "adjusted_price_far_below_price_times_rate", "pulse_bank_price_cache", format!("bank {bk}: adapter {} exact {} bound {}", q_str(&got), q_str(&exact), q_str(&bound)), hook.event_index));
                    }
                }
                // monotone in the feed price and in the rate, everything else equal
                if let (Some((bp, expo)), Some((liq, col))) = (base_price(store, &bank), rate_parts(store, &bank)) {
                    if let Some(prev) = self.last.get(bk) {
                        if prev.col == col && prev.expo == expo && bp >= prev.base_price && liq >= prev.liq && bp >= qi(0) {
                            self.cov.probe("monotonicity_pair_judged");
                            if got < prev.got {
                                out.push(viol("C20", "adjusted_price_not_monotone", "pulse_bank_price_cache", format!("bank {bk}: feed {} -> {}, liquidity {} -> {}, same collateral supply, adapter price {} -> {}", q_str(&prev.base_price), q_str(&bp), q_str(&prev.liq), q_str(&liq), q_str(&prev.got), q_str(&got)), hook.event_index));
                            }
                        }
                    }
                    self.last.insert(*bk, ProbeRec { expo, base_price: bp, liq, col, got });
                }
            }
        }
    }
}

const MISMATCH_CODES: [u32; 6] = [6204, 6205, 6308, 6309, 6410, 6412];

impl Monitor for C20 {
    fn property(&self) -> &'static str {
        "C20"
    }
    fn cov(&self) -> &Cov {
        &self.cov
    }
    fn on_set_account(&mut self, key: &Pubkey, _pre: &Store, post: &Store, why: &'static str, hook: &Hook, out: &mut Vec<Violation>) {
        if !why.starts_with("oracle") {
            return;
        }
        for (bk, b) in model::all_banks(post) {
            if is_venue_bank(&b) && b.config.oracle_keys[..2].contains(key) {
                self.probe_bank(&bk, post, hook, why, out);
            }
        }
    }
    fn on_advance(&mut self, _pre: crate::rt::SimClock, _post: crate::rt::SimClock, store: &Store, hook: &Hook, out: &mut Vec<Violation>) {
        for (bk, b) in model::all_banks(store) {
            if is_venue_bank(&b) {
                self.probe_bank(&bk, store, hook, "advance", out);
            }
        }
    }
    fn on_tx(&mut self, s: &Step, out: &mut Vec<Violation>) {
        let idx = s.event_index;
        if let Err(e) = &s.out.result {
            if let Some(ix) = s.tx.ixs.get(e.ix_index) {
                if super::is_venue_deposit(ix.tag) || super::is_venue_withdraw(ix.tag) {
                    self.cov.eval(format!("{}|rej{}", ix.tag, e.code));
                    if matches!(e.code, 6206 | 6411 | 6322 | 0x5717 | 0x5718 | 0x5719) {
                        self.cov.probe("stale_venue_instruction_rejected");
                    }
                    if MISMATCH_CODES.contains(&e.code) {
                        // marginfi's expectation of the venue's result disagrees with what an
                        // exactly computing venue did, beyond the tolerance marginfi grants itself
                        let sane = ix_bank(ix)
                            .and_then(|b| model::bank_of(s.pre, &b))
                            .and_then(|b| rate_parts(s.pre, &b).map(|(l, c)| (b, l, c)))
                            .map(|(b, l, c)| {
                                // claim only for venue states of ordinary size (at least a thousand
                                // whole tokens outstanding): with dust-sized supplies the 48-bit
                                // scaled supplies lose too many digits and the program refuses
                                let unit = pow10(b.mint_decimals as u32);
                                b.config.asset_tag == ASSET_TAG_DRIFT || (qu(c) >= &unit * qi(1000) && l >= &unit * qi(1000))
                            })
                            .unwrap_or(false);
                        if sane {
                            out.push(viol("C20", "expectation_disagrees_with_exact_venue_result", ix.tag, format!("error {} ({})", e.code, e.msg), idx));
                        }
                    }
                }
            }
            return;
        }
        let states = s.states();
        for (i, ix) in s.tx.ixs.iter().enumerate() {
            if ix.program_id != crate::rt::marginfi_id() {
                continue;
            }
            let dep = super::is_venue_deposit(ix.tag);
            let wd = super::is_venue_withdraw(ix.tag);
            if !dep && !wd {
                continue;
            }
            let (a, b) = (states[i], states[i + 1]);
            let (Some(bk), Some(acc)) = (ix_bank(ix), ix_user_account(ix)) else { continue };
            let (Some(bank0), Some(bank1)) = (model::bank_of(a, &bk), model::bank_of(b, &bk)) else { continue };
            let (Some((pos0, rate0)), Some((pos1, rate1))) = (venue_position(a, &bank0), venue_position(b, &bank1)) else { continue };
            // staleness at the moment of the instruction (Drift's handler refreshes by itself)
            if bank0.config.asset_tag != ASSET_TAG_DRIFT && venue_stale(a, &bank0, s.clock) == Some(true) {
                out.push(viol("C20", "stale_venue_transacted", ix.tag, format!("bank {bk}: venue account not refreshed in slot {}", s.clock.slot), idx));
            }
            let sh = |st: &Store| -> Q {
                model::account_of(st, &acc)
                    .and_then(|x| x.lending_account.balances.iter().find(|p| p.active != 0 && p.bank_pk == bk).map(|p| q_w(p.asset_shares)))
                    .unwrap_or_else(Q::zero)
            };
            let (s0, s1) = (sh(a), sh(b));
            // tokens: the user's side is slot 4 (Solend / Kamino) or 7 (Drift)
            let ta = if bank0.config.asset_tag == ASSET_TAG_DRIFT { ix.accounts.get(7) } else { ix.accounts.get(4) }.map(|m| m.pubkey);
            let Some(ta) = ta else { continue };
            let (t0, t1) = (model::vault_amount(a, &ta), model::vault_amount(b, &ta));
            let vault_of_venue = match bank0.config.asset_tag {
                ASSET_TAG_SOLEND => venues::parse_solend_reserve(&a.get(&bank0.integration_acc_1).map(|x| x.data.clone()).unwrap_or_default()).map(|v| v.liquidity_supply),
                ASSET_TAG_KAMINO => venues::parse_kamino_reserve(&a.get(&bank0.integration_acc_1).map(|x| x.data.clone()).unwrap_or_default()).map(|v| v.supply_vault),
                _ => venues::parse_drift_market(&a.get(&bank0.integration_acc_1).map(|x| x.data.clone()).unwrap_or_default()).map(|v| v.vault),
            };
            let (v0, v1) = vault_of_venue.map(|k| (model::vault_amount(a, &k), model::vault_amount(b, &k))).unwrap_or((0, 0));
            let tag_kind = match bank0.config.asset_tag {
                ASSET_TAG_DRIFT => "drift",
                ASSET_TAG_KAMINO => "kamino",
                _ => "solend",
            };
            if dep {
                self.cov.probe("venue_deposit_judged");
                if tag_kind == "drift" {
                    self.cov.probe("drift_deposit_judged");
                }
                let paid = qu(t0.saturating_sub(t1));
                let credited = &s1 - &s0;
                let venue_credit = qu(pos1.saturating_sub(pos0));
                self.cov.eval(format!("{}|ok|rate1_{}|first{}", ix.tag, (rate0 == qi(1)) as u8, s0.is_zero() as u8));
                if credited > venue_credit {
                    out.push(viol("C20", "deposit_credited_more_than_venue_credited", ix.tag, format!("bank {bk}: position +{} venue position +{}", q_str(&credited), q_str(&venue_credit)), idx));
                }
                // worth at the exact rate (before or after: both are bounded by the payment)
                // (a venue with nothing outstanding hands out its initial rate whatever liquidity
                // it shows; that is the venue's own rule, so the post-deposit rate is only used
                // when collateral was outstanding before)
                let outstanding_before = rate_parts(a, &bank0).map(|(_, c)| c > 0).unwrap_or(false);
                if &credited * &rate0 > paid.clone() || (outstanding_before && &credited * &rate1 > paid) {
                    out.push(viol("C20", "deposit_credit_worth_more_than_paid", ix.tag, format!("bank {bk}: credited {} units at rate {} (after: {}) for {} tokens; venue position {pos0} -> {pos1}", credited, rate0, rate1, t0.saturating_sub(t1)), idx));
                }
                if qu(v1.saturating_sub(v0)) < qu(t0.saturating_sub(t1)) {
                    out.push(viol("C20", "deposit_not_forwarded_to_venue", ix.tag, format!("bank {bk}: user paid {} venue received {}", t0.saturating_sub(t1), v1.saturating_sub(v0)), idx));
                }
            } else {
                self.cov.probe("venue_withdraw_judged");
                if tag_kind == "drift" {
                    self.cov.probe("drift_withdraw_judged");
                }
                let received = qu(t1.saturating_sub(t0));
                let debited = &s0 - &s1;
                let venue_debit = qu(pos0.saturating_sub(pos1));
                let released = qu(v0.saturating_sub(v1));
                let all = s1.is_zero();
                if all {
                    self.cov.probe("venue_withdraw_all_judged");
                }
                self.cov.eval(format!("{}|ok|rate1_{}|all{}", ix.tag, (rate0 == qi(1)) as u8, all as u8));
                if received > released {
                    out.push(viol("C20", "withdraw_paid_more_than_venue_released", ix.tag, format!("bank {bk}: user got {} venue released {}", q_str(&received), q_str(&released)), idx));
                }
                if venue_debit > debited {
                    // the venue position shrank by more than the user's claim did: the difference
                    // is taken from the other depositors' cover
                    out.push(viol("C20", "withdraw_burned_more_venue_units_than_debited", ix.tag, format!("bank {bk}: venue position -{} position -{}", q_str(&venue_debit), q_str(&debited)), idx));
                }
                if tag_kind == "drift" {
                    // Drift's own rule (and the property's): a withdrawal burns at least the balance
                    // a deposit of the same amount mints, i.e. floor(tokens / rate) units
                    let minted_by_same_deposit = (&received / &rate0).floor();
                    if debited < minted_by_same_deposit {
                        out.push(viol("C20", "drift_withdraw_burned_less_than_deposit_mints", ix.tag, format!("bank {bk}: got {} tokens, burned {} units, a deposit of that amount mints {}", q_str(&received), q_str(&debited), q_str(&minted_by_same_deposit)), idx));
                    }
                } else if received > &debited * &rate0 {
                    out.push(viol("C20", "withdraw_paid_more_than_debited_units_are_worth", ix.tag, format!("bank {bk}: got {} for {} units at rate {}", q_str(&received), q_str(&debited), q_str(&rate0)), idx));
                }
            }
        }
        // after every committed transaction: the bank's claims never exceed its venue position
        for (bk, bank) in model::all_banks(s.post) {
            if !is_venue_bank(&bank) {
                continue;
            }
            let Some((pos, _)) = venue_position(s.post, &bank) else { continue };
            let claims = q_w(bank.total_asset_shares) * q_w(bank.asset_share_value);
            self.cov.probe("cover_invariant_judged");
            if claims > qu(pos) {
                let changed = model::bank_of(s.pre, &bk).map(|p| p.total_asset_shares != bank.total_asset_shares).unwrap_or(true)
                    || venue_position(s.pre, &bank).map(|(p0, _)| p0 != pos).unwrap_or(true);
                if changed {
                    let tag = s.tx.ixs.iter().map(|x| x.tag).find(|t| super::is_venue_deposit(t) || super::is_venue_withdraw(t)).unwrap_or("(other)");
                    out.push(viol("C20", "bank_claims_exceed_venue_position", tag, format!("bank {bk}: claims {} venue position {pos}", q_str(&claims)), idx));
                }
            }
        }
        // zero-time round trip: deposit then full withdrawal in consecutive instructions of one
        // transaction is covered by the per-instruction bounds; count the ones that occur
        if s.tx.ixs.len() >= 2 && s.tx.ixs.windows(2).any(|w| super::is_venue_deposit(w[0].tag) && super::is_venue_withdraw(w[1].tag)) {
            self.cov.probe("round_trip_at_unchanged_rate");
        }
    }
}
