//! C12 — least privilege: each admin role changes only what it is entitled to; a freeze is
//! permanent; forced deleverage is bracketed, cannot worsen health, and respects the daily limit.

use super::bracket::{self, Kind};
use super::{ix_bank, viol};
use crate::model::{self, q_str, q_w, qi, qu, Q};
use crate::refm;
use crate::rt::{marginfi_id, Store};
use crate::sim::{Cov, Monitor, Step, Violation};
use anchor_lang::prelude::Pubkey;
use marginfi_type_crate::constants::*;
use num_traits::Zero;
use std::collections::{BTreeMap, BTreeSet};

pub struct C12 {
    cov: Cov,
    frozen: BTreeSet<Pubkey>,
    /// per group: (last observed window reset timestamp, (time, whole dollars) of every deleverage
    /// withdrawal since the last reset BY EXPIRY - a re-configuration of the limit moves the
    /// window start but forgives nothing)
    window: BTreeMap<Pubkey, (i64, Vec<(i64, Q)>)>,
}

impl Default for C12 {
    fn default() -> Self {
        let mut cov = Cov::default();
        bracket::declare(&mut cov);
        cov.declare(&[
            "interest_only_ok",
            "limits_only_ok",
            "emode_ok",
            "clone_emode_ok",
            "setup_emissions_ok",
            "update_emissions_ok",
            "write_metadata_ok",
            "force_tokenless_ok",
            "purge_ok",
            "configure_bank_ok",
            "configure_frozen_bank_ok",
            "bank_frozen",
            "oracle_change_on_frozen_bank_rejected",
            "deleverage_window_reset",
            "deleverage_withdrawals_before_a_reconfiguration_counted",
            "deleverage_limit_hit",
            "group_configure_judged",
            "purge_judged",
            "edit_fee_state_judged",
            "group_roles_changed",
            "deleverage_withdraw_counted",
        ]);
        C12 {
            cov,
            frozen: BTreeSet::new(),
            window: BTreeMap::new(),
        }
    }
}

const CONFIG_FIELDS: &[&str] = &[
    "config.asset_weight_init",
    "config.asset_weight_maint",
    "config.liability_weight_init",
    "config.liability_weight_maint",
    "config.deposit_limit",
    "config.borrow_limit",
    "config.interest_rate_config",
    "config.operational_state",
    "config.risk_tier",
    "config.asset_tag",
    "config.total_asset_value_init_limit",
    "config.oracle_max_age",
    "config.oracle_max_confidence",
    "flags.permissionless_bad_debt",
    "flags.freeze_settings",
    "flags.tokenless_allowed",
];

fn allowed(tag: &str, frozen: bool) -> Option<Vec<&'static str>> {
    Some(match tag {
        "configure_bank_interest_only" => {
            if frozen {
                vec![]
            } else {
                vec!["config.interest_rate_config"]
            }
        }
        "configure_bank_limits_only" => {
            if frozen {
                vec!["config.deposit_limit", "config.borrow_limit"]
            } else {
                vec!["config.deposit_limit", "config.borrow_limit", "config.total_asset_value_init_limit"]
            }
        }
        "configure_bank_emode" | "clone_emode" => vec!["emode"],
        "setup_emissions" => vec!["emissions_mint", "emissions_rate", "emissions_remaining", "flags.emissions"],
        "update_emissions" => vec!["emissions_rate", "emissions_remaining", "flags.emissions"],
        "write_bank_metadata" | "init_bank_metadata" => vec![],
        "force_tokenless_repay_complete" => vec!["flags.tokenless_complete"],
        "purge_deleverage_balance" => vec!["total_asset_shares", "lending_position_count"],
        "configure_bank" => {
            if frozen {
                vec!["config.deposit_limit", "config.borrow_limit"]
            } else {
                CONFIG_FIELDS.to_vec()
            }
        }
        // anybody may copy the group's staked-collateral settings onto a staked bank: exactly
        // the seven fields the settings carry
        "propagate_staked_settings" => vec![
            "config.oracle_keys",
            "config.asset_weight_init",
            "config.asset_weight_maint",
            "config.deposit_limit",
            "config.total_asset_value_init_limit",
            "config.oracle_max_age",
            "config.risk_tier",
        ],
        "edit_staked_settings" | "init_staked_settings" => vec![],
        "configure_bank_oracle" | "set_fixed_oracle_price" => {
            vec!["config.oracle_setup", "config.oracle_keys", "config.fixed_price"]
        }
        _ => return None,
    })
}

fn accounts_digest(store: &Store) -> BTreeMap<Pubkey, Vec<u8>> {
    model::all_accounts(store)
        .into_iter()
        .map(|(k, a)| {
            let mut v = bytemuck::bytes_of(&a.lending_account).to_vec();
            v.extend_from_slice(&a.account_flags.to_le_bytes());
            v.extend_from_slice(a.authority.as_ref());
            (k, v)
        })
        .collect()
}

impl Monitor for C12 {
    fn property(&self) -> &'static str {
        "C12"
    }
    fn cov(&self) -> &Cov {
        &self.cov
    }
    fn on_tx(&mut self, s: &Step, out: &mut Vec<Violation>) {
        let idx = s.event_index;
        bracket::judge("C12", Kind::Deleverage, s, &mut self.cov, out);
        if let Err(e) = &s.out.result {
            if let Some(ix) = s.tx.ixs.get(e.ix_index) {
                if matches!(ix.tag, "configure_bank_oracle" | "set_fixed_oracle_price") {
                    if let Some(bk) = ix_bank(ix) {
                        if self.frozen.contains(&bk) {
                            self.cov.probe("oracle_change_on_frozen_bank_rejected");
                        }
                    }
                }
                if e.code == 6101 {
                    self.cov.probe("deleverage_limit_hit");
                }
            }
            return;
        }
        bracket::check_no_marker_survives("C12", s, out);
        let states = s.states();
        for (i, ix) in s.tx.ixs.iter().enumerate() {
            if ix.program_id != marginfi_id() {
                continue;
            }
            let a = states[i];
            let b = states[i + 1];
            // freeze is permanent: in every later state of a bank once frozen
            for k in self.frozen.iter() {
                if let Some(bank) = model::bank_of(b, k) {
                    if bank.flags & FREEZE_SETTINGS == 0 {
                        out.push(viol("C12", "freeze_lifted", ix.tag, format!("bank {k}"), idx));
                    }
                }
            }
            for (k, bank) in model::all_banks(b) {
                if bank.flags & FREEZE_SETTINGS != 0 && !self.frozen.contains(&k) {
                    self.cov.probe("bank_frozen");
                    if !s.is_fork {
                        self.frozen.insert(k);
                    }
                }
            }
            // deleverage daily limit (fixed windows between resets)
            if super::is_withdraw(ix.tag) {
                let acc_key = ix.accounts[1].pubkey;
                let group_key = ix.accounts[0].pubkey;
                let in_delev = model::account_of(a, &acc_key)
                    .map(|x| x.account_flags & marginfi_type_crate::types::ACCOUNT_IN_DELEVERAGE != 0)
                    .unwrap_or(false);
                if in_delev {
                    if let (Some(g0), Some(g1)) = (model::group_of(a, &group_key), model::group_of(b, &group_key)) {
                        let w0 = g0.deleverage_withdraw_window_cache;
                        let w1 = g1.deleverage_withdraw_window_cache;
                        // forks are judged on a copy: only the main line's withdrawals persist
                        let mut local = self
                            .window
                            .get(&group_key)
                            .cloned()
                            .unwrap_or((w0.last_daily_reset_timestamp, Vec::new()));
                        let entry = &mut local;
                        if w1.last_daily_reset_timestamp != entry.0 {
                            if w1.last_daily_reset_timestamp - entry.0 < 86_400 && entry.0 != 0 {
                                // a reset by configure_deleverage_withdrawal_limit is admin action, judged below
                                if w1.last_daily_reset_timestamp != w0.last_daily_reset_timestamp {
                                    out.push(viol("C12", "deleverage_window_reset_early", ix.tag,
                                        format!("group {group_key}: {} -> {}", entry.0, w1.last_daily_reset_timestamp), idx));
                                }
                            }
                            self.cov.probe("deleverage_window_reset");
                            *entry = (w1.last_daily_reset_timestamp, Vec::new());
                        }
                        // dollar value of this withdrawal at the low-biased spot price
                        let bk = ix.accounts[3].pubkey;
                        if let (Some(bank0), Some(bank1)) = (model::bank_of(a, &bk), model::bank_of(b, &bk)) {
                            // plain banks: tokens that left the vault; venue banks (tokens pass
                            // through the vault): units taken off the position
                            let amount = if super::is_venue_withdraw(ix.tag) {
                                let sh = |st: &crate::rt::Store| model::account_of(st, &acc_key)
                                    .and_then(|x| x.lending_account.balances.iter().find(|p| p.active != 0 && p.bank_pk == bk).map(|p| model::q_w(p.asset_shares)))
                                    .unwrap_or_else(Q::zero);
                                let d = sh(a) - sh(b);
                                if d < Q::zero() { Q::zero() } else { d }
                            } else {
                                qu(model::vault_amount(a, &bank0.liquidity_vault).saturating_sub(model::vault_amount(b, &bank1.liquidity_vault)))
                            };
                            if let Some((low, _, _)) = refm::read_oracle(a, &bank0, s.clock).ok().and_then(|v| refm::biased(&v, &bank0, false).ok()) {
                                let dollars = (amount * low / model::pow10(refm::balance_decimals(&bank0) as u32)).floor();
                                let now = s.clock.unix_timestamp;
                                entry.1.push((now, dollars));
                                self.cov.probe("deleverage_withdraw_counted");
                                let limit = w1.daily_limit;
                                // "within a day": withdrawals of the current window chain that are
                                // less than 24 h old (a subset of what the program's own counter
                                // holds, so the unchanged program can never exceed it)
                                let recent: Vec<&(i64, Q)> = entry.1.iter().filter(|(t, _)| now - *t < 86_400).collect();
                                let sum = recent.iter().fold(Q::zero(), |acc, (_, d)| acc + d);
                                if recent.len() < entry.1.len() || entry.1.iter().any(|(t, _)| *t < entry.0) {
                                    self.cov.probe("deleverage_withdrawals_before_a_reconfiguration_counted");
                                }
                                // one dollar of truncation slack per counted withdrawal
                                if limit != 0 && sum > qu(limit as u64) + qi(recent.len() as i128) {
                                    out.push(viol("C12", "deleverage_daily_limit_exceeded", ix.tag,
                                        format!("group {group_key}: withdrawn {} within a day, limit {limit}", q_str(&sum)), idx));
                                }
                                // forget what can no longer matter
                                entry.1.retain(|(t, _)| now - *t < 86_400);
                            }
                        }
                        if !s.is_fork {
                            self.window.insert(group_key, local);
                        }
                    }
                }
            }
            // purge: only on a bank whose token-less wind-down is COMPLETE, only a deposit-side
            // balance, and the bank total shrinks by exactly that balance's shares
            if ix.tag == "purge_deleverage_balance" {
                let acc_key = ix.accounts[1].pubkey;
                let bk = ix.accounts[3].pubkey;
                if let (Some(b0), Some(b1), Some(a0)) = (model::bank_of(a, &bk), model::bank_of(b, &bk), model::account_of(a, &acc_key)) {
                    self.cov.probe("purge_judged");
                    if b0.flags & TOKENLESS_REPAYMENTS_COMPLETE == 0 {
                        out.push(viol("C12", "purged_before_wind_down_complete", ix.tag,
                            format!("bank {bk}: flags {:#x} (token-less repayments complete not set)", b0.flags), idx));
                    }
                    if let Some(sl) = super::slot_of(&a0, &bk) {
                        if model::q_w(sl.liability_shares) >= model::qi(1) {
                            out.push(viol("C12", "purged_a_debt_balance", ix.tag, format!("account {acc_key} bank {bk}"), idx));
                        }
                        let d = model::q_w(b0.total_asset_shares) - model::q_w(b1.total_asset_shares);
                        if d != model::q_w(sl.asset_shares) {
                            out.push(viol("C12", "purge_removed_other_than_the_balances_shares", ix.tag,
                                format!("bank {bk}: total fell by {} balance held {}", model::q_str(&d), model::q_str(&model::q_w(sl.asset_shares))), idx));
                        }
                    }
                }
            }
            // group_configure: exactly the seven requested role holders and the two leverage caps
            // (defaults when omitted) are stored; nothing else in the group moves but the
            // fee-cache timestamp
            if ix.tag == "group_configure" && ix.data.len() >= 8 + 7 * 32 {
                let gk = ix.accounts[0].pubkey;
                if let (Some(g0), Some(g1)) = (model::group_of(a, &gk), model::group_of(b, &gk)) {
                    let pk = |i: usize| Pubkey::new_from_array(ix.data[8 + 32 * i..8 + 32 * (i + 1)].try_into().unwrap());
                    let want = [pk(0), pk(1), pk(2), pk(3), pk(4), pk(5), pk(6)];
                    let got = [g1.admin, g1.emode_admin, g1.delegate_curve_admin, g1.delegate_limit_admin, g1.delegate_emissions_admin, g1.metadata_admin, g1.risk_admin];
                    self.cov.probe("group_configure_judged");
                    if [g0.admin, g0.emode_admin, g0.delegate_curve_admin, g0.delegate_limit_admin, g0.delegate_emissions_admin, g0.metadata_admin, g0.risk_admin] != want {
                        self.cov.probe("group_roles_changed");
                    }
                    if got != want {
                        out.push(viol("C12", "group_configure_stored_other_roles_than_requested", ix.tag,
                            format!("group {gk}: requested {:?} stored {:?}", want, got), idx));
                    }
                    let mut x0 = g0;
                    let mut x1 = g1;
                    for x in [&mut x0, &mut x1] {
                        x.admin = Pubkey::default();
                        x.emode_admin = Pubkey::default();
                        x.delegate_curve_admin = Pubkey::default();
                        x.delegate_limit_admin = Pubkey::default();
                        x.delegate_emissions_admin = Pubkey::default();
                        x.metadata_admin = Pubkey::default();
                        x.risk_admin = Pubkey::default();
                        x.emode_max_init_leverage = 0;
                        x.emode_max_maint_leverage = 0;
                        x.fee_state_cache.last_update = 0;
                    }
                    if bytemuck::bytes_of(&x0) != bytemuck::bytes_of(&x1) {
                        out.push(viol("C12", "group_configure_wrote_outside_remit", ix.tag, format!("group {gk}"), idx));
                    }
                }
            }
            // edit_global_fee_state: the fee state stores exactly what was requested
            if ix.tag == "edit_global_fee_state" && ix.data.len() >= 8 + 64 + 8 + 48 {
                if let Some(f1) = model::fee_state_of(b) {
                    let d = &ix.data[8..];
                    let admin = Pubkey::new_from_array(d[0..32].try_into().unwrap());
                    let wallet = Pubkey::new_from_array(d[32..64].try_into().unwrap());
                    let flat = u32::from_le_bytes(d[64..68].try_into().unwrap());
                    let liq_flat = u32::from_le_bytes(d[68..72].try_into().unwrap());
                    let fixed: [u8; 16] = d[72..88].try_into().unwrap();
                    let rate: [u8; 16] = d[88..104].try_into().unwrap();
                    let maxfee: [u8; 16] = d[104..120].try_into().unwrap();
                    self.cov.probe("edit_fee_state_judged");
                    if f1.global_fee_admin != admin
                        || f1.global_fee_wallet != wallet
                        || f1.bank_init_flat_sol_fee != flat
                        || f1.liquidation_flat_sol_fee != liq_flat
                        || f1.program_fee_fixed.value != fixed
                        || f1.program_fee_rate.value != rate
                        || f1.liquidation_max_fee.value != maxfee
                    {
                        out.push(viol("C12", "edit_fee_state_stored_other_than_requested", ix.tag,
                            format!("admin {} wallet {}", f1.global_fee_admin, f1.global_fee_wallet), idx));
                    }
                    if let Some(f0) = model::fee_state_of(a) {
                        if bytemuck::bytes_of(&f0.panic_state) != bytemuck::bytes_of(&f1.panic_state) {
                            out.push(viol("C12", "edit_fee_state_touched_pause_state", ix.tag, String::new(), idx));
                        }
                    }
                }
            }
            if ix.tag == "configure_deleverage_withdrawal_limit" {
                let group_key = ix.accounts[0].pubkey;
                if let Some(g1) = model::group_of(b, &group_key) {
                    if !s.is_fork {
                        // the window start moves to now; what was withdrawn earlier today still counts
                        let ts = g1.deleverage_withdraw_window_cache.last_daily_reset_timestamp;
                        self.window.entry(group_key).or_insert((ts, Vec::new())).0 = ts;
                    }
                }
            }
            // field masks
            let Some(bk) = ix_bank(ix).or_else(|| if ix.tag == "clone_emode" { ix.accounts.get(3).map(|m| m.pubkey) } else { None }) else { continue };
            let (Some(pre), Some(post)) = (model::bank_of(a, &bk), model::bank_of(b, &bk)) else { continue };
            let was_frozen = pre.flags & FREEZE_SETTINGS != 0;
            let Some(mask) = allowed(ix.tag, was_frozen) else { continue };
            let changed = model::bank_changed_fields(&pre, &post);
            let set: String = changed.iter().cloned().collect::<Vec<_>>().join("+");
            self.cov.eval(format!("{}|frozen{}|{}", ix.tag, was_frozen as u8, set));
            match ix.tag {
                "configure_bank_interest_only" => self.cov.probe("interest_only_ok"),
                "configure_bank_limits_only" => self.cov.probe("limits_only_ok"),
                "configure_bank_emode" => self.cov.probe("emode_ok"),
                "clone_emode" => self.cov.probe("clone_emode_ok"),
                "setup_emissions" => self.cov.probe("setup_emissions_ok"),
                "update_emissions" => self.cov.probe("update_emissions_ok"),
                "write_bank_metadata" => self.cov.probe("write_metadata_ok"),
                "force_tokenless_repay_complete" => self.cov.probe("force_tokenless_ok"),
                "purge_deleverage_balance" => self.cov.probe("purge_ok"),
                "configure_bank" => self.cov.probe(if was_frozen { "configure_frozen_bank_ok" } else { "configure_bank_ok" }),
                _ => {}
            }
            if was_frozen && matches!(ix.tag, "configure_bank_oracle" | "set_fixed_oracle_price") {
                out.push(viol("C12", "oracle_changed_on_frozen_bank", ix.tag, format!("bank {bk}"), idx));
            }
            let outside: Vec<&str> = changed.iter().filter(|f| !mask.contains(f)).cloned().collect();
            if !outside.is_empty() {
                out.push(viol(
                    "C12",
                    "wrote_outside_remit",
                    ix.tag,
                    format!("bank {bk} (frozen={was_frozen}): changed {} outside the allowed {:?}", outside.join(","), mask),
                    idx,
                ));
            }
            // nothing else in the world moves: other banks, groups (except the acted-on one for
            // none of these), user accounts (except purge's target)
            for (k, ob) in model::all_banks(b) {
                if k == bk {
                    continue;
                }
                if let Some(oa) = model::bank_of(a, &k) {
                    if bytemuck::bytes_of(&oa) != bytemuck::bytes_of(&ob) {
                        out.push(viol("C12", "other_bank_changed", ix.tag, format!("bank {k}"), idx));
                    }
                }
            }
            let (da, db) = (accounts_digest(a), accounts_digest(b));
            for (k, v) in db.iter() {
                if da.get(k) != Some(v) {
                    let is_purge_target = ix.tag == "purge_deleverage_balance" && ix.accounts[1].pubkey == *k;
                    if !is_purge_target {
                        out.push(viol("C12", "user_account_changed_by_admin_ix", ix.tag, format!("account {k}"), idx));
                    }
                }
            }
            for (k, g1) in model::all_groups(b) {
                if let Some(g0) = model::group_of(a, &k) {
                    if bytemuck::bytes_of(&g0) != bytemuck::bytes_of(&g1) {
                        out.push(viol("C12", "group_changed_by_bank_admin_ix", ix.tag, format!("group {k}"), idx));
                    }
                }
            }
            // vaults of the bank are untouched by configuration
            for v in [pre.liquidity_vault, pre.insurance_vault, pre.fee_vault] {
                if model::vault_amount(a, &v) != model::vault_amount(b, &v) {
                    out.push(viol("C12", "vault_moved_by_admin_ix", ix.tag, format!("vault {v}"), idx));
                }
            }
            let _ = q_w;
        }
    }
}
