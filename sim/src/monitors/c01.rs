//! C01 — bank solvency: vault tokens cover net depositor claims plus accrued fees.
//! S = V - (A - L + F).  Per successful instruction dS >= -allowance(instruction, pre-state).

use super::viol;
use crate::model::{self, q_str, q_w, qi, qu, ulp, BankQ, Q};
use crate::sim::{Cov, Monitor, Step, Violation};
use anchor_lang::prelude::Pubkey;
use marginfi_type_crate::constants::*;
use marginfi_type_crate::types::*;
use num_traits::Zero;
use std::collections::BTreeSet;

pub struct C01 {
    cov: Cov,
    exempt: BTreeSet<Pubkey>,
}

impl Default for C01 {
    fn default() -> Self {
        let mut cov = Cov::default();
        cov.declare(&[
            "fee_collection_bucket_gt_liquidity",
            "liquidation_fractional_insurance_fee",
            "t22_fee_deposit",
            "t22_fee_withdraw",
            "origination_fee_borrow",
            "bankruptcy_partial_socialisation",
            "bankruptcy_kill",
            "exempt_tokenless",
            "accrual_observed",
            "solvency_margin_positive",
        ]);
        C01 {
            cov,
            exempt: BTreeSet::new(),
        }
    }
}

pub fn is_marginfi_custodied(b: &Bank) -> bool {
    matches!(
        b.config.asset_tag,
        ASSET_TAG_DEFAULT | ASSET_TAG_SOL | ASSET_TAG_STAKED
    )
}

/// Lower allowance for the change of S across an accrual over `dt` seconds (derived in DESIGN
/// appendix D): (L*tau + 10*U*tau + TL*(lsv+1) + 4) ulp, tau = dt / year.
pub fn accrual_lower_allow(pre: &BankQ, dt: i64) -> Q {
    if dt <= 0 {
        return Q::zero();
    }
    let tau = qi(dt as i128) / qi(31_536_000);
    let l = pre.liabs();
    let a = pre.assets();
    let util = if a.is_zero() { Q::zero() } else { &l / &a };
    (&l * &tau + qi(10) * util * &tau + &pre.tl * (&pre.lsv + qi(1)) + qi(4)) * ulp()
}

impl Monitor for C01 {
    fn property(&self) -> &'static str {
        "C01"
    }
    fn cov(&self) -> &Cov {
        &self.cov
    }
    fn on_tx(&mut self, s: &Step, out: &mut Vec<Violation>) {
        if !s.ok() {
            return;
        }
        let idx = s.event_index;
        let states = s.states();
        let mut new_exempt: Vec<Pubkey> = Vec::new();
        for (i, ix) in s.tx.ixs.iter().enumerate() {
            if ix.program_id != crate::rt::marginfi_id() {
                continue;
            }
            let a = states[i];
            let b = states[i + 1];
            for (bk, post) in model::all_banks(b) {
                if !is_marginfi_custodied(&post) {
                    continue;
                }
                let Some(pre) = model::bank_of(a, &bk) else { continue };
                let v0 = model::vault_amount(a, &pre.liquidity_vault);
                let v1 = model::vault_amount(b, &post.liquidity_vault);
                let q0 = BankQ::of(&pre);
                let q1 = BankQ::of(&post);
                let unchanged = v0 == v1
                    && q0.asv == q1.asv
                    && q0.lsv == q1.lsv
                    && q0.ta == q1.ta
                    && q0.tl == q1.tl
                    && q0.fees() == q1.fees();
                if unchanged {
                    continue;
                }
                // sanctioned exemptions, observed not assumed
                if post.config.operational_state == BankOperationalState::KilledByBankruptcy {
                    if pre.config.operational_state != BankOperationalState::KilledByBankruptcy {
                        self.cov.probe("bankruptcy_kill");
                        if ix.tag != "handle_bankruptcy" {
                            out.push(viol(
                                "C01",
                                "killed_outside_bankruptcy",
                                ix.tag,
                                format!("bank {bk}"),
                                idx,
                            ));
                        }
                    }
                    new_exempt.push(bk);
                    continue;
                }
                if ix.tag == "repay"
                    && pre.flags & TOKENLESS_REPAYMENTS_ALLOWED != 0
                    && v0 == v1
                    && q1.tl < q0.tl
                {
                    // token-less write-off: must be the risk admin with repay_all
                    let signer = ix.accounts.get(2).map(|m| m.pubkey);
                    let group = model::group_of(a, &pre.group);
                    let is_risk = group.map(|g| Some(g.risk_admin) == signer).unwrap_or(false);
                    if !is_risk {
                        out.push(viol(
                            "C01",
                            "tokenless_writeoff_by_non_risk_admin",
                            ix.tag,
                            format!("bank {bk}"),
                            idx,
                        ));
                    }
                    self.cov.probe("exempt_tokenless");
                    // only this instruction is exempt: the rule is a per-instruction delta, so the
                    // bank keeps being judged afterwards (a later write-off on the then un-flagged
                    // bank is not sanctioned)
                    continue;
                }
                if self.exempt.contains(&bk) || new_exempt.contains(&bk) {
                    continue;
                }
                let s0 = qu(v0) - (q0.assets() - q0.liabs() + q0.fees());
                let s1 = qu(v1) - (q1.assets() - q1.liabs() + q1.fees());
                let ds = &s1 - &s0;
                let dt = s.clock.unix_timestamp - pre.last_update;
                // an accrual ran if time had passed and the bank's clock moved, even when the
                // per-period growth truncated to zero and only the fee buckets changed
                let accrued = q0.asv != q1.asv
                    || q0.lsv != q1.lsv
                    || (dt > 0 && pre.last_update != post.last_update);
                let sv = model::q_max(
                    model::q_max(q0.asv.clone(), q1.asv.clone()),
                    model::q_max(q0.lsv.clone(), q1.lsv.clone()),
                );
                let mut allow = &sv * ulp() * qi(4) + ulp() * qi(4);
                if accrued && ix.tag != "handle_bankruptcy" {
                    allow += accrual_lower_allow(&q0, dt);
                    self.cov.probe("accrual_observed");
                }
                if ix.tag == "handle_bankruptcy" {
                    // accrual + socialisation: asv' = trunc((TA*asv - loss)/TA) loses < TA*ulp
                    allow += accrual_lower_allow(&q0, dt) + &q0.ta * ulp() * qi(2);
                    if q1.asv < q0.asv {
                        self.cov.probe("bankruptcy_partial_socialisation");
                    }
                }
                let util = if q1.assets().is_zero() {
                    0
                } else {
                    let u = q1.liabs() / q1.assets() * qi(10);
                    model::q_f64(&u).min(11.0) as i64
                };
                let mag = format!("{:.0}", model::q_f64(&q1.assets()).max(1.0).log10());
                self.cov.eval(format!(
                    "{}|{}|u{}|sv{}|m{}",
                    ix.tag,
                    if post.mint == Pubkey::default() { "?" } else { "" },
                    util,
                    (q1.asv > qi(1)) as u8 + 2 * (q1.asv < qi(1)) as u8,
                    mag
                ));
                if s1 > qi(0) {
                    self.cov.probe("solvency_margin_positive");
                }
                if matches!(ix.tag, "deposit" | "withdraw" | "repay" | "borrow") {
                    if let Some(m) = a.get(&pre.mint) {
                        if crate::fixtures::mint_fee_at(m, s.clock.epoch).map(|(bps, _)| bps > 0).unwrap_or(false) {
                            self.cov.probe(if matches!(ix.tag, "deposit" | "repay") { "t22_fee_deposit" } else { "t22_fee_withdraw" });
                        }
                    }
                }
                match ix.tag {
                    "collect_bank_fees" => {
                        if q0.fees() > qu(v0) {
                            self.cov.probe("fee_collection_bucket_gt_liquidity");
                        }
                    }
                    "liquidate" => {
                        if q1.ins != q0.ins {
                            self.cov.probe("liquidation_fractional_insurance_fee");
                        }
                    }
                    "borrow" => {
                        if q1.grp > q0.grp {
                            self.cov.probe("origination_fee_borrow");
                        }
                    }
                    _ => {}
                }
                if ds < -allow.clone() {
                    out.push(viol(
                        "C01",
                        "solvency_decreased",
                        ix.tag,
                        format!(
                            "bank {bk}: S {} -> {} (dS {}, allowance {}); V {}->{} A {}->{} L {}->{} F {}->{}",
                            q_str(&s0),
                            q_str(&s1),
                            q_str(&ds),
                            q_str(&allow),
                            v0,
                            v1,
                            q_str(&q0.assets()),
                            q_str(&q1.assets()),
                            q_str(&q0.liabs()),
                            q_str(&q1.liabs()),
                            q_str(&q0.fees()),
                            q_str(&q1.fees())
                        ),
                        idx,
                    ));
                }
                // fees are never negative
                if q1.ins < qi(0) || q1.grp < qi(0) || q1.prg < qi(0) {
                    out.push(viol(
                        "C01",
                        "negative_fee_bucket",
                        ix.tag,
                        format!("bank {bk}"),
                        idx,
                    ));
                }
            }
        }
        if !s.is_fork {
            self.exempt.extend(new_exempt);
        }
        let _ = q_w;
    }
}
