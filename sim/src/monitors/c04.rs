//! C04 — risk gate: a successful borrow / withdraw leaves the account initially healthy
//! (independent recomputation), isolated debt is the only debt, and a healthy action is never
//! rejected for insufficient health.

use super::{codes, ix_user_account, viol};
use crate::model::{self, q_str, qi};
use crate::refm::{self, HealthErr, Req};
use crate::sim::{Cov, Monitor, Step, Violation};
use marginfi_type_crate::types::*;


pub struct C04 {
    cov: Cov,
    /// last judged borrow/withdraw: (account, bank, tag, amount, accepted) - for the boundary probe
    last: Option<(anchor_lang::prelude::Pubkey, Option<anchor_lang::prelude::Pubkey>, &'static str, u64, bool)>,
}

impl C04 {
    /// fires when the same action on the same account was accepted at one amount and refused for
    /// health at another at most 2 native units away (consecutive judgements, main line only)
    fn boundary_probe(&mut self, acc: anchor_lang::prelude::Pubkey, bank: Option<anchor_lang::prelude::Pubkey>, tag: &'static str, data: &[u8], accepted: bool) {
        let Some(amount) = data.get(8..16).map(|b| u64::from_le_bytes(b.try_into().unwrap())) else { return };
        if let Some((a, b, t, x, ok)) = self.last {
            if a == acc && b == bank && t == tag && ok != accepted && x.abs_diff(amount) <= 2 {
                self.cov.probe("accept_and_reject_within_2_units");
            }
        }
        self.last = Some((acc, bank, tag, amount, accepted));
    }
}

impl Default for C04 {
    fn default() -> Self {
        let mut cov = Cov::default();
        cov.declare(&[
            "accepted",
            "rejected_for_health",
            "accept_and_reject_within_2_units",
            "emode_weight_applied",
            "cap_discount_active",
            "stale_collateral_zeroed_yet_accepted",
            "reduce_only_collateral_present",
            "isolated_debt_accepted",
            "isolated_rejected",
            "health_cache_matches_ref",
            "health_cache_differs_from_ref",
            "positions_ge_4",
        ]);
        C04 { cov, last: None }
    }
}

fn in_bracket(a: &MarginfiAccount) -> bool {
    a.account_flags & (ACCOUNT_IN_FLASHLOAN | ACCOUNT_IN_RECEIVERSHIP | ACCOUNT_IN_DELEVERAGE) != 0
}

impl Monitor for C04 {
    fn property(&self) -> &'static str {
        "C04"
    }
    fn cov(&self) -> &Cov {
        &self.cov
    }
    fn on_tx(&mut self, s: &Step, out: &mut Vec<Violation>) {
        let idx = s.event_index;
        if s.ok() {
            let states = s.states();
            for (i, ix) in s.tx.ixs.iter().enumerate() {
                if ix.tag != "borrow" && !super::is_withdraw(ix.tag) {
                    continue;
                }
                let Some(acc_key) = ix_user_account(ix) else { continue };
                let Some(pre) = model::account_of(states[i], &acc_key) else { continue };
                if in_bracket(&pre) {
                    continue;
                }
                let post_store = states[i + 1];
                let Some(post) = model::account_of(post_store, &acc_key) else { continue };
                match refm::health(post_store, &post, Req::Init, s.clock) {
                    Ok(h) => {
                        let net = h.net();
                        let n = h.positions.len();
                        let has_emode = !refm::reconciled_emode(post_store, &post).is_empty();
                        self.cov.eval(format!(
                            "{}|ok|n{}|e{}|z{}|iso{}|f{}",
                            ix.tag,
                            n.min(6),
                            has_emode as u8,
                            h.any_zeroed as u8,
                            h.n_isolated_liabs,
                            s.is_fork as u8
                        ));
                        self.cov.probe("accepted");
                        if !s.is_fork {
                            self.boundary_probe(acc_key, super::ix_bank(ix), ix.tag, &ix.data, true);
                        }
                        if n >= 4 {
                            self.cov.probe("positions_ge_4");
                        }
                        if h.any_zeroed && h.n_liabs > 0 {
                            self.cov.probe("stale_collateral_zeroed_yet_accepted");
                        }
                        if has_emode {
                            self.cov.probe("emode_weight_applied");
                        }
                        if h.n_isolated_liabs > 0 {
                            self.cov.probe("isolated_debt_accepted");
                        }
                        if h.n_liabs > 0 {
                            for pe in h.positions.iter().filter(|p| !p.is_liab) {
                                if let Some(bank) = model::bank_of(post_store, &pe.bank) {
                                    if bank.config.operational_state == BankOperationalState::ReduceOnly {
                                        self.cov.probe("reduce_only_collateral_present");
                                    }
                                    if bank.config.total_asset_value_init_limit != 0 && bank.config.total_asset_value_init_limit != u64::MAX {
                                        self.cov.probe("cap_discount_active");
                                    }
                                }
                            }
                        }
                        if net < -h.err.clone() {
                            out.push(viol(
                                "C04",
                                "accepted_unhealthy",
                                ix.tag,
                                format!(
                                    "account {acc_key}: ref init assets {} liabs {} net {} (allowance {})",
                                    q_str(&h.assets),
                                    q_str(&h.liabs),
                                    q_str(&net),
                                    q_str(&h.err)
                                ),
                                idx,
                            ));
                        }
                        if h.n_isolated_liabs > 0 && h.n_liabs > 1 {
                            out.push(viol(
                                "C04",
                                "isolated_debt_not_alone",
                                ix.tag,
                                format!("account {acc_key}: {} debts, {} isolated", h.n_liabs, h.n_isolated_liabs),
                                idx,
                            ));
                        }
                        // cross-check of the cache the instruction wrote (probe only)
                        let ca = model::q_w(post.health_cache.asset_value);
                        let cl = model::q_w(post.health_cache.liability_value);
                        if h.n_liabs > 0 {
                            if (&ca - &h.assets).abs_le(&h.err) && (&cl - &h.liabs).abs_le(&h.err) {
                                self.cov.probe("health_cache_matches_ref");
                            } else {
                                self.cov.probe("health_cache_differs_from_ref");
                            }
                        }
                    }
                    Err(HealthErr::PriceUnusable(bank, why)) => {
                        // a liability (or, for the acted-on bank, nothing) priced with an unusable oracle
                        out.push(viol(
                            "C04",
                            "accepted_with_unusable_debt_price",
                            ix.tag,
                            format!("account {acc_key}: bank {bank}: {why:?}"),
                            idx,
                        ));
                    }
                    Err(HealthErr::BankMissing(_)) => {}
                }
            }
        } else if let (Err(e), Some(fs)) = (&s.out.result, &s.out.failed_state) {
            let Some(ix) = s.tx.ixs.get(e.ix_index) else { return };
            if ix.tag != "borrow" && !super::is_withdraw(ix.tag) {
                return;
            }
            let Some(acc_key) = ix_user_account(ix) else { return };
            let Some(post) = model::account_of(fs, &acc_key) else { return };
            if in_bracket(&post) {
                return;
            }
            if e.code == codes::RISK_ENGINE_INIT_REJECTED {
                if let Ok(h) = refm::health(fs, &post, Req::Init, s.clock) {
                    self.cov.probe("rejected_for_health");
                    if !s.is_fork {
                        self.boundary_probe(acc_key, super::ix_bank(ix), ix.tag, &ix.data, false);
                    }
                    self.cov.eval(format!(
                        "{}|rej|n{}|z{}|f{}",
                        ix.tag,
                        h.positions.len().min(6),
                        h.any_zeroed as u8,
                        s.is_fork as u8
                    ));
                    // Ref treats confidence failures of collateral as zero; the program would
                    // have errored differently, so a health rejection means all prices loaded.
                    if h.net() > h.err.clone() && !h.any_zeroed && !h.any_uncertain {
                        out.push(viol(
                            "C04",
                            "rejected_though_healthy",
                            ix.tag,
                            format!(
                                "account {acc_key}: ref init net {} > allowance {}",
                                q_str(&h.net()),
                                q_str(&h.err)
                            ),
                            idx,
                        ));
                    }
                }
            } else if e.code == codes::ISOLATED_ILLEGAL {
                self.cov.probe("isolated_rejected");
                if let Ok(h) = refm::health(fs, &post, Req::Init, s.clock) {
                    if !(h.n_isolated_liabs > 0 && h.n_liabs > 1) {
                        out.push(viol(
                            "C04",
                            "isolated_rejection_unjustified",
                            ix.tag,
                            format!("account {acc_key}: {} debts, {} isolated", h.n_liabs, h.n_isolated_liabs),
                            idx,
                        ));
                    }
                }
            }
            let _ = qi(0);
        }
    }
}

trait AbsLe {
    fn abs_le(&self, e: &model::Q) -> bool;
}
impl AbsLe for model::Q {
    fn abs_le(&self, e: &model::Q) -> bool {
        use num_traits::Signed;
        self.abs() <= *e
    }
}
