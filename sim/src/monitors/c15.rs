//! C15 — the emergency pause is bounded: users always regain access within a fixed time.

use super::{codes, viol};
use crate::fixtures;
use crate::model;
use crate::rt::{marginfi_id, spl_token_id, token22_id, Store, Tx};
use crate::sim::{Cov, Monitor, Step, Violation};
use marginfi_type_crate::types::*;

pub struct C15 {
    cov: Cov,
    pauses_since_reset: u32,
    last_reset: i64,
    steps: u64,
    /// the latest instant up to which the GLOBAL pause state has ever scheduled the protocol to
    /// stay paused (max over history of start + 1800 while the flag was set)
    horizon: i64,
}

impl Default for C15 {
    fn default() -> Self {
        let mut cov = Cov::default();
        cov.declare(&[
            "pause_ok",
            "pause_extended",
            "daily_limit_hit",
            "consecutive_limit_hit",
            "daily_counter_reset",
            "admin_unpause_ok",
            "permissionless_unpause_ok",
            "permissionless_unpause_refused_not_expired",
            "canary_unblocked_at_exactly_until",
            "canary_blocked_one_second_before",
            "canary_run",
            "canary_after_every_scheduled_pause_ran_out",
        ]);
        C15 {
            cov,
            pauses_since_reset: 0,
            last_reset: 0,
            steps: 0,
            horizon: 0,
        }
    }
}

fn until(p: &PanicState) -> Option<i64> {
    if p.pause_flags & 1 != 0 {
        Some(p.pause_start_timestamp + 1800)
    } else {
        None
    }
}

fn region(p: &PanicState, now: i64) -> String {
    let dt = now - p.pause_start_timestamp;
    let r1 = if p.pause_flags & 1 == 0 { "off" } else if dt < 0 { "future" } else if dt < 1799 { "early" } else if dt == 1799 { "last" } else if dt == 1800 { "exact" } else { "past" };
    let dr = now - p.last_daily_reset_timestamp;
    let r2 = if dr < 86_399 { "in" } else if dr == 86_399 { "last" } else if dr == 86_400 { "exact" } else { "past" };
    format!("f{}d{}c{}|{r1}|{r2}", p.pause_flags & 1, p.daily_pause_count, p.consecutive_pause_count)
}

/// Build a canary deposit for some user of `group` (monitor-side: independent of harness state).
fn canary_deposit(store: &Store, group: &anchor_lang::prelude::Pubkey) -> Option<Tx> {
    for (ak, acc) in model::all_accounts(store) {
        if acc.group != *group || acc.account_flags & (ACCOUNT_DISABLED | ACCOUNT_FROZEN) != 0 {
            continue;
        }
        for (bk, bank) in model::all_banks(store) {
            if bank.group != *group || bank.config.operational_state != BankOperationalState::Operational {
                continue;
            }
            if bank.flags & marginfi_type_crate::constants::TOKENLESS_REPAYMENTS_ALLOWED != 0 {
                continue;
            }
            let mint_acc = store.get(&bank.mint)?;
            let tp = mint_acc.owner;
            for (tk, ta) in store.accounts.iter() {
                if (ta.owner == spl_token_id() || ta.owner == token22_id())
                    && ta.data.len() >= 165
                    && fixtures::token_owner(&ta.data) == acc.authority
                    && fixtures::token_mint(&ta.data) == bank.mint
                    && fixtures::token_amount(&ta.data) >= 2
                {
                    let keys = crate::ix::BankKeys::new(*group, bk, bank.mint, tp);
                    return Some(Tx::one("c15_canary", crate::ix::deposit(&keys, ak, acc.authority, *tk, 1, Some(true))));
                }
            }
        }
    }
    None
}

impl Monitor for C15 {
    fn property(&self) -> &'static str {
        "C15"
    }
    fn cov(&self) -> &Cov {
        &self.cov
    }
    fn on_tx(&mut self, s: &Step, out: &mut Vec<Violation>) {
        let idx = s.event_index;
        let now = s.clock.unix_timestamp;
        let (Some(f0), Some(f1)) = (model::fee_state_of(s.pre), model::fee_state_of(s.post)) else { return };
        let p0 = f0.panic_state;
        let p1 = f1.panic_state;
        let pause_ix = s.tx.ixs.iter().find(|x| x.program_id == marginfi_id() && x.tag.starts_with("panic_"));
        if let Some(ix) = pause_ix {
            let signer = ix.accounts.first().map(|m| m.pubkey);
            let is_admin = signer == Some(f0.global_fee_admin);
            let code = s.out.code();
            self.cov.eval(format!("{}|{}|{}", ix.tag, region(&p0, now), code.map(|c| c.to_string()).unwrap_or_else(|| "ok".into())));
            match (ix.tag, s.ok()) {
                ("panic_pause", true) => {
                    self.cov.probe("pause_ok");
                    let old_active_until = until(&p0).filter(|u| *u > now).unwrap_or(now);
                    let new_until = until(&p1).unwrap_or(now);
                    if until(&p0).map(|u| u > now).unwrap_or(false) {
                        self.cov.probe("pause_extended");
                    }
                    if new_until - old_active_until > 1800 {
                        out.push(viol("C15", "pause_pushed_more_than_30_minutes", ix.tag,
                            format!("until {} -> {} at {now}", old_active_until, new_until), idx));
                    }
                    if !s.is_fork {
                        if p1.last_daily_reset_timestamp != self.last_reset {
                            if self.last_reset != 0 && p1.last_daily_reset_timestamp - self.last_reset < 86_400 {
                                out.push(viol("C15", "daily_counter_reset_early", ix.tag,
                                    format!("{} -> {}", self.last_reset, p1.last_daily_reset_timestamp), idx));
                            }
                            self.cov.probe("daily_counter_reset");
                            self.last_reset = p1.last_daily_reset_timestamp;
                            self.pauses_since_reset = 0;
                        }
                        self.pauses_since_reset += 1;
                        if self.pauses_since_reset > 3 {
                            out.push(viol("C15", "more_than_three_pauses_between_resets", ix.tag,
                                format!("{} pauses since reset at {}", self.pauses_since_reset, self.last_reset), idx));
                        }
                    }
                }
                ("panic_pause", false) => {
                    if code == Some(6082) {
                        if p0.consecutive_pause_count >= 2 {
                            self.cov.probe("consecutive_limit_hit");
                        } else {
                            self.cov.probe("daily_limit_hit");
                        }
                    }
                }
                ("panic_unpause", ok) => {
                    if ok {
                        self.cov.probe("admin_unpause_ok");
                        if p1.pause_flags & 1 != 0 {
                            out.push(viol("C15", "unpause_left_flag_set", ix.tag, String::new(), idx));
                        }
                    } else if is_admin && p0.pause_flags & 1 != 0 && ix.wrapper.is_none()
                        && s.out.result.as_ref().err().map(|e| e.source == crate::rt::ErrSource::Program || e.source == crate::rt::ErrSource::Panic).unwrap_or(false)
                    {
                        out.push(viol("C15", "admin_unpause_failed_while_paused", ix.tag, format!("code {:?}", code), idx));
                    }
                }
                ("panic_unpause_permissionless", ok) => {
                    let expired = p0.pause_flags & 1 != 0 && now >= p0.pause_start_timestamp && now - p0.pause_start_timestamp >= 1800;
                    if ok {
                        self.cov.probe("permissionless_unpause_ok");
                        if !expired {
                            out.push(viol("C15", "permissionless_unpause_before_expiry", ix.tag,
                                format!("start {} now {now}", p0.pause_start_timestamp), idx));
                        }
                    } else {
                        if p0.pause_flags & 1 != 0 && !expired {
                            self.cov.probe("permissionless_unpause_refused_not_expired");
                        }
                        if expired && s.out.result.as_ref().err().map(|e| e.source == crate::rt::ErrSource::Program).unwrap_or(false) {
                            out.push(viol("C15", "expired_pause_could_not_be_cleared", ix.tag, format!("code {:?}", code), idx));
                        }
                    }
                }
                _ => {}
            }
        }
        if !s.ok() {
            return;
        }
        // in every state: never scheduled to stay paused more than 60 minutes from now
        if let Some(u) = until(&p1) {
            if u - now > 3600 {
                out.push(viol("C15", "paused_more_than_60_minutes_ahead", &crate::sim::tx_tag(s.tx),
                    format!("until {u} now {now}"), idx));
            }
        }
        for (gk, g) in model::all_groups(s.post) {
            let c = g.panic_state_cache;
            if c.pause_flags & 1 != 0 && c.pause_start_timestamp + 1800 - now > 3600 {
                out.push(viol("C15", "group_paused_more_than_60_minutes_ahead", &crate::sim::tx_tag(s.tx),
                    format!("group {gk}: cached start {} now {now}", c.pause_start_timestamp), idx));
            }
        }
        // bounded-liveness canary (sampled): with no further admin action a user deposit is not
        // refused for the pause at the cached expiry second, nor within 3600 s from now
        if s.is_fork {
            return;
        }
        if let Some(u) = until(&p1) {
            self.horizon = self.horizon.max(u);
        }
        // "a pause that has run out stops blocking users immediately without anyone acting": once
        // `now` is past every instant the global state ever scheduled, no group may still refuse
        // users for the pause, whatever its cache says (a cache can lag behind, never run ahead)
        if now >= self.horizon && self.horizon > 0 {
            for (gk, g) in model::all_groups(s.post) {
                let c = g.panic_state_cache;
                if c.pause_flags & 1 == 0 {
                    continue;
                }
                let pause_related = pause_ix.is_some() || s.tx.ixs.iter().any(|x| x.tag == "propagate_fee_state");
                if !(pause_related || self.steps % 16 == 0) {
                    continue;
                }
                let Some(tx) = canary_deposit(s.post, &gk) else { continue };
                self.cov.probe("canary_after_every_scheduled_pause_ran_out");
                let (o, _) = s.exec.execute(s.post, s.clock, &tx);
                if o.code() == Some(codes::PROTOCOL_PAUSED) {
                    out.push(viol("C15", "user_still_blocked_after_pause_ran_out", "deposit",
                        format!("group {gk}: cached start {} now {now}, but the global state never scheduled a pause beyond {}", c.pause_start_timestamp, self.horizon), idx));
                }
            }
        }
        // a group that has just been brought up to date knows the global pause exactly: from the
        // instant the pause it was told about runs out, it may not refuse users - whatever it had
        // cached before (a cache may lag, it may not remember a longer pause than it was told)
        if s.ok() {
            let states = s.states();
            for (i, ix) in s.tx.ixs.iter().enumerate().filter(|(_, x)| x.program_id == crate::rt::marginfi_id() && x.tag == "propagate_fee_state") {
                let Some(gk) = ix.accounts.get(1).map(|m| m.pubkey) else { continue };
                // the global state as it was when this group was told (a later instruction of the
                // same transaction may change it again); skip if the group is told again later
                if s.tx.ixs.iter().skip(i + 1).any(|x| x.tag == "propagate_fee_state" && x.accounts.get(1).map(|m| m.pubkey) == Some(gk)) {
                    continue;
                }
                let Some(fs) = states.get(i + 1).and_then(|st| model::fee_state_of(st)) else { continue };
                let told_until = if fs.panic_state.pause_flags & 1 != 0 { fs.panic_state.pause_start_timestamp + 1800 } else { now };
                let Some(tx) = canary_deposit(s.post, &gk) else { continue };
                let t = told_until.max(now);
                if t - now > 7200 {
                    continue;
                }
                let mut ck = s.clock;
                ck.slot += ((t - now) as u64) * 2;
                ck.unix_timestamp = t;
                self.cov.probe("canary_after_propagation_at_the_told_expiry");
                let (o, _) = s.exec.execute(s.post, ck, &tx);
                if o.code() == Some(codes::PROTOCOL_PAUSED) {
                    out.push(viol("C15", "user_still_blocked_after_pause_ran_out", "deposit",
                        format!("group {gk}: brought up to date at {now} with a pause running until {told_until}, still refuses users at {t}"), idx));
                }
            }
        }
        self.steps += 1;
        let pause_related = pause_ix.is_some() || s.tx.ixs.iter().any(|x| x.tag == "propagate_fee_state");
        if !(pause_related || self.steps % 64 == 0) {
            return;
        }
        for (gk, g) in model::all_groups(s.post) {
            let c = g.panic_state_cache;
            if c.pause_flags & 1 == 0 {
                continue;
            }
            let Some(tx) = canary_deposit(s.post, &gk) else { continue };
            let cached_until = c.pause_start_timestamp + 1800;
            self.cov.probe("canary_run");
            for (t, expect_blocked) in [(cached_until - 1, true), (cached_until, false), (now + 3600, false)] {
                if t < now {
                    continue;
                }
                let mut ck = s.clock;
                ck.slot += ((t - now) as u64) * 2;
                ck.unix_timestamp = t;
                let (o, _) = s.exec.execute(s.post, ck, &tx);
                let paused = o.code() == Some(codes::PROTOCOL_PAUSED);
                if expect_blocked {
                    if paused {
                        self.cov.probe("canary_blocked_one_second_before");
                    }
                } else if paused {
                    out.push(viol("C15", "user_still_blocked_after_pause_ran_out", "deposit",
                        format!("group {gk}: cached start {} probe time {t} (now {now})", c.pause_start_timestamp), idx));
                } else if t == cached_until {
                    self.cov.probe("canary_unblocked_at_exactly_until");
                }
            }
        }
    }
}
