//! C14 — operational-state and global-pause gating of financial instructions.
//! Verdict table written from the property text (DESIGN appendix A).

use super::{codes, viol};
use crate::model::{self, q_w};
use crate::rt::{marginfi_id, Ix, Store};
use crate::sim::{Cov, Monitor, Step, Violation};
use anchor_lang::prelude::Pubkey;
use marginfi_type_crate::types::*;
use std::collections::BTreeMap;

pub struct C14 {
    cov: Cov,
}

impl Default for C14 {
    fn default() -> Self {
        let mut cov = Cov::default();
        cov.declare(&[
            "paused_bank_op_rejected",
            "reduce_only_deposit_rejected",
            "reduce_only_borrow_rejected",
            "reduce_only_withdraw_ok",
            "reduce_only_repay_ok",
            "killed_bank_op_rejected",
            "protocol_paused_rejected",
            "op_ok_after_cached_expiry_without_propagation",
            "pause_in_force_at_last_second",
            "pause_expired_at_exact_second",
            "liquidation_on_paused_bank_rejected",
            "risk_taken_with_reduce_only_collateral_present",
        ]);
        C14 { cov }
    }
}

/// banks an instruction transacts in, with the role class
fn fin_banks(ix: &Ix) -> Vec<(Pubkey, &'static str)> {
    match ix.tag {
        "deposit" | "solend_deposit" | "kamino_deposit" | "drift_deposit" => vec![(ix.accounts[3].pubkey, "deposit")],
        "borrow" => vec![(ix.accounts[3].pubkey, "borrow")],
        "withdraw" | "solend_withdraw" | "kamino_withdraw" | "drift_withdraw" => vec![(ix.accounts[3].pubkey, "withdraw")],
        "repay" => vec![(ix.accounts[3].pubkey, "repay")],
        "liquidate" => vec![(ix.accounts[1].pubkey, "liquidate"), (ix.accounts[2].pubkey, "liquidate")],
        "handle_bankruptcy" => vec![(ix.accounts[2].pubkey, "bankruptcy")],
        _ => vec![],
    }
}

fn group_of_ix(ix: &Ix) -> Option<Pubkey> {
    match ix.tag {
        "deposit" | "borrow" | "withdraw" | "repay" | "liquidate" | "handle_bankruptcy" | "close_balance"
        | "collect_bank_fees" | "withdraw_fees" | "withdraw_insurance" | "withdraw_fees_permissionless"
        | "withdraw_emissions" | "withdraw_emissions_permissionless" | "transfer_to_new_account"
        | "transfer_to_new_account_pda" | "purge_deleverage_balance" | "solend_deposit" | "solend_withdraw" | "kamino_deposit"
        | "kamino_withdraw" | "drift_deposit" | "drift_withdraw" => ix.accounts.first().map(|m| m.pubkey),
        _ => None,
    }
}

fn pause_in_force(g: &MarginfiGroup, now: i64) -> bool {
    let c = g.panic_state_cache;
    c.pause_flags & 1 != 0 && (now < c.pause_start_timestamp || now - c.pause_start_timestamp < 1800)
}

fn funds_and_positions(store: &Store, group: &Pubkey) -> (BTreeMap<Pubkey, u64>, BTreeMap<Pubkey, Vec<u8>>) {
    let mut vaults = BTreeMap::new();
    for (_, b) in model::all_banks(store) {
        if b.group != *group {
            continue;
        }
        for v in [b.liquidity_vault, b.insurance_vault, b.fee_vault] {
            vaults.insert(v, model::vault_amount(store, &v));
        }
    }
    let mut pos = BTreeMap::new();
    for (k, a) in model::all_accounts(store) {
        if a.group != *group {
            continue;
        }
        // a position is a slot holding, on either side, at least one share worth at least 0.0001
        // native units; slots below that are "empty" by the program's own two definitions (fewer
        // than one share; an amount below the zero-amount threshold, which after a socialised
        // loss can be several shares) and dropping them moves nothing anybody could withdraw
        let mut v = Vec::new();
        for b in a.lending_account.balances.iter() {
            if b.active == 0 {
                continue;
            }
            let (asv, lsv) = model::bank_of(store, &b.bank_pk)
                .map(|k| (q_w(k.asset_share_value), q_w(k.liability_share_value)))
                .unwrap_or((model::qi(1), model::qi(1)));
            let thr = model::qr(1, 10_000);
            let sa = q_w(b.asset_shares);
            let sl = q_w(b.liability_shares);
            let a_pos = sa >= model::qi(1) && &sa * &asv >= thr;
            let l_pos = sl >= model::qi(1) && &sl * &lsv >= thr;
            if !a_pos && !l_pos {
                continue;
            }
            v.extend_from_slice(b.bank_pk.as_ref());
            v.extend_from_slice(&b.asset_shares.value);
            v.extend_from_slice(&b.liability_shares.value);
        }
        if !v.is_empty() {
            pos.insert(k, v);
        }
    }
    (vaults, pos)
}

impl Monitor for C14 {
    fn property(&self) -> &'static str {
        "C14"
    }
    fn cov(&self) -> &Cov {
        &self.cov
    }
    fn on_tx(&mut self, s: &Step, out: &mut Vec<Violation>) {
        let idx = s.event_index;
        let now = s.clock.unix_timestamp;
        if let Err(e) = &s.out.result {
            let Some(ix) = s.tx.ixs.get(e.ix_index) else { return };
            if ix.program_id != marginfi_id() {
                return;
            }
            let st = s.out.failed_state.as_ref().unwrap_or(s.pre);
            let _ = st;
            // "must NOT fail with a state/pause code" cells
            if e.code == codes::PROTOCOL_PAUSED {
                self.cov.probe("protocol_paused_rejected");
                if let Some(gk) = group_of_ix(ix) {
                    if let Some(g) = model::group_of(s.pre, &gk) {
                        let c = g.panic_state_cache;
                        let class = if c.pause_flags & 1 == 0 { "noflag" } else if pause_in_force(&g, now) { "inforce" } else { "expired" };
                        self.cov.eval(format!("{}|rej_pause|{class}", ix.tag));
                        if class == "inforce" && now - c.pause_start_timestamp == 1799 {
                            self.cov.probe("pause_in_force_at_last_second");
                        }
                        if class != "inforce" {
                            out.push(viol("C14", "refused_for_pause_that_is_not_in_force", ix.tag,
                                format!("group {gk}: cached flag {} start {} now {now}", c.pause_flags, c.pause_start_timestamp), idx));
                        }
                    }
                }
            }
            for (bk, role) in fin_banks(ix) {
                let Some(bank) = model::bank_of(s.pre, &bk) else { continue };
                let state = bank.config.operational_state;
                self.cov.eval(format!("{role}|{state:?}|rej{}", e.code));
                match (e.code, state) {
                    (codes::BANK_PAUSED, BankOperationalState::Paused) => {
                        self.cov.probe("paused_bank_op_rejected");
                        if role == "liquidate" {
                            self.cov.probe("liquidation_on_paused_bank_rejected");
                        }
                    }
                    (codes::BANK_REDUCE_ONLY, BankOperationalState::ReduceOnly) => match role {
                        "deposit" => self.cov.probe("reduce_only_deposit_rejected"),
                        "borrow" => self.cov.probe("reduce_only_borrow_rejected"),
                        "withdraw" | "repay" => out.push(viol("C14", "reduce_only_refused_withdraw_or_repay", ix.tag, format!("bank {bk}"), idx)),
                        _ => {}
                    },
                    (codes::BANK_KILLED, BankOperationalState::KilledByBankruptcy) => self.cov.probe("killed_bank_op_rejected"),
                    _ => {}
                }
                // a state error code must correspond to the actual state of one of the banks
                // involved (both banks of a liquidation are candidates)
            }
            if matches!(e.code, codes::BANK_PAUSED | codes::BANK_REDUCE_ONLY | codes::BANK_KILLED) {
                let banks = fin_banks(ix);
                let tok = banks.iter().any(|(bk, _)| {
                    model::bank_of(s.pre, bk)
                        .map(|b| {
                            let st = b.config.operational_state;
                            let tokenless = b.flags & marginfi_type_crate::constants::TOKENLESS_REPAYMENTS_ALLOWED != 0;
                            match e.code {
                                codes::BANK_PAUSED => st == BankOperationalState::Paused,
                                codes::BANK_REDUCE_ONLY => st == BankOperationalState::ReduceOnly || tokenless,
                                _ => st == BankOperationalState::KilledByBankruptcy,
                            }
                        })
                        .unwrap_or(true)
                });
                if !banks.is_empty() && !tok {
                    out.push(viol("C14", "refused_for_state_the_bank_is_not_in", ix.tag, format!("code {}", e.code), idx));
                }
            }
            return;
        }
        let states = s.states();
        for (i, ix) in s.tx.ixs.iter().enumerate() {
            if ix.program_id != marginfi_id() {
                continue;
            }
            let a = states[i];
            let b = states[i + 1];
            // reduce-only collateral: "counts for nothing toward new borrowing" (and toward
            // withdrawing other collateral), "but still counts for liquidation purposes"
            if matches!(ix.tag, "borrow" | "withdraw") {
                if let Some(k) = super::ix_user_account(ix) {
                    if let (Some(pre), Some(post)) = (model::account_of(a, &k), model::account_of(b, &k)) {
                        let in_bracket = pre.account_flags & (ACCOUNT_IN_FLASHLOAN | ACCOUNT_IN_RECEIVERSHIP) != 0;
                        let ro: Vec<Pubkey> = post
                            .lending_account
                            .balances
                            .iter()
                            .filter(|x| x.active != 0 && q_w(x.asset_shares) >= model::qi(1))
                            .filter(|x| model::bank_of(b, &x.bank_pk).map(|bk| bk.config.operational_state == BankOperationalState::ReduceOnly).unwrap_or(false))
                            .map(|x| x.bank_pk)
                            .collect();
                        let has_debt = post.lending_account.balances.iter().any(|x| x.active != 0 && q_w(x.liability_shares) >= model::qi(1));
                        if !in_bracket && !ro.is_empty() && has_debt {
                            self.cov.probe("risk_taken_with_reduce_only_collateral_present");
                            // Ref values reduce-only deposits at nil for the initial requirement
                            if let Ok(h) = crate::refm::health(b, &post, crate::refm::Req::Init, s.clock) {
                                self.cov.eval(format!("{}|reduce_only_collateral|emode{}|ok", ix.tag, (!crate::refm::reconciled_emode(b, &post).is_empty()) as u8));
                                if h.net() < -h.err.clone() {
                                    out.push(viol("C14", "reduce_only_deposits_counted_toward_new_borrowing", ix.tag,
                                        format!("account {k}: without the reduce-only deposits in {:?} initial health is {} (assets {} liabilities {})",
                                            ro, model::q_str(&h.net()), model::q_str(&h.assets), model::q_str(&h.liabs)), idx));
                                }
                            }
                        }
                    }
                }
            }
            // bank-state cells: a successful financial instruction on a bank in a forbidden state
            for (bk, role) in fin_banks(ix) {
                let Some(bank) = model::bank_of(a, &bk) else { continue };
                let Some(post) = model::bank_of(b, &bk) else { continue };
                let touched = bank.total_asset_shares != post.total_asset_shares
                    || bank.total_liability_shares != post.total_liability_shares
                    || model::vault_amount(a, &bank.liquidity_vault) != model::vault_amount(b, &post.liquidity_vault);
                let state = bank.config.operational_state;
                self.cov.eval(format!("{role}|{state:?}|ok|t{}", touched as u8));
                if !touched {
                    continue;
                }
                let forbidden = match state {
                    BankOperationalState::Paused => true,
                    BankOperationalState::KilledByBankruptcy => true,
                    BankOperationalState::ReduceOnly => matches!(role, "deposit" | "borrow"),
                    BankOperationalState::Operational => false,
                };
                // a liquidation legitimately touches a reduce-only bank; a bankruptcy that kills the
                // bank starts from a non-killed state, so `state` (pre) is what counts
                if forbidden {
                    out.push(viol("C14", "financial_ix_touched_bank_in_forbidden_state", ix.tag,
                        format!("bank {bk} state {state:?} role {role}"), idx));
                }
                if state == BankOperationalState::ReduceOnly {
                    match role {
                        "withdraw" => self.cov.probe("reduce_only_withdraw_ok"),
                        "repay" => self.cov.probe("reduce_only_repay_ok"),
                        _ => {}
                    }
                }
            }
            // propagation makes the global pause "in force for a group": afterwards the group's
            // cached pause must be the global one (flag and start), whatever was cached before
            if ix.tag == "propagate_fee_state" {
                let gk = ix.accounts[1].pubkey;
                if let (Some(g1), Some(fs)) = (model::group_of(b, &gk), model::fee_state_of(b)) {
                    let c = g1.panic_state_cache;
                    self.cov.eval(format!("propagate|f{}|was{}", fs.panic_state.pause_flags & 1,
                        model::group_of(a, &gk).map(|g| g.panic_state_cache.pause_flags & 1).unwrap_or(0)));
                    if c.pause_flags != fs.panic_state.pause_flags
                        || (c.pause_flags & 1 != 0 && c.pause_start_timestamp != fs.panic_state.pause_start_timestamp)
                    {
                        out.push(viol("C14", "propagation_left_stale_pause_in_group", ix.tag,
                            format!("group {gk}: cached flag {} start {} but global flag {} start {}", c.pause_flags, c.pause_start_timestamp,
                                fs.panic_state.pause_flags, fs.panic_state.pause_start_timestamp), idx));
                    }
                }
            }
            // protocol pause: while in force for a group nothing moves funds or changes positions
            for (gk, g) in model::all_groups(a) {
                let c = g.panic_state_cache;
                if c.pause_flags & 1 == 0 {
                    continue;
                }
                let (v0, p0) = funds_and_positions(a, &gk);
                let (_, p1) = funds_and_positions(b, &gk);
                // vault balances by key (a bank account may be closed by its admin; its vaults stay)
                let vaults_moved = v0.iter().any(|(k, amt)| model::vault_amount(b, k) != *amt);
                let moved = vaults_moved || p0 != p1;
                if pause_in_force(&g, now) {
                    if moved {
                        out.push(viol("C14", "funds_or_positions_changed_during_pause", ix.tag,
                            format!("group {gk}: cached pause start {} now {now}", c.pause_start_timestamp), idx));
                    }
                } else if moved && group_of_ix(ix) == Some(gk) {
                    // cached flag still set, nobody propagated, yet users are served again
                    self.cov.probe("op_ok_after_cached_expiry_without_propagation");
                    if now - c.pause_start_timestamp == 1800 {
                        self.cov.probe("pause_expired_at_exact_second");
                    }
                }
            }
            let _ = q_w;
        }
    }
}
