//! C13 — accepted configurations are coherent and always leave a liquidation buffer.

use super::{ix_bank, viol};
use crate::fixtures;
use crate::model::{self, q_str, q_w, qi, qu, Q};
use crate::rt::{marginfi_id, Account, Store, Tx};
use crate::sim::{Cov, Monitor, Step, Violation};
use anchor_lang::prelude::Pubkey;
use marginfi_type_crate::types::*;

pub struct C13 {
    cov: Cov,
    counter: u64,
}

impl Default for C13 {
    fn default() -> Self {
        let mut cov = Cov::default();
        cov.declare(&[
            "add_bank_judged",
            "configure_bank_judged",
            "emode_configured",
            "emode_cloned",
            "emode_cloned_between_different_weights",
            "rejected_invalid_config",
            "rejected_bad_emode",
            "liability_weights_lowered_under_emode",
            "implication_checked",
            "implication_checked_with_emode",
            "kill_attempt_rejected",
            "staked_bank_added_permissionlessly",
            "staked_settings_propagated",
            "staked_settings_propagated_new_weights",
        ]);
        C13 { cov, counter: 0 }
    }
}

fn validate_weights(b: &Bank) -> Vec<String> {
    let mut v = Vec::new();
    let ai = q_w(b.config.asset_weight_init);
    let am = q_w(b.config.asset_weight_maint);
    let li = q_w(b.config.liability_weight_init);
    let lm = q_w(b.config.liability_weight_maint);
    if ai < qi(0) || ai > qi(1) {
        v.push(format!("asset_weight_init {} outside [0,1]", q_str(&ai)));
    }
    if am < ai {
        v.push(format!("asset_weight_maint {} below init {}", q_str(&am), q_str(&ai)));
    }
    if am > qi(2) {
        v.push(format!("asset_weight_maint {} above 2", q_str(&am)));
    }
    if lm < qi(1) {
        v.push(format!("liability_weight_maint {} below 1", q_str(&lm)));
    }
    if lm > li {
        v.push(format!("liability_weight_maint {} above init {}", q_str(&lm), q_str(&li)));
    }
    if b.config.risk_tier == RiskTier::Isolated && (ai != qi(0) || am != qi(0)) {
        v.push("isolated bank with non-zero asset weight".into());
    }
    if b.config.oracle_max_age < 10 {
        v.push(format!("oracle_max_age {} below minimum", b.config.oracle_max_age));
    }
    v
}

fn validate_emode(b: &Bank, g: &MarginfiGroup) -> Vec<String> {
    let mut v = Vec::new();
    let li = q_w(b.config.liability_weight_init);
    let lm = q_w(b.config.liability_weight_maint);
    let cap = |x: u32| qu(x as u64) / qu(u32::MAX as u64) * qi(100);
    let cap_i = cap(g.emode_max_init_leverage);
    let cap_m = cap(g.emode_max_maint_leverage);
    let slack = model::ulp() * qi(1 << 20); // leverage is computed through two truncating divisions
    for e in b.emode.emode_config.entries.iter() {
        if e.collateral_bank_emode_tag == 0 {
            continue;
        }
        let ei = q_w(e.asset_weight_init);
        let em = q_w(e.asset_weight_maint);
        if ei > em {
            v.push(format!("emode entry {}: init {} above maint {}", e.collateral_bank_emode_tag, q_str(&ei), q_str(&em)));
        }
        if ei < qi(0) {
            v.push(format!("emode entry {}: negative weight", e.collateral_bank_emode_tag));
        }
        for (w, l, c, name) in [(&ei, &li, &cap_i, "init"), (&em, &lm, &cap_m, "maint")] {
            if w >= l {
                v.push(format!("emode entry {} {name}: weight {} not below liability weight {}", e.collateral_bank_emode_tag, q_str(w), q_str(l)));
                continue;
            }
            let lev: Q = qi(1) / (qi(1) - w / l);
            if lev > c + &slack {
                v.push(format!("emode entry {} {name}: leverage {} above cap {}", e.collateral_bank_emode_tag, q_str(&lev), q_str(c)));
            }
        }
    }
    let tags: Vec<u16> = b.emode.emode_config.entries.iter().map(|e| e.collateral_bank_emode_tag).filter(|t| *t != 0).collect();
    let mut sorted = tags.clone();
    sorted.sort();
    sorted.dedup();
    if sorted.len() != tags.len() {
        v.push("duplicate emode tags".into());
    }
    v
}

/// Equal-price world: every oracle reports spot == EMA and zero confidence, fresh at `now`.
fn equalise_prices(store: &Store, now: i64) -> Store {
    let mut s = store.clone();
    let keys: Vec<Pubkey> = s.accounts.keys().cloned().collect();
    for k in keys {
        let a = s.accounts.get(&k).unwrap().clone();
        if a.owner == pyth_solana_receiver_sdk::id() {
            if let Some(mut p) = fixtures::parse_pyth(&a.data) {
                p.ema_price = p.price;
                p.conf = 0;
                p.ema_conf = 0;
                p.publish_time = now;
                p.verification_full = true;
                let mut feed = [0u8; 32];
                let off = if a.data[40] == 0 { 42 } else { 41 };
                feed.copy_from_slice(&a.data[off..off + 32]);
                s.put(k, Account::new(a.lamports, fixtures::pyth_account_data(feed, &p), a.owner));
            }
        } else if a.owner == marginfi::constants::SWITCHBOARD_PULL_ID {
            if let Some(mut w) = fixtures::parse_swb(&a.data) {
                w.std_dev = 0;
                w.last_update_timestamp = now;
                s.put(k, Account::new(a.lamports, fixtures::swb_account_data(&w), a.owner));
            }
        }
    }
    s
}

impl Monitor for C13 {
    fn property(&self) -> &'static str {
        "C13"
    }
    fn cov(&self) -> &Cov {
        &self.cov
    }
    fn on_tx(&mut self, s: &Step, out: &mut Vec<Violation>) {
        let idx = s.event_index;
        if let Err(e) = &s.out.result {
            if let Some(ix) = s.tx.ixs.get(e.ix_index) {
                if ix.tag.starts_with("configure_bank") || ix.tag.starts_with("add_bank") || ix.tag == "clone_emode" || ix.tag.ends_with("staked_settings") {
                    match e.code {
                        6015 => self.cov.probe("rejected_invalid_config"),
                        6075 => self.cov.probe("rejected_bad_emode"),
                        6042 if ix.tag == "configure_bank" => self.cov.probe("kill_attempt_rejected"),
                        _ => {}
                    }
                    self.cov.eval(format!("{}|rej{}", ix.tag, e.code));
                }
            }
            return;
        }
        let states = s.states();
        let mut judged_config = false;
        for (i, ix) in s.tx.ixs.iter().enumerate() {
            if ix.program_id != marginfi_id() {
                continue;
            }
            let a = states[i];
            let b = states[i + 1];
            // killed state is neither entered nor left by anything but bankruptcy
            for (k, post) in model::all_banks(b) {
                let Some(pre) = model::bank_of(a, &k) else { continue };
                let was = pre.config.operational_state == BankOperationalState::KilledByBankruptcy;
                let is = post.config.operational_state == BankOperationalState::KilledByBankruptcy;
                if was != is && ix.tag != "handle_bankruptcy" {
                    out.push(viol("C13", if is { "admin_put_bank_into_killed_state" } else { "admin_took_bank_out_of_killed_state" },
                        ix.tag, format!("bank {k}"), idx));
                }
            }
            let bk = match ix.tag {
                "add_bank" | "add_bank_with_seed" | "add_bank_permissionless" => ix.accounts.get(6).map(|m| m.pubkey),
                "propagate_staked_settings" => ix.accounts.get(2).map(|m| m.pubkey),
                "clone_emode" => ix.accounts.get(3).map(|m| m.pubkey),
                "configure_bank" | "configure_bank_interest_only" | "configure_bank_limits_only" | "configure_bank_emode" => ix_bank(ix),
                _ => None,
            };
            let Some(bk) = bk else { continue };
            let Some(post) = model::bank_of(b, &bk) else { continue };
            let Some(group) = model::group_of(b, &post.group) else { continue };
            let pre = model::bank_of(a, &bk);
            judged_config = true;
            let sets_weights = matches!(ix.tag, "add_bank" | "add_bank_with_seed" | "add_bank_permissionless" | "configure_bank" | "propagate_staked_settings");
            let sets_emode = matches!(ix.tag, "configure_bank_emode" | "clone_emode");
            let changed = pre.map(|p| model::bank_changed_fields(&p, &post)).unwrap_or_default();
            let weights_changed = changed.iter().any(|f| f.starts_with("config.") && f.contains("weight"));
            let mut problems = Vec::new();
            if sets_weights {
                problems.extend(validate_weights(&post));
            }
            if sets_emode || (ix.tag == "configure_bank" && weights_changed) || ix.tag.starts_with("add_bank") {
                problems.extend(validate_emode(&post, &group));
            }
            let tight = if post.emode.emode_config.entries.iter().any(|e| e.collateral_bank_emode_tag != 0) { "emode" } else { "plain" };
            self.cov.eval(format!("{}|ok|{}|w{}", ix.tag, tight, weights_changed as u8));
            match ix.tag {
                "add_bank" | "add_bank_with_seed" => self.cov.probe("add_bank_judged"),
                "add_bank_permissionless" => self.cov.probe("staked_bank_added_permissionlessly"),
                "propagate_staked_settings" => {
                    self.cov.probe("staked_settings_propagated");
                    if weights_changed {
                        self.cov.probe("staked_settings_propagated_new_weights");
                    }
                }
                "configure_bank" => {
                    self.cov.probe("configure_bank_judged");
                    if weights_changed && tight == "emode" {
                        self.cov.probe("liability_weights_lowered_under_emode");
                    }
                }
                "configure_bank_emode" => self.cov.probe("emode_configured"),
                "clone_emode" => {
                    self.cov.probe("emode_cloned");
                    let src = ix.accounts.get(2).and_then(|m| model::bank_of(a, &m.pubkey));
                    if let Some(src) = src {
                        if src.config.liability_weight_init != post.config.liability_weight_init
                            || src.config.liability_weight_maint != post.config.liability_weight_maint
                        {
                            self.cov.probe("emode_cloned_between_different_weights");
                        }
                    }
                }
                _ => {}
            }
            for p in problems {
                out.push(viol("C13", "accepted_incoherent_configuration", ix.tag, format!("bank {bk}: {p}"), idx));
            }
        }
        // Consequence: at equal prices, init-healthy implies maint-healthy (real pulse_health on a fork)
        // - for every indebted account after a configuration change and every 16th transaction,
        // - for the acting account right after it took on risk (it then sits near its init limit).
        let risk_takers: Vec<Pubkey> = s
            .tx
            .ixs
            .iter()
            .filter(|ix| ix.program_id == marginfi_id() && matches!(ix.tag, "borrow" | "withdraw"))
            .filter_map(super::ix_user_account)
            .collect();
        let everyone = judged_config || {
            self.counter += 1;
            self.counter % 16 == 0
        };
        if s.is_fork || !(everyone || !risk_takers.is_empty()) {
            return;
        }
        let eq = equalise_prices(s.post, s.clock.unix_timestamp);
        for (k, acc) in model::all_accounts(&eq) {
            if !everyone && !risk_takers.contains(&k) {
                continue;
            }
            let has_liab = acc.lending_account.balances.iter().any(|b| b.active != 0 && q_w(b.liability_shares) >= qi(1));
            if !has_liab {
                continue;
            }
            let rm = crate::world::risk_metas(&eq, &k, None, None);
            let t = Tx::one("c13_fork", crate::ix::pulse_health(k, rm));
            let (o, post) = s.exec.execute(&eq, s.clock, &t);
            let (true, Some(post)) = (o.ok(), post) else { continue };
            let Some(a1) = model::account_of(&post, &k) else { continue };
            let hc = a1.health_cache;
            if hc.flags & HEALTHY == 0 && hc.mrgn_err != 6009 && hc.mrgn_err != 0 {
                continue; // engine error (oracle etc.), nothing to compare
            }
            let (ia, il) = (q_w(hc.asset_value), q_w(hc.liability_value));
            let (ma, ml) = (q_w(hc.asset_value_maint), q_w(hc.liability_value_maint));
            if ml == qi(0) && ma == qi(0) {
                continue; // maintenance leg did not run
            }
            self.cov.probe("implication_checked");
            if !crate::refm::reconciled_emode(&post, &a1).is_empty() {
                self.cov.probe("implication_checked_with_emode");
            }
            // reduce-only collateral counts for maintenance only, so it can only help
            let tol = (&ia + &il + qi(1)) * model::ulp() * qi(64);
            // at equal prices the initial leg can never value the collateral above, or the debt
            // below, the maintenance leg (every accepted weight pair is ordered, and the e-mode merge
            // of ordered pairs is ordered)
            if ia > &ma + &tol || &il + &tol < ml {
                out.push(viol(
                    "C13",
                    "initial_leg_more_generous_than_maintenance_leg_at_equal_prices",
                    &crate::sim::tx_tag(s.tx),
                    format!("account {k}: init assets {} liabs {} maint assets {} liabs {}", q_str(&ia), q_str(&il), q_str(&ma), q_str(&ml)),
                    idx,
                ));
            }
            if ia >= il && il > qi(0) && ma + &tol < ml {
                out.push(viol(
                    "C13",
                    "init_healthy_but_liquidatable_at_equal_prices",
                    &crate::sim::tx_tag(s.tx),
                    format!("account {k}: init {} >= {} but maint {} < {}", q_str(&ia), q_str(&il), q_str(&(q_w(hc.asset_value_maint))), q_str(&ml)),
                    idx,
                ));
            }
        }
    }
}
