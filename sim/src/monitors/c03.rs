//! C03 — no free value: no operation pays out more than it debits; whole-token rounding is
//! always against the user; zero-time sequences never increase a user's wealth.

use super::{ix_bank, ix_user_account, slot_of, viol};
use crate::fixtures::{token_amount, token_mint, token_owner};
use crate::model::{self, q_str, q_w, qi, qu, ulp, Q};
use crate::rt::{spl_token_id, token22_id, Store};
use crate::sim::{Cov, Monitor, Step, Violation};
use anchor_lang::prelude::Pubkey;
use marginfi_type_crate::constants::*;
use marginfi_type_crate::types::*;
use num_traits::Zero;
use std::collections::BTreeMap;

pub struct C03 {
    cov: Cov,
}

impl Default for C03 {
    fn default() -> Self {
        let mut cov = Cov::default();
        cov.declare(&[
            "liquidation_seizure_leg_judged",
            "withdraw_all_fractional_value",
            "repay_all_fractional_value",
            "amount_one",
            "wealth_judged_zero_time",
            "share_value_not_one",
            "t22_fee_transfer",
        ]);
        C03 { cov }
    }
}

fn shares(store: &Store, acc: &Pubkey, bank: &Pubkey) -> (Q, Q) {
    model::account_of(store, acc)
        .and_then(|a| slot_of(&a, bank).map(|b| (q_w(b.asset_shares), q_w(b.liability_shares))))
        .unwrap_or((Q::zero(), Q::zero()))
}

fn args_amount_flag(data: &[u8]) -> (u64, bool) {
    if data.len() < 17 {
        return (0, false);
    }
    let amount = u64::from_le_bytes(data[8..16].try_into().unwrap());
    let flag = data[16] == 1 && data.get(17) == Some(&1);
    (amount, flag)
}

/// wealth per (authority, mint): tokens held + asset value - liability value
fn wealth(store: &Store) -> BTreeMap<(Pubkey, Pubkey), Q> {
    let mut w: BTreeMap<(Pubkey, Pubkey), Q> = BTreeMap::new();
    for (_, a) in store.accounts.iter() {
        if (a.owner == spl_token_id() || a.owner == token22_id()) && a.data.len() >= 165 {
            let k = (token_owner(&a.data), token_mint(&a.data));
            *w.entry(k).or_insert_with(Q::zero) += qu(token_amount(&a.data));
        }
    }
    let banks: BTreeMap<Pubkey, Bank> = model::all_banks(store).into_iter().collect();
    for (_, acc) in model::all_accounts(store) {
        for b in acc.lending_account.balances.iter().filter(|b| b.active != 0) {
            if let Some(bank) = banks.get(&b.bank_pk) {
                let v = q_w(b.asset_shares) * q_w(bank.asset_share_value)
                    - q_w(b.liability_shares) * q_w(bank.liability_share_value);
                *w.entry((acc.authority, bank.mint)).or_insert_with(Q::zero) += v;
            }
        }
    }
    w
}

impl Monitor for C03 {
    fn property(&self) -> &'static str {
        "C03"
    }
    fn cov(&self) -> &Cov {
        &self.cov
    }
    fn on_tx(&mut self, s: &Step, out: &mut Vec<Violation>) {
        if !s.ok() {
            return;
        }
        let idx = s.event_index;
        let states = s.states();
        let u = ulp();
        let mut only_user_ops = true;
        for (i, ix) in s.tx.ixs.iter().enumerate() {
            if ix.program_id != crate::rt::marginfi_id() {
                continue;
            }
            if ix.tag == "liquidate" && ix.accounts.len() > 5 && ix.data.len() >= 16 {
                // the liquidator's side of the seizure is an increase of its position in the
                // seized bank (a deposit in kind): it is credited - as new assets and as debt
                // taken off - at most the amount seized
                let (a, b) = (states[i], states[i + 1]);
                let (abk, liq_acc) = (ix.accounts[1].pubkey, ix.accounts[3].pubkey);
                if let Some(bank1) = model::bank_of(b, &abk) {
                    let seized = qu(u64::from_le_bytes(ix.data[8..16].try_into().unwrap()));
                    let (sa0, sl0) = shares(a, &liq_acc, &abk);
                    let (sa1, sl1) = shares(b, &liq_acc, &abk);
                    let (asv, lsv) = (q_w(bank1.asset_share_value), q_w(bank1.liability_share_value));
                    // both states valued at the share values after the accrual the instruction ran
                    let gained = (&sa1 - &sa0) * &asv + (&sl0 - &sl1) * &lsv;
                    self.cov.probe("liquidation_seizure_leg_judged");
                    self.cov.eval(format!("liquidate|debt_in_seized_bank{}", (sl0 >= qi(1)) as u8));
                    if gained > &seized + (model::q_max(asv, lsv) + qi(1)) * &u * qi(8) {
                        out.push(viol("C03", "seizure_credited_more_than_seized", ix.tag,
                            format!("bank {abk}: liquidator credited {} for {} seized", q_str(&gained), q_str(&seized)), idx));
                    }
                }
            }
            if !matches!(ix.tag, "deposit" | "withdraw" | "borrow" | "repay" | "close_balance") {
                only_user_ops = false;
                continue;
            }
            if ix.tag == "close_balance" {
                continue;
            }
            let (Some(acc), Some(bk)) = (ix_user_account(ix), ix_bank(ix)) else { continue };
            let a = states[i];
            let b = states[i + 1];
            let (Some(bank0), Some(bank1)) = (model::bank_of(a, &bk), model::bank_of(b, &bk)) else { continue };
            let (sa0, sl0) = shares(a, &acc, &bk);
            let (sa1, sl1) = shares(b, &acc, &bk);
            let asv = q_w(bank1.asset_share_value);
            let lsv = q_w(bank1.liability_share_value);
            let v0 = model::vault_amount(a, &bank0.liquidity_vault);
            let v1 = model::vault_amount(b, &bank1.liquidity_vault);
            let (amount, flag) = args_amount_flag(&ix.data);
            if amount == 1 {
                self.cov.probe("amount_one");
            }
            if asv != qi(1) || lsv != qi(1) {
                self.cov.probe("share_value_not_one");
            }
            let user_tok = ix.accounts.get(4).map(|m| m.pubkey);
            let tok0 = user_tok.map(|k| model::vault_amount(a, &k)).unwrap_or(0);
            let tok1 = user_tok.map(|k| model::vault_amount(b, &k)).unwrap_or(0);
            let modclass = |x: &Q| -> u8 {
                let f = x - x.floor();
                if f.is_zero() { 0 } else { 1 }
            };
            match ix.tag {
                "withdraw" => {
                    let paid_out = qu(v0.saturating_sub(v1));
                    // a withdrawal may overshoot the deposit by < 0.0001 units, booked as debt
                    let removed = (&sa0 - &sa1) * &asv + (&sl1 - &sl0) * &lsv;
                    self.cov.eval(format!("withdraw|all{}|m{}|sv{}", flag as u8, modclass(&removed), (asv != qi(1)) as u8));
                    if (tok1.saturating_sub(tok0)) < v0.saturating_sub(v1) {
                        self.cov.probe("t22_fee_transfer");
                    }
                    if flag {
                        let value = &sa0 * &asv;
                        if modclass(&value) == 1 {
                            self.cov.probe("withdraw_all_fractional_value");
                        }
                        if paid_out > value.floor() {
                            out.push(viol("C03", "withdraw_all_rounded_up", ix.tag,
                                format!("bank {bk}: paid {} value {}", q_str(&paid_out), q_str(&value)), idx));
                        }
                        let complete = bank1.flags & TOKENLESS_REPAYMENTS_COMPLETE != 0;
                        if paid_out < value.floor() && !complete {
                            out.push(viol("C03", "withdraw_all_not_exact_floor", ix.tag,
                                format!("bank {bk}: paid {} value {}", q_str(&paid_out), q_str(&value)), idx));
                        }
                    } else if paid_out > &removed + (&asv + &lsv + qi(2)) * &u * qi(2) {
                        out.push(viol("C03", "withdraw_paid_more_than_debited", ix.tag,
                            format!("bank {bk}: paid {} position value removed {} (excess {} asv {} shares {} -> {}; raw paid {} sa0*2^48 {} sa1*2^48 {} asv*2^48 {} asv_pre*2^48 {})", q_str(&paid_out), q_str(&removed), q_str(&(&paid_out - &removed)), q_str(&asv), q_str(&sa0), q_str(&sa1), paid_out, &sa0 / &u, &sa1 / &u, &asv / &u, q_w(bank0.asset_share_value) / &u), idx));
                    }
                }
                "borrow" => {
                    let paid_out = qu(v0.saturating_sub(v1));
                    let added = (&sl1 - &sl0) * &lsv + (&sa0 - &sa1) * &asv;
                    self.cov.eval(format!("borrow|m{}|sv{}", modclass(&added), (lsv != qi(1)) as u8));
                    if paid_out > &added + (&asv + &lsv + qi(2)) * &u * qi(2) {
                        out.push(viol("C03", "borrow_paid_more_than_debited", ix.tag,
                            format!("bank {bk}: paid {} liability value added {}", q_str(&paid_out), q_str(&added)), idx));
                    }
                }
                "deposit" => {
                    let received = qu(v1.saturating_sub(v0));
                    let credited = (&sa1 - &sa0) * &asv + (&sl0 - &sl1) * &lsv;
                    self.cov.eval(format!("deposit|m{}|sv{}", modclass(&credited), (asv != qi(1)) as u8));
                    if (tok0.saturating_sub(tok1)) > v1.saturating_sub(v0) {
                        self.cov.probe("t22_fee_transfer");
                    }
                    if credited > &received + (&asv + &lsv + qi(2)) * &u * qi(2) {
                        out.push(viol("C03", "deposit_credited_more_than_paid", ix.tag,
                            format!("bank {bk}: vault received {} credited {}", q_str(&received), q_str(&credited)), idx));
                    }
                }
                "repay" => {
                    let received = qu(v1.saturating_sub(v0));
                    let relieved = (&sl0 - &sl1) * &lsv + (&sa1 - &sa0) * &asv;
                    self.cov.eval(format!("repay|all{}|m{}|sv{}", flag as u8, modclass(&relieved), (lsv != qi(1)) as u8));
                    let tokenless = bank0.flags & TOKENLESS_REPAYMENTS_ALLOWED != 0;
                    if tokenless && v0 == v1 {
                        // sanctioned write-off by the risk admin (judged by C01/C08)
                        only_user_ops = false;
                        continue;
                    }
                    if flag {
                        let value = &sl0 * &lsv;
                        if modclass(&value) == 1 {
                            self.cov.probe("repay_all_fractional_value");
                        }
                        // charged at least the value (one ulp short at worst), i.e. rounded up
                        if received < &value - &u {
                            out.push(viol("C03", "repay_all_rounded_down", ix.tag,
                                format!("bank {bk}: charged {} liability value {}", q_str(&received), q_str(&value)), idx));
                        }
                    } else if relieved > &received + (&asv + &lsv + qi(2)) * &u * qi(2) {
                        out.push(viol("C03", "repay_relieved_more_than_paid", ix.tag,
                            format!("bank {bk}: vault received {} liability relieved {}", q_str(&received), q_str(&relieved)), idx));
                    }
                }
                _ => {}
            }
        }
        // zero-time wealth: only for txs made of plain user operations and only for mints
        // whose banks' share values did not move in this tx
        if only_user_ops && !s.tx.ixs.is_empty() {
            let moved: Vec<Pubkey> = model::all_banks(s.post)
                .into_iter()
                .filter(|(k, b1)| {
                    model::bank_of(s.pre, k)
                        .map(|b0| {
                            b0.asset_share_value != b1.asset_share_value
                                || b0.liability_share_value != b1.liability_share_value
                        })
                        .unwrap_or(true)
                })
                .map(|(_, b)| b.mint)
                .collect();
            let w0 = wealth(s.pre);
            let w1 = wealth(s.post);
            let n_ix = s.tx.ixs.len() as i128;
            for ((auth, mint), after) in w1.iter() {
                if moved.contains(mint) {
                    continue;
                }
                let before = w0.get(&(*auth, *mint)).cloned().unwrap_or_else(Q::zero);
                if *after == before {
                    continue;
                }
                // vault authorities and fee wallets are not users
                let sv_max = model::all_banks(s.post)
                    .into_iter()
                    .filter(|(_, b)| b.mint == *mint)
                    .map(|(_, b)| model::q_max(q_w(b.asset_share_value), q_w(b.liability_share_value)))
                    .fold(qi(1), model::q_max);
                // every position closure may abandon (forgive) sub-0.0001-unit dust (C02)
                let closes = s
                    .tx
                    .ixs
                    .iter()
                    .filter(|x| {
                        x.tag == "close_balance"
                            || ((x.tag == "withdraw" || x.tag == "repay") && args_amount_flag(&x.data).1)
                    })
                    .count() as i128;
                let allow = (&sv_max * qi(4) + qi(4)) * &u * qi(n_ix)
                    + (model::qr(1, 10_000) + &u * qi(4)) * qi(closes);
                let is_pda_vault_auth = model::all_banks(s.post).into_iter().any(|(k, _)| {
                    crate::ix::vault_auth_pda(&k, marginfi::state::bank::BankVaultType::Liquidity) == *auth
                        || crate::ix::vault_auth_pda(&k, marginfi::state::bank::BankVaultType::Insurance) == *auth
                        || crate::ix::vault_auth_pda(&k, marginfi::state::bank::BankVaultType::Fee) == *auth
                });
                if is_pda_vault_auth {
                    continue;
                }
                self.cov.probe("wealth_judged_zero_time");
                if after > &(&before + &allow) {
                    out.push(viol(
                        "C03",
                        "wealth_increased_without_time",
                        &crate::sim::tx_tag(s.tx),
                        format!(
                            "authority {auth} mint {mint}: {} -> {} (allowance {})",
                            q_str(&before),
                            q_str(after),
                            q_str(&allow)
                        ),
                        idx,
                    ));
                }
            }
        }
    }
}
