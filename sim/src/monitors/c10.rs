//! C10 — receivership liquidation is bracketed, restricted, and cannot worsen health.

use super::bracket::{self, Kind};
use crate::sim::{Cov, Monitor, Step, Violation};

pub struct C10 {
    cov: Cov,
}

impl Default for C10 {
    fn default() -> Self {
        let mut cov = Cov::default();
        bracket::declare(&mut cov);
        C10 { cov }
    }
}

impl Monitor for C10 {
    fn property(&self) -> &'static str {
        "C10"
    }
    fn cov(&self) -> &Cov {
        &self.cov
    }
    fn on_tx(&mut self, s: &Step, out: &mut Vec<Violation>) {
        bracket::judge("C10", Kind::Liquidation, s, &mut self.cov, out);
        bracket::check_no_marker_survives("C10", s, out);
    }
}
