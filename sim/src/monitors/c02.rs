//! C02 — ledger consistency: bank totals equal the sum of all user positions plus counted dust.

use super::viol;
use crate::model::{self, q_w, qi, qr, ulp, Q};
use crate::rt::Store;
use crate::sim::{Cov, Monitor, Step, Violation};
use anchor_lang::prelude::Pubkey;
use num_traits::Zero;
use std::collections::BTreeMap;

pub struct C02 {
    cov: Cov,
    /// per bank: (asset-share dust abandoned so far, liability-share dust abandoned so far)
    dust: BTreeMap<Pubkey, (Q, Q)>,
}

impl Default for C02 {
    fn default() -> Self {
        let mut cov = Cov::default();
        cov.declare(&[
            "close_balance_with_dust",
            "position_counters_checked",
            "position_counter_below_live_positions_seen",
            "withdraw_all_opposite_residue",
            "repay_all_opposite_residue",
            "transfer",
            "purge",
            "account_close",
            "close_bank_ok",
            "bankruptcy",
            "liquidation",
            "account_close_abandons_above_0_0001",
        ]);
        C02 {
            cov,
            dust: BTreeMap::new(),
        }
    }
}

/// bank -> (sum asset shares, sum liability shares, per (account) slot shares)
type Sums = BTreeMap<Pubkey, (Q, Q)>;

fn sums(store: &Store) -> (Sums, BTreeMap<(Pubkey, Pubkey), (Q, Q)>) {
    let mut m: Sums = BTreeMap::new();
    let mut slots = BTreeMap::new();
    for (k, a) in model::all_accounts(store) {
        for b in a.lending_account.balances.iter().filter(|b| b.active != 0) {
            let sa = q_w(b.asset_shares);
            let sl = q_w(b.liability_shares);
            let e = m.entry(b.bank_pk).or_insert((Q::zero(), Q::zero()));
            e.0 += &sa;
            e.1 += &sl;
            let s = slots
                .entry((k, b.bank_pk))
                .or_insert((Q::zero(), Q::zero()));
            s.0 += sa;
            s.1 += sl;
        }
    }
    (m, slots)
}

impl Monitor for C02 {
    fn property(&self) -> &'static str {
        "C02"
    }
    fn cov(&self) -> &Cov {
        &self.cov
    }
    fn on_tx(&mut self, s: &Step, out: &mut Vec<Violation>) {
        if !s.ok() {
            return;
        }
        let idx = s.event_index;
        let states = s.states();
        let dust_limit = qr(1, 10_000) + ulp() * qi(4);
        let mut local_dust = self.dust.clone();
        for (i, ix) in s.tx.ixs.iter().enumerate() {
            if ix.program_id != crate::rt::marginfi_id() {
                continue;
            }
            let a = states[i];
            let b = states[i + 1];
            let (sum_a, slots_a) = sums(a);
            let (sum_b, slots_b) = sums(b);
            let banks_a: BTreeMap<Pubkey, _> = model::all_banks(a).into_iter().collect();
            let banks_b: BTreeMap<Pubkey, _> = model::all_banks(b).into_iter().collect();
            let zero = (Q::zero(), Q::zero());

            // the bank-closing guard relies on the bank's own position counters: they may run
            // ahead of the truth (dust slots, abandoned sub-share positions) but never fall
            // below the number of live (>= 1 share) positions
            {
                let mut live: BTreeMap<Pubkey, (u32, u32)> = BTreeMap::new();
                for ((_acc, kb), (sa, sl)) in slots_b.iter() {
                    let e = live.entry(*kb).or_insert((0, 0));
                    if *sa >= qi(1) {
                        e.0 += 1;
                    }
                    if *sl >= qi(1) {
                        e.1 += 1;
                    }
                }
                for (bk, (la, ll)) in live.iter() {
                    if let Some(bank) = banks_b.get(bk) {
                        // (observation only: the counters are NOT part of C02.  On the unchanged tree
                        // they do fall below the truth - purge of an active-but-empty slot and the
                        // liquidator's asset-to-debt flip both under-count - but close_bank also
                        // requires the share totals to be nil, which is what C02 states and what the
                        // close_bank rule below checks.  A rule here raised alarms on correct code and
                        // was withdrawn; see DESIGN 9.3.)
                        self.cov.probe("position_counters_checked");
                        if (bank.lending_position_count as i64) < *la as i64 || (bank.borrowing_position_count as i64) < *ll as i64 {
                            self.cov.probe("position_counter_below_live_positions_seen");
                        }
                        let _ = (ix, idx);
                    }
                }
            }
            // close_bank: every remaining position in it must be dust
            if ix.tag == "close_bank" {
                self.cov.probe("close_bank_ok");
                if let Some(bk) = super::ix_bank(ix) {
                    if let Some(bank) = banks_a.get(&bk) {
                        for ((acc, kb), (sa, sl)) in slots_a.iter() {
                            if *kb != bk {
                                continue;
                            }
                            let va = sa * q_w(bank.asset_share_value);
                            let vl = sl * q_w(bank.liability_share_value);
                            if va >= dust_limit || vl >= dust_limit {
                                out.push(viol(
                                    "C02",
                                    "bank_closed_with_open_position",
                                    ix.tag,
                                    format!("bank {bk} account {acc}"),
                                    idx,
                                ));
                            }
                        }
                    }
                }
            }

            if matches!(ix.tag, "transfer_to_new_account" | "transfer_to_new_account_pda") {
                // a transfer moves positions between accounts: per-bank sums must not move at all
                self.cov.probe("transfer");
            }
            for (bk, bank_b) in banks_b.iter() {
                let Some(bank_a) = banks_a.get(bk) else {
                    // bank created by this instruction: totals must start at the positions (zero)
                    continue;
                };
                let d_ta = q_w(bank_b.total_asset_shares) - q_w(bank_a.total_asset_shares);
                let d_tl = q_w(bank_b.total_liability_shares) - q_w(bank_a.total_liability_shares);
                let sa0 = sum_a.get(bk).unwrap_or(&zero);
                let sb0 = sum_b.get(bk).unwrap_or(&zero);
                let d_pa = &sb0.0 - &sa0.0;
                let d_pl = &sb0.1 - &sa0.1;
                if d_ta.is_zero() && d_tl.is_zero() && d_pa.is_zero() && d_pl.is_zero() {
                    continue;
                }
                // slots of this bank that were open before and are gone now
                let closed: Vec<(&(Pubkey, Pubkey), &(Q, Q))> = slots_a
                    .iter()
                    .filter(|((_, kb), _)| kb == bk)
                    .filter(|(k, _)| !slots_b.contains_key(k))
                    .collect();
                let dust_a = &d_ta - &d_pa;
                let dust_l = &d_tl - &d_pl;
                let changed_kind = format!(
                    "{}|ta{}tl{}|closed{}",
                    ix.tag,
                    !d_ta.is_zero() as u8,
                    !d_tl.is_zero() as u8,
                    closed.len().min(3)
                );
                self.cov.eval(changed_kind);
                if closed.is_empty() {
                    if !dust_a.is_zero() || !dust_l.is_zero() {
                        out.push(viol(
                            "C02",
                            "total_delta_differs_from_position_delta",
                            ix.tag,
                            format!(
                                "bank {bk}: dTA {} dPos {} | dTL {} dPos {}",
                                model::q_str(&d_ta),
                                model::q_str(&d_pa),
                                model::q_str(&d_tl),
                                model::q_str(&d_pl)
                            ),
                            idx,
                        ));
                    }
                } else {
                    // abandonment: totals may decrease by less than positions did, never more
                    let asv = q_w(bank_a.asset_share_value);
                    let lsv = q_w(bank_a.liability_share_value);
                    if dust_a < qi(0) || dust_l < qi(0) {
                        out.push(viol(
                            "C02",
                            "total_decreased_more_than_positions",
                            ix.tag,
                            format!(
                                "bank {bk}: excess change {} / {}",
                                model::q_str(&dust_a),
                                model::q_str(&dust_l)
                            ),
                            idx,
                        ));
                    }
                    let va = &dust_a * &asv;
                    let vl = &dust_l * &lsv;
                    let over = va >= dust_limit || vl >= dust_limit;
                    if over {
                        if ix.tag == "account_close" {
                            self.cov.probe("account_close_abandons_above_0_0001");
                        }
                        // one share or more is a live position by every definition the program
                        // has; below that it is "more than dust" (the recorded account_close finding)
                        let whole = dust_a >= qi(1) || dust_l >= qi(1);
                        out.push(viol(
                            "C02",
                            if whole { "abandoned_a_live_position" } else { "abandoned_more_than_dust" },
                            ix.tag,
                            format!(
                                "bank {bk}: abandoned asset value {} liability value {} (limit 1e-4)",
                                model::q_str(&va),
                                model::q_str(&vl)
                            ),
                            idx,
                        ));
                    }
                    let e = local_dust.entry(*bk).or_insert((Q::zero(), Q::zero()));
                    e.0 += &dust_a;
                    e.1 += &dust_l;
                    match ix.tag {
                        "close_balance" => {
                            if !dust_a.is_zero() || !dust_l.is_zero() {
                                self.cov.probe("close_balance_with_dust")
                            }
                        }
                        "withdraw" => {
                            if !dust_l.is_zero() {
                                self.cov.probe("withdraw_all_opposite_residue")
                            }
                        }
                        "repay" => {
                            if !dust_a.is_zero() {
                                self.cov.probe("repay_all_opposite_residue")
                            }
                        }
                        "purge_deleverage_balance" => self.cov.probe("purge"),
                        "account_close" => self.cov.probe("account_close"),
                        _ => {}
                    }
                }
                match ix.tag {
                    "handle_bankruptcy" => self.cov.probe("bankruptcy"),
                    "liquidate" => self.cov.probe("liquidation"),
                    _ => {}
                }
                // global: totals >= sum of positions, excess == counted dust
                let ta = q_w(bank_b.total_asset_shares);
                let tl = q_w(bank_b.total_liability_shares);
                let ex_a = &ta - &sb0.0;
                let ex_l = &tl - &sb0.1;
                let d = local_dust.get(bk).cloned().unwrap_or_else(|| zero.clone());
                if ex_a < qi(0) || ex_l < qi(0) {
                    out.push(viol(
                        "C02",
                        "total_below_sum_of_positions",
                        ix.tag,
                        format!(
                            "bank {bk}: TA-sum {} TL-sum {}",
                            model::q_str(&ex_a),
                            model::q_str(&ex_l)
                        ),
                        idx,
                    ));
                } else if ex_a != d.0 || ex_l != d.1 {
                    out.push(viol(
                        "C02",
                        "excess_not_equal_counted_dust",
                        ix.tag,
                        format!(
                            "bank {bk}: excess {} / {} counted {} / {}",
                            model::q_str(&ex_a),
                            model::q_str(&ex_l),
                            model::q_str(&d.0),
                            model::q_str(&d.1)
                        ),
                        idx,
                    ));
                }
            }
        }
        if !s.is_fork {
            self.dust = local_dust;
        }
    }
}
