//! Property monitors (oracles).  Each one judges every executed transaction from the raw bytes
//! of the pre- and post-state; none of them trusts harness bookkeeping.

use crate::rt::{Ix, Store};
use crate::sim::{Monitor, Violation};
use anchor_lang::prelude::Pubkey;
use marginfi_type_crate::types::{Balance, MarginfiAccount};

pub mod c01;
pub mod c02;
pub mod c03;
pub mod c04;
pub mod c05;
pub mod c06;
pub mod bracket;
pub mod c07;
pub mod c08;
pub mod c09;
pub mod c10;
pub mod c11;
pub mod c12;
pub mod c13;
pub mod c14;
pub mod c15;
pub mod c16;
pub mod c17;
pub mod c19;
pub mod c20;

pub fn make(property: &str) -> Vec<Box<dyn Monitor>> {
    match property {
        "C02" => vec![Box::new(c02::C02::default())],
        "C16" => vec![Box::new(c16::C16::default())],
        "C04" => vec![Box::new(c04::C04::default())],
        "C01" => vec![Box::new(c01::C01::default())],
        "C03" => vec![Box::new(c03::C03::default())],
        "C06" => vec![Box::new(c06::C06::default())],
        "C17" => vec![Box::new(c17::C17::default())],
        "C05" => vec![Box::new(c05::C05::default())],
        "C07" => vec![Box::new(c07::C07::default())],
        "C08" => vec![Box::new(c08::C08::default())],
        "C09" => vec![Box::new(c09::C09::default())],
        "C19" => vec![Box::new(c19::C19::default())],
        "C20" => vec![Box::new(c20::C20::default())],
        "C10" => vec![Box::new(c10::C10::default())],
        "C11" => vec![Box::new(c11::C11::default())],
        "C12" => vec![Box::new(c12::C12::default())],
        "C13" => vec![Box::new(c13::C13::default())],
        "C14" => vec![Box::new(c14::C14::default())],
        "C15" => vec![Box::new(c15::C15::default())],
        "ALL" => vec![
            Box::new(c02::C02::default()),
            Box::new(c16::C16::default()),
            Box::new(c04::C04::default()),
            Box::new(c01::C01::default()),
            Box::new(c03::C03::default()),
            Box::new(c06::C06::default()),
            Box::new(c17::C17::default()),
            Box::new(c05::C05::default()),
            Box::new(c07::C07::default()),
            Box::new(c10::C10::default()),
            Box::new(c11::C11::default()),
            Box::new(c12::C12::default()),
            Box::new(c13::C13::default()),
            Box::new(c14::C14::default()),
            Box::new(c15::C15::default()),
        ],
        _ => vec![],
    }
}

pub fn viol(
    property: &'static str,
    rule: &'static str,
    ix: &str,
    detail: String,
    event_index: usize,
) -> Violation {
    Violation {
        property,
        rule,
        ix: ix.to_string(),
        detail,
        event_index,
    }
}

/// Index of the marginfi account(s) an instruction acts on, by instruction kind.
pub fn ix_user_account(ix: &Ix) -> Option<Pubkey> {
    let idx = match ix.tag {
        "deposit" | "repay" | "withdraw" | "borrow" | "close_balance" | "withdraw_emissions"
        | "withdraw_emissions_permissionless" | "set_freeze" | "purge_deleverage_balance"
        | "solend_deposit" | "solend_withdraw" | "kamino_deposit" | "kamino_withdraw" | "drift_deposit" | "drift_withdraw" => 1,
        "start_flashloan" | "end_flashloan" | "account_close" | "pulse_health"
        | "start_liquidation" | "end_liquidation" | "start_deleverage" | "end_deleverage"
        | "settle_emissions" | "update_emissions_destination" | "init_liq_record" => 0,
        "handle_bankruptcy" => 3,
        "transfer_to_new_account" | "transfer_to_new_account_pda" => 1,
        _ => return None,
    };
    ix.accounts.get(idx).map(|m| m.pubkey)
}

pub fn ix_bank(ix: &Ix) -> Option<Pubkey> {
    let idx = match ix.tag {
        "deposit" | "repay" | "withdraw" | "borrow" | "close_balance" | "withdraw_emissions"
        | "purge_deleverage_balance" | "solend_deposit" | "solend_withdraw" | "kamino_deposit" | "kamino_withdraw" | "drift_deposit" | "drift_withdraw" => 3,
        "handle_bankruptcy" | "withdraw_emissions_permissionless" => 2,
        "accrue_interest" | "collect_bank_fees" | "withdraw_fees" | "withdraw_insurance"
        | "withdraw_fees_permissionless" | "update_fees_destination" | "close_bank"
        | "pulse_bank_price_cache" | "write_bank_metadata" => 1,
        "configure_bank" | "configure_bank_oracle" | "set_fixed_oracle_price"
        | "configure_bank_interest_only" | "configure_bank_limits_only" | "configure_bank_emode"
        | "force_tokenless_repay_complete" | "setup_emissions" | "update_emissions" => 2,
        "settle_emissions" => 1,
        _ => return None,
    };
    ix.accounts.get(idx).map(|m| m.pubkey)
}

/// A withdrawal of a position: the plain instruction or one of the venue-backed variants.
pub fn is_withdraw(tag: &str) -> bool {
    matches!(tag, "withdraw" | "solend_withdraw" | "kamino_withdraw" | "drift_withdraw")
}
pub fn is_venue_deposit(tag: &str) -> bool {
    matches!(tag, "solend_deposit" | "kamino_deposit" | "drift_deposit")
}
pub fn is_venue_withdraw(tag: &str) -> bool {
    matches!(tag, "solend_withdraw" | "kamino_withdraw" | "drift_withdraw")
}

pub fn slot_of<'a>(a: &'a MarginfiAccount, bank: &Pubkey) -> Option<&'a Balance> {
    a.lending_account
        .balances
        .iter()
        .find(|b| b.active != 0 && b.bank_pk == *bank)
}

pub fn short(k: &Pubkey) -> String {
    let s = k.to_string();
    s[..6.min(s.len())].to_string()
}

pub fn store_has_account(store: &Store, k: &Pubkey) -> bool {
    crate::model::account_of(store, k).is_some()
}

pub mod codes {
    pub const BANK_ASSET_CAPACITY_EXCEEDED: u32 = 6003;
    pub const RISK_ENGINE_INIT_REJECTED: u32 = 6009;
    pub const ACCOUNT_NOT_BANKRUPT: u32 = 6013;
    pub const BANK_PAUSED: u32 = 6016;
    pub const BANK_REDUCE_ONLY: u32 = 6017;
    pub const ILLEGAL_UTILIZATION: u32 = 6026;
    pub const BANK_LIAB_CAPACITY_EXCEEDED: u32 = 6027;
    pub const ISOLATED_ILLEGAL: u32 = 6029;
    pub const UNAUTHORIZED: u32 = 6042;
    pub const OVERLIQUIDATION: u32 = 6065;
    pub const HEALTHY_ACCOUNT: u32 = 6068;
    pub const TOO_SEVERE_LIQUIDATION: u32 = 6071;
    pub const PROTOCOL_PAUSED: u32 = 6080;
    pub const BANK_KILLED: u32 = 6084;
}
