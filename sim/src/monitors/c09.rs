//! C09 — oracle safety: only fresh, authentic, confident prices, biased conservatively.

use super::{ix_user_account, viol};
use crate::model::{self, q_str, q_w, qi, qr, ulp, Q};
use crate::refm::{self, OracleBad, PriceErr, Req};
use crate::rt::{marginfi_id, Store, Tx};
use crate::sim::{Cov, Hook, Monitor, Step, Violation};
use anchor_lang::prelude::Pubkey;
use marginfi_type_crate::types::*;
use num_traits::{Signed, ToPrimitive, Zero};

pub struct C09 {
    cov: Cov,
    counter: u64,
}

impl Default for C09 {
    fn default() -> Self {
        let mut cov = Cov::default();
        cov.declare(&[
            "adapter_probe_usable_accepted",
            "adapter_probe_unusable_rejected",
            "age_exactly_max_accepted",
            "age_max_plus_1_rejected",
            "confidence_in_clamp_region",
            "confidence_over_max_rejected",
            "wrong_owner_rejected",
            "bad_data_rejected",
            "unverified_rejected",
            "out_of_range_rejected",
            "zero_price_seen",
            "negative_price_rejected",
            "zero_price_liquidation_rejected",
            "stale_collateral_zeroed_borrow_ok",
            "faulted_debt_oracle_op_rejected",
            "health_cache_prices_judged",
            "foreign_oracle_account_in_list",
            "oracle_reconfiguration_judged",
        ]);
        C09 { cov, counter: 0 }
    }
}

fn classify(bank: &Bank, store: &Store, clock: crate::rt::SimClock) -> Result<(Q, Q, refm::OracleView), PriceErr> {
    // (spot price, spot confidence after scaling and 5 % cap) as the adapter must report them
    let v = refm::read_oracle(store, bank, clock).map_err(PriceErr::Oracle)?;
    let (low, _high, p) = refm::biased(&v, bank, false)?;
    Ok((p.clone(), &p - &low, v))
}

impl C09 {
    /// Run the real price adapter on a fork (permissionless pulse) and compare with Ref.
    fn probe_bank(&mut self, bk: &Pubkey, store: &Store, hook: &Hook, why: &str, out: &mut Vec<Violation>) {
        let Some(bank) = model::bank_of(store, bk) else { return };
        if !matches!(bank.config.oracle_setup, OracleSetup::PythPushOracle | OracleSetup::SwitchboardPull | OracleSetup::Fixed | OracleSetup::StakedWithPythPush
            | OracleSetup::KaminoPythPush | OracleSetup::KaminoSwitchboardPull | OracleSetup::SolendPythPull | OracleSetup::SolendSwitchboardPull
            | OracleSetup::DriftPythPull | OracleSetup::DriftSwitchboardPull) {
            return;
        }
        let rem = crate::world::oracle_metas_for(&bank);
        let t = Tx::one("c09_probe", crate::ix::pulse_bank_price_cache(bank.group, *bk, rem));
        let (o, post) = hook.exec.execute(store, hook.clock, &t);
        let expect = classify(&bank, store, hook.clock);
        let kind = format!("{:?}", bank.config.oracle_setup);
        match (&expect, o.ok()) {
            (Ok((p, c, view)), true) => {
                self.cov.probe("adapter_probe_usable_accepted");
                self.cov.eval(format!("probe|{kind}|usable|ok|{why}"));
                let post_bank = post.as_ref().and_then(|s| model::bank_of(s, bk));
                if let Some(pb) = post_bank {
                    let got_p = q_w(pb.cache.last_oracle_price);
                    let got_c = q_w(pb.cache.last_oracle_price_confidence);
                    let dp = refm::biased_price_err(view, false);
                    if (&got_p - p).abs() > dp.clone() || (&got_c - c).abs() > dp {
                        out.push(viol("C09", "adapter_price_differs_from_reported", "pulse_bank_price_cache",
                            format!("bank {bk}: price {} vs reported {}, confidence {} vs {}", q_str(&got_p), q_str(p), q_str(&got_c), q_str(c)), hook.event_index));
                    }
                    if got_c > &got_p * qr(5, 100) + ulp() * qi(4) + &got_p * ulp() {
                        out.push(viol("C09", "confidence_above_5_percent_cap", "pulse_bank_price_cache",
                            format!("bank {bk}: confidence {} price {}", q_str(&got_c), q_str(&got_p)), hook.event_index));
                    }
                    if p.is_zero() {
                        self.cov.probe("zero_price_seen");
                    }
                    // boundary probes
                    let cap = p * qr(5, 100);
                    if view.spot.conf > cap {
                        self.cov.probe("confidence_in_clamp_region");
                    }
                    if let Some(age) = oracle_age(&bank, store, hook.clock) {
                        if age == refm::max_age_of(&bank) {
                            self.cov.probe("age_exactly_max_accepted");
                        }
                    }
                }
            }
            (Ok(_), false) => {
                // stricter than required (e.g. negative price asserts): no claim
                self.cov.eval(format!("probe|{kind}|usable|rej{}|{why}", o.code().unwrap_or(0)));
            }
            (Err(e), false) => {
                self.cov.probe("adapter_probe_unusable_rejected");
                if refm::read_oracle(store, &bank, hook.clock).map(|v| v.spot.price < qi(0)).unwrap_or(false) {
                    self.cov.probe("negative_price_rejected");
                }
                self.cov.eval(format!("probe|{kind}|{:?}|rej|{why}", e));
                match e {
                    PriceErr::Oracle(OracleBad::Stale) => {
                        if oracle_age(&bank, store, hook.clock) == Some(refm::max_age_of(&bank) + 1) {
                            self.cov.probe("age_max_plus_1_rejected");
                        }
                    }
                    PriceErr::Oracle(OracleBad::WrongOwner) => self.cov.probe("wrong_owner_rejected"),
                    PriceErr::Oracle(OracleBad::BadData) => self.cov.probe("bad_data_rejected"),
                    PriceErr::Oracle(OracleBad::Unverified) => self.cov.probe("unverified_rejected"),
                    PriceErr::Oracle(OracleBad::OutOfRange) => self.cov.probe("out_of_range_rejected"),
                    PriceErr::ConfidenceTooWide => self.cov.probe("confidence_over_max_rejected"),
                    _ => {}
                }
            }
            (Err(e), true) => {
                // negative price with zero confidence passes the ratio test trivially? it must not
                out.push(viol("C09", "unusable_price_accepted", "pulse_bank_price_cache",
                    format!("bank {bk}: reference says {:?} but the adapter produced a price", e), hook.event_index));
            }
        }
    }
}

impl C09 {
    /// "Only the exact oracle account configured for the bank": when the account list handed to
    /// the risk engine carries some other account in an oracle slot of a position, the position's
    /// recorded price must be nil (counted as nothing / refused), whatever that account contains.
    fn judge_foreign_oracle_accounts(&mut self, ix: &crate::rt::Ix, a: &Store, b: &Store, idx: usize, out: &mut Vec<Violation>) {
        let Some(k) = ix_user_account(ix) else { return };
        let (Some(pre), Some(post)) = (model::account_of(a, &k), model::account_of(b, &k)) else { return };
        if pre.account_flags & (ACCOUNT_IN_FLASHLOAN | ACCOUNT_IN_RECEIVERSHIP) != 0 {
            return; // no valuation takes place
        }
        let hc = post.health_cache;
        let mut slot = 0usize;
        for bal in post.lending_account.balances.iter().filter(|x| x.active != 0) {
            let i = slot;
            slot += 1;
            let Some(bank) = model::bank_of(b, &bal.bank_pk) else { continue };
            let want = crate::world::oracle_metas_for(&bank);
            if want.is_empty() {
                continue;
            }
            let Some(pos) = ix.accounts.iter().rposition(|m| m.pubkey == bal.bank_pk) else { continue };
            let got: Vec<Pubkey> = ix.accounts.iter().skip(pos + 1).take(want.len()).map(|m| m.pubkey).collect();
            let same = got.len() == want.len() && got.iter().zip(want.iter()).all(|(g, w)| *g == w.pubkey);
            if same {
                continue;
            }
            self.cov.probe("foreign_oracle_account_in_list");
            let recorded = f64::from_le_bytes(hc.prices[i]);
            self.cov.eval(format!("{}|foreign_oracle|{:?}|price_nil{}", ix.tag, bank.config.oracle_setup, (recorded == 0.0) as u8));
            if recorded != 0.0 {
                out.push(viol("C09", "price_taken_from_unconfigured_account", ix.tag,
                    format!("account {k}: bank {} slot {i}: configured {:?} passed {:?} recorded price {recorded}",
                        bal.bank_pk, want.iter().map(|m| m.pubkey).collect::<Vec<_>>(), got), idx));
            }
        }
    }
}

fn oracle_age(bank: &Bank, store: &Store, clock: crate::rt::SimClock) -> Option<i64> {
    let a = store.get(&bank.config.oracle_keys[0])?;
    match bank.config.oracle_setup {
        OracleSetup::PythPushOracle | OracleSetup::StakedWithPythPush | OracleSetup::KaminoPythPush | OracleSetup::SolendPythPull | OracleSetup::DriftPythPull => crate::fixtures::parse_pyth(&a.data).map(|p| clock.unix_timestamp - p.publish_time),
        OracleSetup::SwitchboardPull | OracleSetup::KaminoSwitchboardPull | OracleSetup::SolendSwitchboardPull | OracleSetup::DriftSwitchboardPull => crate::fixtures::parse_swb(&a.data).map(|p| clock.unix_timestamp - p.last_update_timestamp),
        _ => None,
    }
}

fn banks_using(store: &Store, oracle: &Pubkey) -> Vec<Pubkey> {
    model::all_banks(store)
        .into_iter()
        .filter(|(_, b)| b.config.oracle_keys[..3].contains(oracle))
        .map(|(k, _)| k)
        .collect()
}

impl Monitor for C09 {
    fn property(&self) -> &'static str {
        "C09"
    }
    fn cov(&self) -> &Cov {
        &self.cov
    }
    fn on_set_account(&mut self, key: &Pubkey, _pre: &Store, post: &Store, why: &'static str, hook: &Hook, out: &mut Vec<Violation>) {
        if !why.starts_with("oracle") {
            return;
        }
        for bk in banks_using(post, key) {
            self.probe_bank(&bk, post, hook, why, out);
        }
    }
    fn on_advance(&mut self, _pre: crate::rt::SimClock, _post: crate::rt::SimClock, store: &Store, hook: &Hook, out: &mut Vec<Violation>) {
        self.counter += 1;
        // after time passes every bank's freshness verdict may have changed
        for (bk, _) in model::all_banks(store) {
            self.probe_bank(&bk, store, hook, "advance", out);
        }
    }
    fn on_tx(&mut self, s: &Step, out: &mut Vec<Violation>) {
        let idx = s.event_index;
        if let Err(e) = &s.out.result {
            if let Some(ix) = s.tx.ixs.get(e.ix_index) {
                if ix.tag == "liquidate" && (e.code == 6057 || e.code == 6058) {
                    self.cov.probe("zero_price_liquidation_rejected");
                }
                if matches!(ix.tag, "borrow" | "liquidate" | "handle_bankruptcy") || super::is_withdraw(ix.tag) {
                    // was a liability oracle of the acted-on account doctored?
                    let acc = match ix.tag {
                        "liquidate" => Some(ix.accounts[5].pubkey),
                        _ => ix_user_account(ix),
                    };
                    if let Some(a) = acc.and_then(|k| model::account_of(s.pre, &k)) {
                        if matches!(refm::health(s.pre, &a, Req::Maint, s.clock), Err(refm::HealthErr::PriceUnusable(..))) {
                            self.cov.probe("faulted_debt_oracle_op_rejected");
                            self.cov.eval(format!("{}|unusable_price|rej{}", ix.tag, e.code));
                        }
                    }
                }
            }
            return;
        }
        let states = s.states();
        for (i, ix) in s.tx.ixs.iter().enumerate() {
            if ix.program_id != marginfi_id() {
                continue;
            }
            let a = states[i];
            let b = states[i + 1];
            if matches!(ix.tag, "borrow" | "pulse_health") || super::is_withdraw(ix.tag) {
                self.judge_foreign_oracle_accounts(ix, a, b, idx, out);
            }
            if ix.tag == "configure_bank_oracle" {
                // an accepted oracle configuration names an account that really is an oracle of
                // the configured kind (owner program and layout); freshness is not required
                if let Some(bank) = ix.accounts.get(2).and_then(|m| model::bank_of(b, &m.pubkey)) {
                    self.cov.probe("oracle_reconfiguration_judged");
                    if let Err(e) = refm::read_oracle(b, &bank, s.clock) {
                        if matches!(e, OracleBad::Missing | OracleBad::WrongOwner | OracleBad::BadData) {
                            out.push(viol("C09", "oracle_configured_to_unusable_account", ix.tag,
                                format!("bank {}: {:?} key {} : {e:?}", ix.accounts[2].pubkey, bank.config.oracle_setup, bank.config.oracle_keys[0]), idx));
                        }
                    }
                }
            }
            match ix.tag {
                "borrow" | "withdraw" | "solend_withdraw" | "kamino_withdraw" | "drift_withdraw" => {
                    let Some(k) = ix_user_account(ix) else { continue };
                    let (Some(pre), Some(post)) = (model::account_of(a, &k), model::account_of(b, &k)) else { continue };
                    let in_bracket = pre.account_flags & (ACCOUNT_IN_FLASHLOAN | ACCOUNT_IN_RECEIVERSHIP) != 0;
                    if in_bracket {
                        if pre.account_flags & ACCOUNT_IN_RECEIVERSHIP != 0 && super::is_withdraw(ix.tag) {
                            // seizure price must be usable and positive
                            let bk = ix.accounts[3].pubkey;
                            if let Some(bank) = model::bank_of(a, &bk) {
                                match classify(&bank, a, s.clock) {
                                    Ok((p, c, _)) => {
                                        if &p - &c <= qi(0) {
                                            out.push(viol("C09", "collateral_seized_at_non_positive_price", ix.tag, format!("bank {bk}"), idx));
                                        }
                                    }
                                    Err(e) => out.push(viol("C09", "collateral_seized_with_unusable_price", ix.tag, format!("bank {bk}: {e:?}"), idx)),
                                }
                            }
                        }
                        continue;
                    }
                    match refm::health(b, &post, Req::Init, s.clock) {
                        Ok(h) => {
                            self.cov.eval(format!("{}|ok|zeroed{}|liabs{}", ix.tag, h.any_zeroed as u8, (h.n_liabs > 0) as u8));
                            if h.any_zeroed && h.n_liabs > 0 {
                                self.cov.probe("stale_collateral_zeroed_borrow_ok");
                            }
                            // with doctored collateral counted as nothing the account must still be healthy
                            if h.net() < -h.err.clone() {
                                out.push(viol("C09", "accepted_only_thanks_to_unusable_price", ix.tag,
                                    format!("account {k}: with unusable collateral at zero, init net {}", q_str(&h.net())), idx));
                            }
                            // bias direction, from the prices the instruction recorded per position
                            if h.n_liabs > 0 {
                                let hc = post.health_cache;
                                let mut slot = 0usize;
                                for bal in post.lending_account.balances.iter().filter(|x| x.active != 0) {
                                    let recorded = f64::from_le_bytes(hc.prices[slot]);
                                    slot += 1;
                                    let Some(pe) = h.positions.iter().find(|p| p.bank == bal.bank_pk) else { continue };
                                    let Some(bank) = model::bank_of(b, &bal.bank_pk) else { continue };
                                    let Ok(view) = refm::read_oracle(b, &bank, s.clock) else { continue };
                                    let reported = view.ema.price.to_f64().unwrap_or(0.0);
                                    let expect = pe.price_used.to_f64().unwrap_or(0.0);
                                    if pe.weight.is_zero() && !pe.is_liab {
                                        continue; // isolated / reduce-only / zeroed: recorded price is 0
                                    }
                                    if !pe.is_liab && recorded == 0.0 {
                                        // the caller handed in a wrong / missing oracle account for
                                        // this collateral: the program counted it as worth nothing,
                                        // which is the conservative side
                                        continue;
                                    }
                                    self.cov.probe("health_cache_prices_judged");
                                    // venue-backed banks: the exchange-rate adjustment truncates to the feed's integer mantissa
                                    let adj = view.adj_err.to_f64().unwrap_or(0.0) * 4.0;
                                    let tol = reported.abs() * 1e-9 + 1e-12 + adj;
                                    if pe.is_liab && recorded < reported - tol {
                                        out.push(viol("C09", "debt_valued_below_reported_price", ix.tag,
                                            format!("bank {}: used {recorded} reported {reported}", bal.bank_pk), idx));
                                    }
                                    if !pe.is_liab && recorded > reported + tol {
                                        out.push(viol("C09", "collateral_valued_above_reported_price", ix.tag,
                                            format!("bank {}: used {recorded} reported {reported}", bal.bank_pk), idx));
                                    }
                                    if (recorded - expect).abs() > expect.abs() * 1e-9 + 1e-12 + adj {
                                        out.push(viol("C09", "bias_differs_from_capped_confidence", ix.tag,
                                            format!("bank {}: used {recorded} expected {expect} (reported {reported})", bal.bank_pk), idx));
                                    }
                                }
                            }
                        }
                        Err(refm::HealthErr::PriceUnusable(bank, why)) => out.push(viol(
                            "C09",
                            "debt_valued_with_unusable_price",
                            ix.tag,
                            format!("account {k}: bank {bank}: {why:?}"),
                            idx,
                        )),
                        Err(_) => {}
                    }
                }
                "liquidate" | "handle_bankruptcy" => {
                    let k = if ix.tag == "liquidate" { ix.accounts[5].pubkey } else { ix.accounts[3].pubkey };
                    let Some(pre) = model::account_of(a, &k) else { continue };
                    let req = if ix.tag == "liquidate" { Req::Maint } else { Req::Equity };
                    self.cov.eval(format!("{}|ok", ix.tag));
                    if let Err(refm::HealthErr::PriceUnusable(bank, why)) = refm::health(a, &pre, req, s.clock) {
                        // the program accrues before judging; share values do not affect usability
                        out.push(viol("C09", "assessment_with_unusable_price", ix.tag,
                            format!("account {k}: bank {bank}: {why:?}"), idx));
                    }
                    if ix.tag == "liquidate" {
                        for bk in [ix.accounts[1].pubkey, ix.accounts[2].pubkey] {
                            if let Some(bank) = model::bank_of(a, &bk) {
                                match classify(&bank, a, s.clock) {
                                    Ok((p, _, _)) => {
                                        if p <= qi(0) {
                                            out.push(viol("C09", "liquidation_sized_with_non_positive_price", ix.tag, format!("bank {bk}"), idx));
                                        }
                                    }
                                    Err(e) => out.push(viol("C09", "liquidation_with_unusable_price", ix.tag, format!("bank {bk}: {e:?}"), idx)),
                                }
                            }
                        }
                    }
                }
                _ => {}
            }
        }
    }
}
