//! C07 — bankruptcy: only real bad debt is discharged; insurance first, rest pro rata.

use super::{codes, slot_of, viol};
use crate::fixtures;
use crate::model::{self, q_str, q_w, qi, qr, qu, ulp, BankQ, Q};
use crate::refm::{self, Req};
use crate::sim::{Cov, Monitor, Step, Violation};
use anchor_lang::prelude::Pubkey;
use marginfi_type_crate::constants::*;
use marginfi_type_crate::types::*;
use num_traits::{Signed, Zero};
use std::collections::BTreeSet;

pub struct C07 {
    cov: Cov,
    killed: BTreeSet<Pubkey>,
}

impl Default for C07 {
    fn default() -> Self {
        let mut cov = Cov::default();
        cov.declare(&[
            "fully_insured",
            "partially_insured",
            "uninsured",
            "bank_killed",
            "permissionless_settlement",
            "rejected_not_bankrupt",
            "rejected_unauthorised",
            "killed_bank_reconfigure_attempted",
            "killed_bank_op_rejected",
            "t22_fee_cover",
        ]);
        C07 {
            cov,
            killed: BTreeSet::new(),
        }
    }
}

impl Monitor for C07 {
    fn property(&self) -> &'static str {
        "C07"
    }
    fn cov(&self) -> &Cov {
        &self.cov
    }
    fn on_tx(&mut self, s: &Step, out: &mut Vec<Violation>) {
        let idx = s.event_index;
        if let Err(e) = &s.out.result {
            if let Some(ix) = s.tx.ixs.get(e.ix_index) {
                if ix.tag == "handle_bankruptcy" {
                    match e.code {
                        codes::ACCOUNT_NOT_BANKRUPT => self.cov.probe("rejected_not_bankrupt"),
                        codes::UNAUTHORIZED => self.cov.probe("rejected_unauthorised"),
                        _ => {}
                    }
                    self.cov.eval(format!("rej|{}", e.code));
                }
                if e.code == codes::BANK_KILLED {
                    self.cov.probe("killed_bank_op_rejected");
                }
                if let Some(bk) = super::ix_bank(ix) {
                    if self.killed.contains(&bk) && ix.tag.starts_with("configure_bank") {
                        self.cov.probe("killed_bank_reconfigure_attempted");
                    }
                }
            }
            return;
        }
        let states = s.states();
        for (i, ix) in s.tx.ixs.iter().enumerate() {
            let a = states[i];
            let b = states[i + 1];
            // permanence of the killed state, in every state
            for k in self.killed.iter() {
                match model::bank_of(b, k) {
                    Some(bank) => {
                        if bank.config.operational_state != BankOperationalState::KilledByBankruptcy {
                            out.push(viol("C07", "killed_bank_revived", ix.tag, format!("bank {k}"), idx));
                        }
                        if let Some(pre) = model::bank_of(a, k) {
                            let moved = pre.total_asset_shares != bank.total_asset_shares
                                || pre.total_liability_shares != bank.total_liability_shares;
                            if moved && matches!(ix.tag, "deposit" | "withdraw" | "borrow" | "repay" | "liquidate" | "handle_bankruptcy") {
                                out.push(viol("C07", "killed_bank_transacted", ix.tag, format!("bank {k}"), idx));
                            }
                        }
                    }
                    None => {}
                }
            }
            if let Some(bk) = super::ix_bank(ix) {
                if self.killed.contains(&bk) && ix.tag.starts_with("configure_bank") {
                    self.cov.probe("killed_bank_reconfigure_attempted");
                }
            }
            if ix.tag != "handle_bankruptcy" {
                continue;
            }
            let signer = ix.accounts[1].pubkey;
            let bk = ix.accounts[2].pubkey;
            let acc_key = ix.accounts[3].pubkey;
            let (Some(bank0), Some(bank1)) = (model::bank_of(a, &bk), model::bank_of(b, &bk)) else { continue };
            let (Some(acc0), Some(acc1)) = (model::account_of(a, &acc_key), model::account_of(b, &acc_key)) else { continue };
            let u = ulp();
            // who may settle
            let permissionless = bank0.flags & PERMISSIONLESS_BAD_DEBT_SETTLEMENT_FLAG != 0;
            let group = model::group_of(a, &bank0.group);
            let entitled = group
                .map(|g| g.admin == signer || g.risk_admin == signer)
                .unwrap_or(false);
            if permissionless && !entitled {
                self.cov.probe("permissionless_settlement");
            }
            if !permissionless && !entitled {
                out.push(viol("C07", "settled_by_unentitled_signer", ix.tag, format!("signer {signer} bank {bk}"), idx));
            }
            // naming an entitled key is not enough: it must have signed the transaction
            let signed = s.tx.ixs.iter().flat_map(|x| x.accounts.iter()).any(|m| m.pubkey == signer && m.is_signer);
            if !permissionless && !signed {
                out.push(viol("C07", "settled_without_the_named_signers_signature", ix.tag, format!("signer {signer} bank {bk}"), idx));
            }
            // eligibility (the program judges before accruing this bank): unweighted EMA values
            match refm::health(a, &acc0, Req::Equity, s.clock) {
                Ok(h) => {
                    if h.assets >= &h.liabs + &h.err {
                        out.push(viol("C07", "discharged_solvent_account", ix.tag,
                            format!("account {acc_key}: equity assets {} liabilities {}", q_str(&h.assets), q_str(&h.liabs)), idx));
                    }
                    if h.assets >= qr(1, 10) + &h.err {
                        out.push(viol("C07", "discharged_with_assets_above_ten_cents", ix.tag,
                            format!("account {acc_key}: equity assets {}", q_str(&h.assets)), idx));
                    }
                }
                Err(e) => out.push(viol("C07", "discharged_with_unusable_price", ix.tag, format!("{e:?}"), idx)),
            }
            // post-accrual pre-socialisation bank, from an explicit accrue on a fork
            let t = crate::rt::Tx::one("c07_fork", crate::ix::accrue_interest(bank0.group, bk));
            let (_, accrued_store) = s.exec.execute(a, s.clock, &t);
            let bank_acc = accrued_store
                .as_ref()
                .and_then(|p| model::bank_of(p, &bk))
                .unwrap_or(bank0);
            let qa = BankQ::of(&bank_acc);
            let q1 = BankQ::of(&bank1);
            let sl0 = slot_of(&acc0, &bk).map(|x| q_w(x.liability_shares)).unwrap_or_else(Q::zero);
            let sl1 = slot_of(&acc1, &bk).map(|x| q_w(x.liability_shares)).unwrap_or_else(Q::zero);
            let bad_debt = &sl0 * &qa.lsv;
            if bad_debt <= qr(1, 10_000) - &u * qi(2) {
                out.push(viol("C07", "no_debt_in_bank", ix.tag, format!("account {acc_key} bank {bk}: debt {}", q_str(&bad_debt)), idx));
            }
            // insurance cover
            let ins0 = model::vault_amount(a, &bank0.insurance_vault);
            let ins1 = model::vault_amount(b, &bank1.insurance_vault);
            let liq0 = model::vault_amount(a, &bank0.liquidity_vault);
            let liq1 = model::vault_amount(b, &bank1.liquidity_vault);
            let sent = ins0.saturating_sub(ins1);
            let received = liq1.saturating_sub(liq0);
            if sent != received {
                self.cov.probe("t22_fee_cover");
            }
            let mint_acc = a.get(&bank0.mint);
            let fee_of = |amt: u64| -> u64 {
                match mint_acc.and_then(|m| fixtures::mint_fee_at(m, s.clock.epoch)) {
                    Some((bps, max)) if bps > 0 => {
                        let f = (amt as u128 * bps as u128 + 9_999) / 10_000;
                        (f.min(max as u128)) as u64
                    }
                    _ => 0,
                }
            };
            let avail = ins0 - fee_of(ins0);
            let covered = model::q_min(bad_debt.clone(), qu(avail));
            let loss = &bad_debt - &covered;
            let regime = if loss.is_zero() { "full" } else if covered.is_zero() { "none" } else { "partial" };
            match regime {
                "full" => self.cov.probe("fully_insured"),
                "none" => self.cov.probe("uninsured"),
                _ => self.cov.probe("partially_insured"),
            }
            let n_dep = model::all_accounts(a)
                .iter()
                .filter(|(_, x)| slot_of(x, &bk).map(|s| q_w(s.asset_shares) >= qi(1)).unwrap_or(false))
                .count();
            self.cov.eval(format!("ok|{regime}|p{}e{}|dep{}", permissionless as u8, entitled as u8, n_dep.min(4)));
            // the vault must receive at least the cover, rounded up, and not more than one extra unit
            if qu(received) < &covered - &u * qi(2) {
                out.push(viol("C07", "insurance_cover_short", ix.tag,
                    format!("bank {bk}: received {received} expected cover {}", q_str(&covered)), idx));
            }
            if qu(received) > covered.ceil() + qi(1) {
                out.push(viol("C07", "insurance_overdrawn", ix.tag,
                    format!("bank {bk}: received {received} expected cover {}", q_str(&covered)), idx));
            }
            // socialised remainder: depositors lose exactly the uncovered amount, pro rata
            let a_before = qa.assets();
            let a_after = q1.assets();
            let killed_now = bank1.config.operational_state == BankOperationalState::KilledByBankruptcy;
            if a_before > loss {
                let expect = &a_before - &loss;
                let tol = (&qa.ta + qi(2)) * &u * qi(2);
                if (&a_after - &expect).abs() > tol {
                    out.push(viol("C07", "socialised_loss_differs", ix.tag,
                        format!("bank {bk}: deposits {} -> {} expected {} (loss {})", q_str(&a_before), q_str(&a_after), q_str(&expect), q_str(&loss)), idx));
                }
                if killed_now && q1.asv > qi(0) {
                    out.push(viol("C07", "killed_although_deposits_remain", ix.tag, format!("bank {bk}"), idx));
                }
            } else {
                if !killed_now {
                    out.push(viol("C07", "deposits_consumed_but_not_killed", ix.tag, format!("bank {bk}"), idx));
                }
                if !q1.asv.is_zero() {
                    out.push(viol("C07", "wiped_bank_share_value_not_zero", ix.tag, format!("bank {bk}"), idx));
                }
            }
            if q1.asv < qi(0) {
                out.push(viol("C07", "negative_share_value", ix.tag, format!("bank {bk}"), idx));
            }
            if killed_now {
                self.cov.probe("bank_killed");
                if !s.is_fork {
                    self.killed.insert(bk);
                }
            }
            // every depositor keeps its shares: the loss is carried by the share value alone
            for (k, x0) in model::all_accounts(a) {
                if k == acc_key {
                    continue;
                }
                let before = slot_of(&x0, &bk).map(|s| (s.asset_shares, s.liability_shares));
                let after = model::account_of(b, &k)
                    .and_then(|x1| slot_of(&x1, &bk).map(|s| (s.asset_shares, s.liability_shares)));
                if before != after {
                    out.push(viol("C07", "depositor_shares_changed", ix.tag, format!("account {k} bank {bk}"), idx));
                }
            }
            // the bankrupt account: disabled, debt cleared
            if acc1.account_flags & ACCOUNT_DISABLED == 0 {
                out.push(viol("C07", "bankrupt_account_not_disabled", ix.tag, format!("account {acc_key}"), idx));
            }
            if &sl1 * &q1.lsv > (&q1.lsv + qi(1)) * &u * qi(4) {
                out.push(viol("C07", "debt_not_cleared", ix.tag,
                    format!("account {acc_key}: remaining {}", q_str(&(&sl1 * &q1.lsv))), idx));
            }
            // total debt falls by the discharged amount
            let dl = qa.liabs() - q1.liabs();
            if (&dl - &bad_debt).abs() > (&q1.lsv + qi(1)) * &u * qi(4) {
                out.push(viol("C07", "total_debt_not_reduced_by_bad_debt", ix.tag,
                    format!("bank {bk}: reduced {} bad debt {}", q_str(&dl), q_str(&bad_debt)), idx));
            }
        }
    }
}
