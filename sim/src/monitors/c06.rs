//! C06 — interest accrual conserves value, is monotone, and is always applied first.

use super::{ix_bank, viol};
use crate::ix;
use crate::model::{self, q_str, q_w, qi, qu, ulp, BankQ, Q};
use crate::rt::{Store, Tx};
use crate::sim::{Cov, Monitor, Step, Violation};
use anchor_lang::prelude::Pubkey;
use marginfi_type_crate::types::*;
use num_traits::{Signed, Zero};

pub struct C06 {
    cov: Cov,
    counter: u64,
}

impl Default for C06 {
    fn default() -> Self {
        let mut cov = Cov::default();
        cov.declare(&[
            "pure_accrual_judged",
            "differential_deposit",
            "differential_withdraw",
            "differential_borrow",
            "differential_repay",
            "differential_liquidate",
            "differential_handle_bankruptcy",
            "differential_close_balance",
            "idempotence_checked",
            "utilisation_gt_1",
            "program_fees_off",
            "dt_ge_1_year",
            "rate_matches_curve",
        ]);
        C06 { cov, counter: 0 }
    }
}

/// exact piecewise-linear curve (seven point) at utilisation u in [0,1]
fn curve(cfg: &InterestRateConfig, u: &Q) -> Option<Q> {
    if cfg.curve_type != INTEREST_CURVE_SEVEN_POINT {
        return None;
    }
    let rate = |r: u32| qu(r as u64) / qu(u32::MAX as u64) * qi(10);
    let util = |x: u32| qu(x as u64) / qu(u32::MAX as u64);
    let u = model::q_min(model::q_max(u.clone(), qi(0)), qi(1));
    let mut px = Q::zero();
    let mut py = rate(cfg.zero_util_rate);
    for p in cfg.points.iter().filter(|p| p.util != 0) {
        let x = util(p.util);
        let y = rate(p.rate);
        if u <= x {
            if x <= px {
                return Some(py);
            }
            return Some(&py + (&y - &py) * (&u - &px) / (&x - &px));
        }
        px = x;
        py = y;
    }
    let x = qi(1);
    let y = rate(cfg.hundred_util_rate);
    if x <= px {
        return Some(py);
    }
    Some(&py + (&y - &py) * (&u - &px) / (&x - &px))
}

/// banks a transaction's handler-kind instructions transact in
fn handler_banks(ixs: &[crate::rt::Ix]) -> Vec<(Pubkey, Pubkey)> {
    // (group, bank)
    let mut v = Vec::new();
    for ix in ixs {
        match ix.tag {
            "deposit" | "withdraw" | "borrow" | "repay" | "close_balance" | "handle_bankruptcy" => {
                if let (Some(b), Some(g)) = (ix_bank(ix), ix.accounts.first()) {
                    v.push((g.pubkey, b));
                }
            }
            "liquidate" => {
                let g = ix.accounts[0].pubkey;
                v.push((g, ix.accounts[1].pubkey));
                v.push((g, ix.accounts[2].pubkey));
            }
            _ => {}
        }
    }
    v.sort();
    v.dedup();
    v
}

#[allow(clippy::too_many_arguments)]
fn compare_banks(
    what: &'static str,
    tag: &str,
    pre: &Store,
    a: &Store,
    b: &Store,
    banks: &[(Pubkey, Pubkey)],
    idx: usize,
    out: &mut Vec<Violation>,
) {
    for (_, bk) in banks {
        let (Some(x), Some(y)) = (a.get(bk), b.get(bk)) else { continue };
        // an instruction that did nothing to the bank (zero-amount "up to limit" deposit returns
        // before touching anything) transacts against no share value at all
        if pre.get(bk).map(|p| p.data == x.data).unwrap_or(false) {
            continue;
        }
        // the informational rate/price cache is not part of the claim (an instruction that
        // accrues and then returns early leaves it un-refreshed); everything else must match
        let strip = |d: &[u8]| -> Option<Vec<u8>> {
            let mut b = model::load_bank(d)?;
            b.cache = bytemuck::Zeroable::zeroed();
            Some(bytemuck::bytes_of(&b).to_vec())
        };
        if strip(&x.data) != strip(&y.data) {
            let (bx, by) = (model::load_bank(&x.data), model::load_bank(&y.data));
            let d = match (bx, by) {
                (Some(bx), Some(by)) => format!(
                    "asv {} vs {}, lsv {} vs {}, TA {} vs {}, TL {} vs {}, ins {} vs {}, last_update {} vs {}",
                    q_str(&q_w(bx.asset_share_value)),
                    q_str(&q_w(by.asset_share_value)),
                    q_str(&q_w(bx.liability_share_value)),
                    q_str(&q_w(by.liability_share_value)),
                    q_str(&q_w(bx.total_asset_shares)),
                    q_str(&q_w(by.total_asset_shares)),
                    q_str(&q_w(bx.total_liability_shares)),
                    q_str(&q_w(by.total_liability_shares)),
                    q_str(&q_w(bx.collected_insurance_fees_outstanding)),
                    q_str(&q_w(by.collected_insurance_fees_outstanding)),
                    bx.last_update,
                    by.last_update
                ),
                _ => String::new(),
            };
            out.push(viol(
                "C06",
                what,
                tag,
                format!("bank {bk} differs from accrue-first execution: {d}"),
                idx,
            ));
            continue;
        }
        if let Some(bank) = model::load_bank(&x.data) {
            for v in [bank.liquidity_vault, bank.insurance_vault, bank.fee_vault] {
                if model::vault_amount(a, &v) != model::vault_amount(b, &v) {
                    out.push(viol(
                        "C06",
                        what,
                        tag,
                        format!("vault {v} of bank {bk} differs from accrue-first execution"),
                        idx,
                    ));
                }
            }
        }
    }
}

impl Monitor for C06 {
    fn property(&self) -> &'static str {
        "C06"
    }
    fn cov(&self) -> &Cov {
        &self.cov
    }
    fn on_tx(&mut self, s: &Step, out: &mut Vec<Violation>) {
        if !s.ok() {
            return;
        }
        let idx = s.event_index;
        let states = s.states();
        for (i, ix) in s.tx.ixs.iter().enumerate() {
            if ix.program_id != crate::rt::marginfi_id() {
                continue;
            }
            let a = states[i];
            let b = states[i + 1];
            for (bk, post) in model::all_banks(b) {
                let Some(pre) = model::bank_of(a, &bk) else { continue };
                let q0 = BankQ::of(&pre);
                let q1 = BankQ::of(&post);
                if q0.asv == q1.asv && q0.lsv == q1.lsv {
                    continue;
                }
                let dt = s.clock.unix_timestamp - pre.last_update;
                let bankruptcy = ix.tag == "handle_bankruptcy";
                // monotone share values (loss socialisation is the one sanctioned decrease)
                if q1.lsv < q0.lsv {
                    out.push(viol("C06", "liability_share_value_decreased", ix.tag, format!("bank {bk}"), idx));
                }
                if q1.asv < q0.asv && !bankruptcy {
                    out.push(viol("C06", "asset_share_value_decreased", ix.tag, format!("bank {bk}"), idx));
                }
                if dt <= 0 && !bankruptcy {
                    out.push(viol(
                        "C06",
                        "share_value_changed_without_time",
                        ix.tag,
                        format!("bank {bk} dt {dt}"),
                        idx,
                    ));
                    continue;
                }
                if dt >= 31_536_000 {
                    self.cov.probe("dt_ge_1_year");
                }
                let util = if q0.assets().is_zero() {
                    Q::zero()
                } else {
                    q0.liabs() / q0.assets()
                };
                if util > qi(1) {
                    self.cov.probe("utilisation_gt_1");
                }
                let group = model::group_of(a, &pre.group);
                let prog_on = group.map(|g| g.group_flags & 1 != 0).unwrap_or(true);
                if !prog_on {
                    self.cov.probe("program_fees_off");
                    if q1.prg != q0.prg && ix.tag != "borrow" && ix.tag != "collect_bank_fees" {
                        out.push(viol(
                            "C06",
                            "program_fee_accrued_while_disabled",
                            ix.tag,
                            format!("bank {bk}: {} -> {}", q_str(&q0.prg), q_str(&q1.prg)),
                            idx,
                        ));
                    }
                }
                let ubucket = model::q_f64(&(util.clone() * qi(10))).min(12.0) as i64;
                let dtd = format!("{:.0}", (dt.max(1) as f64).log10());
                let feeclass = (!q_w(pre.config.interest_rate_config.insurance_ir_fee).is_zero()) as u8
                    + 2 * (!q_w(pre.config.interest_rate_config.protocol_fixed_fee_apr).is_zero()) as u8
                    + 4 * prog_on as u8;
                self.cov.eval(format!("{}|u{}|dt{}|f{}", ix.tag, ubucket, dtd, feeclass));

                // conservation on pure accrual: dL = dA + dF within the derived two-sided allowance
                if ix.tag == "accrue_interest" {
                    self.cov.probe("pure_accrual_judged");
                    let d_a = q1.assets() - q0.assets();
                    let d_l = q1.liabs() - q0.liabs();
                    let d_ins = &q1.ins - &q0.ins;
                    let d_grp = &q1.grp - &q0.grp;
                    let d_prg = &q1.prg - &q0.prg;
                    if d_ins < qi(0) || d_grp < qi(0) || d_prg < qi(0) {
                        out.push(viol("C06", "negative_fee_accrued", ix.tag, format!("bank {bk}"), idx));
                    }
                    let slack = &d_l - &d_a - (&d_ins + &d_grp + &d_prg);
                    let tau = qi(dt as i128) / qi(31_536_000);
                    let u = ulp();
                    let irc = &pre.config.interest_rate_config;
                    let f_sum = q_w(irc.insurance_ir_fee) + q_w(irc.protocol_ir_fee) + qi(1);
                    let ff_sum = q_w(irc.insurance_fee_fixed_apr) + q_w(irc.protocol_fixed_fee_apr) + qi(1);
                    let lower = super::c01::accrual_lower_allow(&q0, dt);
                    let upper = (&tau * (q0.assets() * qi(11) + q0.liabs() * qi(3) + qi(10) * &f_sum + &ff_sum)
                        + &q0.ta * (&q0.asv + qi(1))
                        + &tau * qi(3)
                        + qi(7))
                        * &u;
                    if slack < -lower.clone() || slack > upper {
                        out.push(viol(
                            "C06",
                            "accrual_not_conserving",
                            ix.tag,
                            format!(
                                "bank {bk}: dL {} dA {} dF {} slack {} allowed [-{}, {}]",
                                q_str(&d_l),
                                q_str(&d_a),
                                q_str(&(&d_ins + &d_grp + &d_prg)),
                                q_str(&slack),
                                q_str(&lower),
                                q_str(&upper)
                            ),
                            idx,
                        ));
                    }
                    // realised borrow rate vs exact interpolation of the configured curve
                    if let (true, Some(_)) = (q0.lsv > qi(0), curve(irc, &util)) {
                        let g_l = &q1.lsv / &q0.lsv - qi(1);
                        let borrow = &g_l / &tau;
                        let fi = q_w(irc.insurance_ir_fee) + q_w(irc.protocol_ir_fee)
                            + if prog_on { group.map(|g| q_w(g.fee_state_cache.program_fee_rate)).unwrap_or_else(Q::zero) } else { Q::zero() };
                        let ff = q_w(irc.insurance_fee_fixed_apr) + q_w(irc.protocol_fixed_fee_apr)
                            + if prog_on { group.map(|g| q_w(g.fee_state_cache.program_fee_fixed)).unwrap_or_else(Q::zero) } else { Q::zero() };
                        let b_real = (&borrow - &ff) / (qi(1) + &fi);
                        // the program evaluates the curve at a truncated utilisation
                        // U^ = trunc(trunc(L) / trunc(A)): |U^ - U| <= (ulp(1 + U)) / A + ulp  (matters when
                        // the bank only holds dust, e.g. A < 1)
                        let a_amt = q0.assets();
                        let du = if a_amt > qi(0) { &u * qi(2) * (qi(1) + &util) / &a_amt + &u * qi(2) } else { qi(1) };
                        let lo = curve(irc, &(&util - &du)).unwrap();
                        let hi = curve(irc, &(&util + &du)).unwrap();
                        let tol = (qi(2) + qi(2) / &q0.lsv) * &u / &tau + &u * qi(64);
                        if b_real < &lo - &tol || b_real > &hi + &tol {
                            out.push(viol(
                                "C06",
                                "realised_rate_off_curve",
                                ix.tag,
                                format!(
                                    "bank {bk}: util {} base rate realised {} curve [{}, {}] (dt {dt}, TA {} TL {} asv {} borrow {} fi {} ff {} prog_on {prog_on} lsv {} -> {} zero {} hundred {} points {:?})",
                                    q_str(&util),
                                    q_str(&b_real),
                                    q_str(&lo),
                                    q_str(&hi),
                                    &q0.ta / &u, &q0.tl / &u, &q0.asv / &u,
                                    q_str(&borrow), q_str(&fi), q_str(&ff), &q0.lsv / &u, &q1.lsv / &u, irc.zero_util_rate, irc.hundred_util_rate, irc.points.iter().map(|p| (p.util, p.rate)).collect::<Vec<_>>()
                                ),
                                idx,
                            ));
                        } else {
                            self.cov.probe("rate_matches_curve");
                        }
                    }
                }
            }
        }

        // Freshness by fork differential: tx  ==  accrue(all transacted banks); tx
        if s.is_fork {
            return;
        }
        let banks = handler_banks(&s.tx.ixs);
        if banks.is_empty() {
            return;
        }
        let stale: Vec<(Pubkey, Pubkey)> = banks
            .iter()
            .filter(|(_, bk)| {
                model::bank_of(s.pre, bk)
                    .map(|b| b.last_update != s.clock.unix_timestamp)
                    .unwrap_or(false)
            })
            .cloned()
            .collect();
        if stale.is_empty() {
            return;
        }
        self.counter += 1;
        let mut pre_ixs: Vec<crate::rt::Ix> = stale
            .iter()
            .map(|(g, b)| ix::accrue_interest(*g, *b))
            .collect();
        let mut all = Vec::new();
        all.append(&mut pre_ixs);
        all.extend(s.tx.ixs.iter().cloned());
        let mut t2 = Tx::many("c06_fork", all);
        t2.fail_cpi_at = None;
        // flash-loan start indices refer to positions in the tx; skip such txs
        if s.tx.ixs.iter().any(|x| x.tag == "start_flashloan" || x.tag == "start_liquidation" || x.tag == "start_deleverage") {
            return;
        }
        let (o2, post2) = s.exec.execute(s.pre, s.clock, &t2);
        match post2 {
            Some(p2) => {
                let tag = crate::sim::tx_tag(s.tx);
                compare_banks("handler_did_not_accrue_first", &tag, s.pre, s.post, &p2, &banks, idx, out);
                for x in &s.tx.ixs {
                    match x.tag {
                        "deposit" => self.cov.probe("differential_deposit"),
                        "withdraw" => self.cov.probe("differential_withdraw"),
                        "borrow" => self.cov.probe("differential_borrow"),
                        "repay" => self.cov.probe("differential_repay"),
                        "liquidate" => self.cov.probe("differential_liquidate"),
                        "handle_bankruptcy" => self.cov.probe("differential_handle_bankruptcy"),
                        "close_balance" => self.cov.probe("differential_close_balance"),
                        _ => {}
                    }
                }
                // idempotence: accrue; accrue == accrue
                if self.counter % 4 == 0 {
                    let (g, b) = stale[0];
                    let once = Tx::one("c06_fork", ix::accrue_interest(g, b));
                    let twice = Tx::many(
                        "c06_fork",
                        vec![ix::accrue_interest(g, b), ix::accrue_interest(g, b)],
                    );
                    let (_, p1) = s.exec.execute(s.pre, s.clock, &once);
                    let (_, p2) = s.exec.execute(s.pre, s.clock, &twice);
                    if let (Some(p1), Some(p2)) = (p1, p2) {
                        self.cov.probe("idempotence_checked");
                        if p1.get(&b).map(|x| &x.data) != p2.get(&b).map(|x| &x.data) {
                            out.push(viol(
                                "C06",
                                "accrual_not_idempotent",
                                "accrue_interest",
                                format!("bank {b}"),
                                idx,
                            ));
                        }
                    }
                }
            }
            None => {
                // accrue-first path failed although the direct path succeeded: only a violation
                // if the failing instruction is one of the original ones for a non-accrual reason
                let _ = o2;
            }
        }
        let _ = Signed::abs(&qi(0));
    }
}
