//! C08 — authorization: single-mutation sweep of every sampled accepted transaction.
//! For each accepted marginfi instruction: every signer replaced by every other identity and by
//! "unsigned"; every bound account slot replaced by each applicable foreign twin (other group /
//! other bank / other vault / wrong PDA / byte-identical clone owned by another program / wrong
//! type).  The binding table below is the specification (DESIGN appendix C), not the code.

use super::viol;
use crate::fixtures;
use crate::model;
use crate::rt::{marginfi_id, spl_token_id, system_id, token22_id, Account, ErrSource, Ix, Store, Tx};
use crate::sim::{Cov, Monitor, Step, Violation};
use anchor_lang::prelude::Pubkey;
use marginfi::state::bank::BankVaultType;
use marginfi_type_crate::constants::*;
use marginfi_type_crate::types::*;
use std::collections::{BTreeMap, BTreeSet};

#[derive(Clone, Copy, Debug, PartialEq, Eq)]
enum Role {
    /// account authority, or group admin while frozen; anyone in receivership if `recv`
    User { recv: bool },
    AuthorityOnly,
    GroupAdmin,
    Curve,
    Limit,
    Emode,
    AdminOrEmode,
    Emissions,
    Metadata,
    Risk,
    FeeAdmin,
    Bankruptcy,
    Receiver,
}

#[derive(Clone, Copy, Debug, PartialEq, Eq)]
enum Slot {
    Free,
    Signer(Role),
    Group,
    Bank,
    /// marginfi account bound to group and to the signer
    Account,
    /// marginfi account bound to the group only (liquidatee, bankrupt account)
    AccountGroupOnly,
    Vault(u8),
    VaultAuth(u8),
    FeeState,
    TokenProgram,
    SystemProgram,
    Sysvar,
    LiqRecord,
    /// PDA derived from the bank (emissions auth / vault, metadata)
    BankPda,
    /// a destination fixed by stored state (fees destination, fee ATA, emissions ATA, fee wallet)
    StoredDest,
    BoundMint,
}

const LIQ: u8 = 0;
const INS: u8 = 1;
const FEE: u8 = 2;

fn table(tag: &str) -> Option<Vec<Slot>> {
    use Role::*;
    use Slot::*;
    Some(match tag {
        "deposit" => vec![Group, Account, Signer(User { recv: false }), Bank, Free, Vault(LIQ), TokenProgram],
        "repay" => vec![Group, Account, Signer(User { recv: true }), Bank, Free, Vault(LIQ), TokenProgram],
        "withdraw" => vec![Group, Account, Signer(User { recv: true }), Bank, Free, VaultAuth(LIQ), Vault(LIQ), TokenProgram],
        "borrow" => vec![Group, Account, Signer(User { recv: false }), Bank, Free, VaultAuth(LIQ), Vault(LIQ), TokenProgram],
        "close_balance" => vec![Group, Account, Signer(User { recv: false }), Bank],
        "liquidate" => vec![Group, Bank, Bank, Account, Signer(User { recv: false }), AccountGroupOnly, VaultAuth(LIQ), Vault(LIQ), Vault(INS), TokenProgram],
        "handle_bankruptcy" => vec![Group, Signer(Bankruptcy), Bank, AccountGroupOnly, Vault(LIQ), Vault(INS), VaultAuth(INS), TokenProgram],
        "accrue_interest" => vec![Group, Bank],
        "collect_bank_fees" => vec![Group, Bank, VaultAuth(LIQ), Vault(LIQ), Vault(INS), Vault(FEE), FeeState, StoredDest, TokenProgram],
        "withdraw_fees" => vec![Group, Bank, Signer(GroupAdmin), Vault(FEE), VaultAuth(FEE), Free, TokenProgram],
        "withdraw_insurance" => vec![Group, Bank, Signer(GroupAdmin), Vault(INS), VaultAuth(INS), Free, TokenProgram],
        "withdraw_fees_permissionless" => vec![Group, Bank, Vault(FEE), VaultAuth(FEE), StoredDest, TokenProgram],
        "update_fees_destination" => vec![Group, Bank, Signer(GroupAdmin), Free],
        "configure_bank" | "configure_bank_oracle" | "set_fixed_oracle_price" => vec![Group, Signer(GroupAdmin), Bank],
        "configure_bank_interest_only" => vec![Group, Signer(Curve), Bank],
        "configure_bank_limits_only" => vec![Group, Signer(Limit), Bank],
        "configure_bank_emode" => vec![Group, Signer(Emode), Bank],
        "force_tokenless_repay_complete" => vec![Group, Signer(Risk), Bank],
        "clone_emode" => vec![Group, Signer(AdminOrEmode), Bank, Bank],
        "setup_emissions" => vec![Group, Signer(Emissions), Bank, Free, BankPda, BankPda, Free, TokenProgram, SystemProgram],
        "update_emissions" => vec![Group, Signer(Emissions), Bank, BoundMint, BankPda, Free, TokenProgram],
        "group_configure" | "configure_deleverage_withdrawal_limit" => vec![Group, Signer(GroupAdmin)],
        "close_bank" => vec![Group, Bank, Signer(GroupAdmin)],
        "pulse_bank_price_cache" => vec![Group, Bank],
        "propagate_fee_state" => vec![FeeState, Free],
        "config_group_fee" => vec![Free, Signer(FeeAdmin), FeeState],
        "edit_global_fee_state" | "panic_pause" | "panic_unpause" => vec![Signer(FeeAdmin), FeeState],
        "panic_unpause_permissionless" => vec![FeeState],
        "write_bank_metadata" => vec![Group, Bank, Signer(Metadata), BankPda],
        "set_freeze" => vec![Group, AccountGroupOnly, Signer(GroupAdmin)],
        "account_close" => vec![Account, Signer(AuthorityOnly), Free],
        "transfer_to_new_account" => vec![Group, Account, Free, Signer(User { recv: false }), Free, Free, StoredDest, SystemProgram],
        "transfer_to_new_account_pda" => vec![Group, Account, Free, Signer(User { recv: false }), Free, Free, StoredDest, Sysvar, SystemProgram],
        "init_bank_metadata" => vec![Free, Free, BankPda, SystemProgram],
        "start_flashloan" => vec![Account, Signer(AuthorityOnly), Sysvar],
        "end_flashloan" => vec![Account, Signer(AuthorityOnly)],
        "withdraw_emissions" => vec![Group, Account, Signer(User { recv: false }), Bank, BoundMint, BankPda, BankPda, Free, TokenProgram],
        "withdraw_emissions_permissionless" => vec![Group, AccountGroupOnly, Bank, BoundMint, BankPda, BankPda, StoredDest, TokenProgram],
        "update_emissions_destination" => vec![Account, Signer(AuthorityOnly), Free],
        "settle_emissions" => vec![AccountGroupOnly, Bank],
        "start_liquidation" => vec![Free, LiqRecord, Free, Sysvar],
        "end_liquidation" => vec![Free, LiqRecord, Signer(Receiver), FeeState, StoredDest, SystemProgram],
        "start_deleverage" => vec![AccountGroupOnly, LiqRecord, Group, Signer(Risk), Sysvar],
        "end_deleverage" => vec![AccountGroupOnly, LiqRecord, Group, Signer(Risk)],
        "purge_deleverage_balance" => vec![Group, AccountGroupOnly, Signer(Risk), Bank],
        // venue-backed banks: the venue's own accounts are bound to the bank by has_one, but no
        // foreign twin of them exists in the world, so they are left unclaimed (Free)
        "solend_deposit" => vec![Group, Account, Signer(User { recv: false }), Bank, Free, VaultAuth(LIQ), Vault(LIQ)],
        "solend_withdraw" => vec![Group, Account, Signer(User { recv: true }), Bank, Free, VaultAuth(LIQ), Vault(LIQ)],
        "kamino_deposit" => vec![Group, Account, Signer(User { recv: false }), Bank, Free, VaultAuth(LIQ), Vault(LIQ)],
        "kamino_withdraw" => vec![Group, Account, Signer(User { recv: true }), Bank, Free, VaultAuth(LIQ), Vault(LIQ)],
        "drift_deposit" => vec![Group, Account, Signer(User { recv: false }), Bank, Free, VaultAuth(LIQ), Vault(LIQ)],
        "drift_withdraw" => vec![Group, Account, Signer(User { recv: true }), Bank, Free, VaultAuth(LIQ), Vault(LIQ)],
        "edit_staked_settings" => vec![Group, Signer(GroupAdmin), BankPda],
        "propagate_staked_settings" => vec![Group, BankPda, Bank],
        _ => return None,
    })
}

pub struct C08 {
    cov: Cov,
    swept_per_tag: BTreeMap<&'static str, u32>,
    sweeps_this_run: u32,
}

impl Default for C08 {
    fn default() -> Self {
        let mut cov = Cov::default();
        cov.declare(&[
            "sweeps",
            "mutations_executed",
            "mutations_rejected_by_program",
            "mutations_rejected_by_token_program_or_runtime",
            "frozen_account_admin_path_accepted",
            "receivership_third_party_path_accepted",
            "permissionless_bankruptcy_signer_accepted",
            "wrong_owner_clone_rejected",
            "duplicate_account_mutation_rejected",
            "unsigned_rejected",
            "frozen_column_swept",
            "stored_destination_checked",
            "consistent_foreign_bank_mutation",
            "foreign_group_with_its_role_holder_mutation",
        ]);
        C08 {
            cov,
            swept_per_tag: BTreeMap::new(),
            sweeps_this_run: 0,
        }
    }
}

fn attacker_program() -> Pubkey {
    Pubkey::new_from_array([0xA7; 32])
}

fn clone_key(k: &Pubkey, salt: u8) -> Pubkey {
    let mut b = k.to_bytes();
    for (i, x) in b.iter_mut().enumerate() {
        *x = x.rotate_left(3) ^ salt ^ (i as u8).wrapping_mul(31);
    }
    Pubkey::new_from_array(b)
}

fn vault_kind(k: u8) -> BankVaultType {
    match k {
        LIQ => BankVaultType::Liquidity,
        INS => BankVaultType::Insurance,
        _ => BankVaultType::Fee,
    }
}

struct Mutation {
    key: Pubkey,
    kind: &'static str,
    /// extra account to add to the forked store (wrong-owner clones)
    extra: Option<(Pubkey, Account)>,
}

fn identities(store: &Store) -> Vec<(Pubkey, &'static str)> {
    let mut v: Vec<(Pubkey, &'static str)> = Vec::new();
    for (_, g) in model::all_groups(store) {
        v.push((g.admin, "group_admin"));
        v.push((g.emode_admin, "emode_admin"));
        v.push((g.delegate_curve_admin, "curve_admin"));
        v.push((g.delegate_limit_admin, "limit_admin"));
        v.push((g.delegate_emissions_admin, "emissions_admin"));
        v.push((g.metadata_admin, "metadata_admin"));
        v.push((g.risk_admin, "risk_admin"));
    }
    if let Some(f) = model::fee_state_of(store) {
        v.push((f.global_fee_admin, "fee_admin"));
    }
    for (_, a) in model::all_accounts(store) {
        v.push((a.authority, "authority"));
    }
    v.push((Pubkey::new_from_array([0x5E; 32]), "stranger"));
    let mut seen = BTreeSet::new();
    v.retain(|(k, _)| *k != Pubkey::default() && seen.insert(*k));
    v
}

fn entitled(role: Role, j: &Pubkey, ix: &Ix, st: &Store) -> bool {
    let group_of = |k: &Pubkey| model::group_of(st, k);
    let user_ok = |acc_key: &Pubkey, group_key: Option<Pubkey>, recv: bool| -> bool {
        let Some(a) = model::account_of(st, acc_key) else { return false };
        if recv && a.account_flags & ACCOUNT_IN_RECEIVERSHIP != 0 {
            return true;
        }
        if a.account_flags & ACCOUNT_FROZEN != 0 {
            return group_key
                .or(Some(a.group))
                .and_then(|g| group_of(&g))
                .map(|g| g.admin == *j)
                .unwrap_or(false);
        }
        a.authority == *j
    };
    let slots = table(ix.tag).unwrap_or_default();
    let first = |s: Slot| slots.iter().position(|x| *x == s).map(|i| ix.accounts[i].pubkey);
    let group_key = first(Slot::Group);
    let grp = group_key.and_then(|g| group_of(&g));
    match role {
        Role::User { recv } => {
            let acc = first(Slot::Account);
            acc.map(|a| user_ok(&a, group_key, recv)).unwrap_or(false)
        }
        Role::AuthorityOnly => first(Slot::Account)
            .and_then(|a| model::account_of(st, &a))
            .map(|a| a.authority == *j)
            .unwrap_or(false),
        Role::GroupAdmin => grp.map(|g| g.admin == *j).unwrap_or(false),
        Role::Curve => grp.map(|g| g.delegate_curve_admin == *j).unwrap_or(false),
        Role::Limit => grp.map(|g| g.delegate_limit_admin == *j).unwrap_or(false),
        Role::Emode => grp.map(|g| g.emode_admin == *j).unwrap_or(false),
        Role::AdminOrEmode => grp.map(|g| g.emode_admin == *j || g.admin == *j).unwrap_or(false),
        Role::Emissions => grp.map(|g| g.delegate_emissions_admin == *j).unwrap_or(false),
        Role::Metadata => grp.map(|g| g.metadata_admin == *j).unwrap_or(false),
        Role::Risk => grp.map(|g| g.risk_admin == *j).unwrap_or(false),
        Role::FeeAdmin => model::fee_state_of(st).map(|f| f.global_fee_admin == *j).unwrap_or(false),
        Role::Bankruptcy => {
            let bank = first(Slot::Bank).and_then(|b| model::bank_of(st, &b));
            let perm = bank.map(|b| b.flags & PERMISSIONLESS_BAD_DEBT_SETTLEMENT_FLAG != 0).unwrap_or(false);
            perm || grp.map(|g| g.admin == *j || g.risk_admin == *j).unwrap_or(false)
        }
        Role::Receiver => first(Slot::LiqRecord)
            .and_then(|r| st.get(&r).and_then(|a| model::load_liq_record(&a.data)))
            .map(|r| r.liquidation_receiver == *j)
            .unwrap_or(false),
    }
}

fn candidates(slot: Slot, orig: &Pubkey, ix: &Ix, slots: &[Slot], st: &Store) -> Vec<Mutation> {
    let mut v: Vec<Mutation> = Vec::new();
    let wrong_owner_clone = |v: &mut Vec<Mutation>| {
        if let Some(a) = st.get(orig) {
            let k = clone_key(orig, 0x11);
            let mut c = a.clone();
            c.owner = attacker_program();
            v.push(Mutation { key: k, kind: "clone_wrong_owner", extra: Some((k, c)) });
        }
    };
    let bank_key = slots.iter().position(|s| *s == Slot::Bank).map(|i| ix.accounts[i].pubkey);
    // for liquidate the vault slots belong to the liability bank (second Bank slot)
    let bank_key = if ix.tag == "liquidate" { Some(ix.accounts[2].pubkey) } else { bank_key };
    let orig_bank = bank_key.and_then(|b| model::bank_of(st, &b));
    match slot {
        Slot::Group => {
            for (k, _) in model::all_groups(st) {
                if k != *orig {
                    v.push(Mutation { key: k, kind: "other_group", extra: None });
                }
            }
            if let Some((k, _)) = model::all_banks(st).first() {
                v.push(Mutation { key: *k, kind: "wrong_type", extra: None });
            }
            wrong_owner_clone(&mut v);
        }
        Slot::Bank => {
            let og = model::bank_of(st, orig).map(|b| b.group);
            for (k, b) in model::all_banks(st) {
                if Some(b.group) != og {
                    v.push(Mutation { key: k, kind: "bank_of_other_group", extra: None });
                    break;
                }
            }
            if let Some((k, _)) = model::all_accounts(st).first() {
                v.push(Mutation { key: *k, kind: "wrong_type", extra: None });
            }
            wrong_owner_clone(&mut v);
        }
        Slot::Account | Slot::AccountGroupOnly => {
            let oa = model::account_of(st, orig);
            let has_group_slot = slots.contains(&Slot::Group);
            let mut same_group_other_auth = false;
            let mut other_group = !has_group_slot;
            for (k, a) in model::all_accounts(st) {
                if k == *orig {
                    continue;
                }
                let Some(oa) = &oa else { continue };
                if a.group != oa.group && !other_group {
                    other_group = true;
                    v.push(Mutation { key: k, kind: "account_of_other_group", extra: None });
                } else if slot == Slot::Account && (a.group == oa.group || !has_group_slot) && a.authority != oa.authority && !same_group_other_auth
                    && a.account_flags & (ACCOUNT_FROZEN | ACCOUNT_IN_RECEIVERSHIP) == 0
                {
                    same_group_other_auth = true;
                    v.push(Mutation { key: k, kind: "account_of_other_authority", extra: None });
                }
            }
            wrong_owner_clone(&mut v);
        }
        Slot::Vault(kind) => {
            if let Some(bk) = bank_key {
                for (k, b) in model::all_banks(st) {
                    if k != bk {
                        let other = crate::ix::vault_pda(&k, vault_kind(kind));
                        v.push(Mutation { key: other, kind: "vault_of_other_bank", extra: None });
                        let _ = b;
                        break;
                    }
                }
                for other_kind in [LIQ, INS, FEE] {
                    if other_kind != kind {
                        v.push(Mutation { key: crate::ix::vault_pda(&bk, vault_kind(other_kind)), kind: "other_vault_of_same_bank", extra: None });
                        break;
                    }
                }
            }
            // a stranger's token account of the same mint
            if let Some(ob) = &orig_bank {
                for (k, a) in st.accounts.iter() {
                    if (a.owner == spl_token_id() || a.owner == token22_id())
                        && a.data.len() >= 165
                        && fixtures::token_mint(&a.data) == ob.mint
                        && *k != ob.liquidity_vault
                        && *k != ob.insurance_vault
                        && *k != ob.fee_vault
                    {
                        v.push(Mutation { key: *k, kind: "user_token_account_as_vault", extra: None });
                        break;
                    }
                }
            }
            wrong_owner_clone(&mut v);
        }
        Slot::VaultAuth(kind) => {
            if let Some(bk) = bank_key {
                for (k, _) in model::all_banks(st) {
                    if k != bk {
                        v.push(Mutation { key: crate::ix::vault_auth_pda(&k, vault_kind(kind)), kind: "authority_of_other_bank", extra: None });
                        break;
                    }
                }
                for other_kind in [LIQ, INS, FEE] {
                    if other_kind != kind {
                        v.push(Mutation { key: crate::ix::vault_auth_pda(&bk, vault_kind(other_kind)), kind: "other_authority_of_same_bank", extra: None });
                        break;
                    }
                }
            }
        }
        Slot::FeeState => {
            wrong_owner_clone(&mut v);
            if let Some((k, _)) = model::all_groups(st).first() {
                v.push(Mutation { key: *k, kind: "wrong_type", extra: None });
            }
            // (a byte-identical clone *owned by the program* at another address cannot be
            // fabricated by anyone but the program itself, so it is not generated)
        }
        Slot::TokenProgram => {
            let other = if *orig == spl_token_id() { token22_id() } else { spl_token_id() };
            v.push(Mutation { key: other, kind: "other_token_program", extra: None });
            v.push(Mutation { key: attacker_program(), kind: "attacker_program", extra: Some((attacker_program(), Account::program())) });
        }
        Slot::SystemProgram => {
            v.push(Mutation { key: spl_token_id(), kind: "wrong_program", extra: None });
        }
        Slot::Sysvar => {
            let k = clone_key(orig, 0x33);
            let acc = st.get(orig).cloned().unwrap_or_else(|| Account::system(0));
            v.push(Mutation { key: k, kind: "fake_sysvar", extra: Some((k, acc)) });
        }
        Slot::LiqRecord => {
            for (k, a) in st.accounts.iter() {
                if a.owner == marginfi_id() && k != orig && model::load_liq_record(&a.data).is_some() {
                    v.push(Mutation { key: *k, kind: "record_of_other_account", extra: None });
                    break;
                }
            }
            wrong_owner_clone(&mut v);
        }
        Slot::BankPda => {
            // the counterpart PDA of another bank (same owner, same account type), if one exists
            if let Some(a) = st.get(orig) {
                for (k, o) in st.accounts.iter() {
                    if k != orig && o.owner == a.owner && o.data.len() == a.data.len() && o.data.len() >= 8 && o.data[..8] == a.data[..8]
                        && !((o.owner == spl_token_id() || o.owner == token22_id()) && o.data.len() >= 64 && o.data[..64] == a.data[..64])
                    {
                        v.push(Mutation { key: *k, kind: "counterpart_of_other_bank", extra: None });
                        break;
                    }
                }
                wrong_owner_clone(&mut v);
            } else {
                v.push(Mutation { key: clone_key(orig, 0x44), kind: "wrong_pda", extra: None });
            }
        }
        Slot::StoredDest => {
            // any other token account of the same mint / any other wallet
            match st.get(orig) {
                Some(a) if (a.owner == spl_token_id() || a.owner == token22_id()) && a.data.len() >= 165 => {
                    let mint = fixtures::token_mint(&a.data);
                    for (k, t) in st.accounts.iter() {
                        if k != orig && t.owner == a.owner && t.data.len() >= 165 && fixtures::token_mint(&t.data) == mint
                            && fixtures::token_owner(&t.data) != fixtures::token_owner(&a.data)
                        {
                            v.push(Mutation { key: *k, kind: "other_destination", extra: None });
                            break;
                        }
                    }
                }
                _ => {
                    let k = Pubkey::new_from_array([0x5E; 32]);
                    v.push(Mutation { key: k, kind: "other_wallet", extra: Some((k, Account::system(1_000_000_000))) });
                }
            }
        }
        Slot::BoundMint => {
            for (k, a) in st.accounts.iter() {
                if k != orig && (a.owner == spl_token_id() || a.owner == token22_id()) && (a.data.len() == 82 || (a.data.len() > 165 && a.data[165] == 1)) {
                    v.push(Mutation { key: *k, kind: "other_mint", extra: None });
                    break;
                }
            }
        }
        Slot::Free | Slot::Signer(_) => {}
    }
    v.retain(|m| m.key != *orig);
    v
}

impl C08 {
    fn run_mutation(
        &mut self,
        s: &Step,
        ix_i: usize,
        slot_i: usize,
        new_key: Pubkey,
        signer: Option<bool>,
        extra: Option<(Pubkey, Account)>,
    ) -> (bool, Option<ErrSource>, u32) {
        self.run_mutation_multi(s, ix_i, slot_i, new_key, signer, extra, &[])
    }

    /// As `run_mutation`, with further slots of the same instruction rewritten consistently
    /// (`more`: slot index, new key, becomes-signer).
    #[allow(clippy::too_many_arguments)]
    fn run_mutation_multi(
        &mut self,
        s: &Step,
        ix_i: usize,
        slot_i: usize,
        new_key: Pubkey,
        signer: Option<bool>,
        extra: Option<(Pubkey, Account)>,
        more: &[(usize, Pubkey, bool)],
    ) -> (bool, Option<ErrSource>, u32) {
        self.run_mutation_on(s, s.pre, ix_i, slot_i, new_key, signer, extra, more)
    }

    /// As `run_mutation_multi`, executed from an arbitrary start state (a fork of `s.pre`).
    #[allow(clippy::too_many_arguments)]
    fn run_mutation_on(
        &mut self,
        s: &Step,
        base: &Store,
        ix_i: usize,
        slot_i: usize,
        new_key: Pubkey,
        signer: Option<bool>,
        extra: Option<(Pubkey, Account)>,
        more: &[(usize, Pubkey, bool)],
    ) -> (bool, Option<ErrSource>, u32) {
        let mut tx: Tx = s.tx.clone();
        tx.fail_cpi_at = None;
        tx.actor = "attacker";
        for (i, k, sg) in more {
            if let Some(m) = tx.ixs[ix_i].accounts.get_mut(*i) {
                m.pubkey = *k;
                if *sg {
                    m.is_signer = true;
                }
            }
        }
        {
            let old_key = tx.ixs[ix_i].accounts[slot_i].pubkey;
            let m = &mut tx.ixs[ix_i].accounts[slot_i];
            m.pubkey = new_key;
            if let Some(sg) = signer {
                m.is_signer = sg;
            }
            if signer == Some(false) {
                // a signature is a property of the transaction: withdraw it everywhere
                for x in tx.ixs.iter_mut() {
                    for am in x.accounts.iter_mut() {
                        if am.pubkey == old_key {
                            am.is_signer = false;
                        }
                    }
                }
            }
        }
        let store_owned;
        let store: &Store = match extra {
            Some((k, a)) => {
                let mut st = base.clone();
                st.put(k, a);
                store_owned = st;
                &store_owned
            }
            None => base,
        };
        let (o, _) = s.exec.execute(store, s.clock, &tx);
        self.cov.probe("mutations_executed");
        match &o.result {
            Ok(()) => (true, None, 0),
            Err(e) => {
                if e.source == ErrSource::Program || e.source == ErrSource::Panic {
                    self.cov.probe("mutations_rejected_by_program");
                } else {
                    self.cov.probe("mutations_rejected_by_token_program_or_runtime");
                }
                (false, Some(e.source.clone()), e.code)
            }
        }
    }
}

impl Monitor for C08 {
    fn property(&self) -> &'static str {
        "C08"
    }
    fn cov(&self) -> &Cov {
        &self.cov
    }
    fn on_tx(&mut self, s: &Step, out: &mut Vec<Violation>) {
        if s.is_fork || !s.ok() || s.tx.actor == "genesis" {
            return;
        }
        let idx = s.event_index;
        // The receivership exception ("anyone may withdraw/repay") is valid strictly inside an
        // active bracket.  A marker that outlives its transaction voids the signer check for
        // every later transaction, so it is an authorization violation in its own right.
        for (k, a) in model::all_accounts(s.post) {
            if a.account_flags & ACCOUNT_IN_RECEIVERSHIP != 0 {
                out.push(viol("C08", "signer_check_voided_outside_bracket", &crate::sim::tx_tag(s.tx),
                    format!("account {k} is left in receivership after the transaction: any signer may now withdraw/repay"), idx));
            }
        }
        // destinations fixed by stored state are also checked directly on every accepted
        // instruction (a mutation sweep cannot see a check that reads the wrong *copy* of the
        // stored value: then only the wrong destination is accepted and nothing is left to mutate)
        {
            let states = s.states();
            for (i, ix) in s.tx.ixs.iter().enumerate() {
                if ix.program_id != marginfi_id() || ix.tag != "collect_bank_fees" {
                    continue;
                }
                let st = states[i];
                let (Some(fs), Some(bank)) = (model::fee_state_of(st), ix.accounts.get(1).and_then(|m| model::bank_of(st, &m.pubkey))) else { continue };
                let Some(mint_acc) = st.get(&bank.mint) else { continue };
                let want = crate::ix::ata(&fs.global_fee_wallet, &bank.mint, &mint_acc.owner);
                let got = ix.accounts.get(7).map(|m| m.pubkey).unwrap_or_default();
                self.cov.probe("stored_destination_checked");
                if got != want {
                    out.push(viol("C08", "accepted_with_substituted_account", ix.tag,
                        format!("slot 7 (StoredDest): fee token account {got} is not the token account {want} of the fee state's wallet {}", fs.global_fee_wallet), idx));
                }
            }
        }
        // sampling with a bias toward instruction kinds not yet swept in this run
        let tags: Vec<&'static str> = s.tx.ixs.iter().filter(|x| x.program_id == marginfi_id()).map(|x| x.tag).collect();
        if tags.is_empty() {
            return;
        }
        let least = tags.iter().map(|t| self.swept_per_tag.get(t).copied().unwrap_or(0)).min().unwrap_or(0);
        if least >= 3 || self.sweeps_this_run >= 60 {
            return;
        }
        self.sweeps_this_run += 1;
        self.cov.probe("sweeps");
        let states = s.states();
        let ids = identities(s.pre);
        for (ix_i, ix) in s.tx.ixs.iter().enumerate() {
            if ix.program_id != marginfi_id() {
                continue;
            }
            let Some(slots) = table(ix.tag) else { continue };
            *self.swept_per_tag.entry(ix.tag).or_insert(0) += 1;
            let st_before = states[ix_i];
            for (slot_i, slot) in slots.iter().enumerate() {
                let Some(meta) = ix.accounts.get(slot_i) else { continue };
                let orig = meta.pubkey;
                match slot {
                    Slot::Signer(role) => {
                        // unsigned
                        let (ok, _, _) = self.run_mutation(s, ix_i, slot_i, orig, Some(false), None);
                        self.cov.eval(format!("{}|{}|unsigned|{}", ix.tag, slot_i, ok as u8));
                        if ok {
                            out.push(viol("C08", "accepted_without_signature", ix.tag, format!("slot {slot_i} ({orig})"), idx));
                        } else {
                            self.cov.probe("unsigned_rejected");
                        }
                        for (j, label) in ids.iter() {
                            if *j == orig {
                                continue;
                            }
                            let extra = if s.pre.get(j).is_none() { Some((*j, Account::system(1_000_000_000))) } else { None };
                            let (ok, _, _) = self.run_mutation(s, ix_i, slot_i, *j, Some(true), extra);
                            self.cov.eval(format!("{}|{}|signer:{}|{}", ix.tag, slot_i, label, ok as u8));
                            if ok {
                                if entitled(*role, j, ix, st_before) {
                                    match role {
                                        Role::User { .. } => {
                                            let acc = slots.iter().position(|x| *x == Slot::Account).map(|i| ix.accounts[i].pubkey);
                                            let a = acc.and_then(|a| model::account_of(st_before, &a));
                                            if a.map(|a| a.account_flags & ACCOUNT_IN_RECEIVERSHIP != 0).unwrap_or(false) {
                                                self.cov.probe("receivership_third_party_path_accepted");
                                            } else {
                                                self.cov.probe("frozen_account_admin_path_accepted");
                                            }
                                        }
                                        Role::Bankruptcy => self.cov.probe("permissionless_bankruptcy_signer_accepted"),
                                        _ => {}
                                    }
                                } else {
                                    out.push(viol(
                                        "C08",
                                        "accepted_with_unentitled_signer",
                                        ix.tag,
                                        format!("slot {slot_i}: {label} {j} instead of {orig}"),
                                        idx,
                                    ));
                                }
                            }
                        }
                    }
                    Slot::Free => {}
                    other => {
                        for m in candidates(*other, &orig, ix, &slots, st_before) {
                            let kind = m.kind;
                            let (ok, _, _) = self.run_mutation(s, ix_i, slot_i, m.key, None, m.extra);
                            self.cov.eval(format!("{}|{}|{}|{}", ix.tag, slot_i, kind, ok as u8));
                            if ok && kind == "other_token_program" {
                                // both are genuine token programs; when the instruction moves no
                                // tokens the choice is immaterial, and when it does the token
                                // program itself rejects foreign-owned accounts (nothing claimed)
                                continue;
                            }
                            if ok && *other == Slot::Account {
                                // the substituted account may itself be one the signer is
                                // entitled to act on (e.g. the receiver's own account): legitimate
                                let mut mix = ix.clone();
                                mix.accounts[slot_i].pubkey = m.key;
                                let signer_slot = slots.iter().position(|x| matches!(x, Slot::Signer(_)));
                                if let Some(si) = signer_slot {
                                    if let Slot::Signer(role) = slots[si] {
                                        if entitled(role, &ix.accounts[si].pubkey, &mix, st_before) {
                                            continue;
                                        }
                                    }
                                }
                            }
                            if ok {
                                out.push(viol(
                                    "C08",
                                    "accepted_with_substituted_account",
                                    ix.tag,
                                    format!("slot {slot_i} ({other:?}): {kind} {} instead of {orig}", m.key),
                                    idx,
                                ));
                            } else if kind == "clone_wrong_owner" {
                                self.cov.probe("wrong_owner_clone_rejected");
                            }
                        }
                    }
                }
            }
            // the frozen-account column of the role matrix: the same instruction, every signer
            // identity, but with the account frozen first (real set_freeze by the group admin on
            // a fork).  Only the group admin of the account's group may then be accepted.
            if ix_i == 0 || s.tx.ixs.iter().filter(|x| x.program_id == marginfi_id()).count() == 1 {
                let user_slot = slots.iter().position(|x| matches!(x, Slot::Signer(Role::User { .. })));
                let acc_slot = slots.iter().position(|x| *x == Slot::Account);
                if let (Some(si), Some(ai)) = (user_slot, acc_slot) {
                    let acc_key = ix.accounts[ai].pubkey;
                    if let Some(acc) = model::account_of(s.pre, &acc_key) {
                        if let Some(g) = model::group_of(s.pre, &acc.group) {
                            if acc.account_flags & (ACCOUNT_FROZEN | ACCOUNT_IN_RECEIVERSHIP | ACCOUNT_IN_FLASHLOAN) == 0 {
                                let fr = Tx::one("c08_freeze", crate::ix::set_freeze(acc.group, acc_key, g.admin, true));
                                let (fo, fpost) = s.exec.execute(s.pre, s.clock, &fr);
                                if let (true, Some(frozen)) = (fo.ok(), fpost) {
                                    self.cov.probe("frozen_column_swept");
                                    if let Slot::Signer(role) = slots[si] {
                                        for (j, label) in ids.iter() {
                                            let extra = if frozen.get(j).is_none() { Some((*j, Account::system(1_000_000_000))) } else { None };
                                            let (ok, _, _) = self.run_mutation_on(s, &frozen, ix_i, si, *j, Some(true), extra, &[]);
                                            self.cov.eval(format!("{}|frozen|signer:{}|{}", ix.tag, label, ok as u8));
                                            if ok {
                                                if entitled(role, j, ix, &frozen) {
                                                    self.cov.probe("frozen_account_admin_path_accepted");
                                                } else {
                                                    out.push(viol("C08", "accepted_with_unentitled_signer", ix.tag,
                                                        format!("slot {si}: {label} {j} on the FROZEN account {acc_key} (only the group admin {} is entitled)", g.admin), idx));
                                                }
                                            }
                                        }
                                    }
                                }
                            }
                        }
                    }
                }
            }
            // consistent multi-slot substitutions: everything about the instruction is coherent
            // except the one relation under test (bank <-> group), so that no incidental check
            // (mint of a destination, vault seeds, token program) can mask a missing binding
            if let (Some(gi), Some(bi)) = (slots.iter().position(|x| *x == Slot::Group), slots.iter().position(|x| *x == Slot::Bank)) {
                if ix.tag != "liquidate" && ix.tag != "clone_emode" {
                    let gk = ix.accounts[gi].pubkey;
                    let bk = ix.accounts[bi].pubkey;
                    let foreign = model::all_banks(st_before).into_iter().find(|(_, b)| b.group != gk);
                    let this_bank = model::bank_of(st_before, &bk);
                    if let (Some((fk, fb)), Some(tb)) = (foreign, this_bank) {
                        // (a) the signer's own group, a foreign bank with all of its own accessories
                        let fprog = st_before.get(&fb.mint).map(|m| m.owner).unwrap_or(spl_token_id());
                        let mut more: Vec<(usize, Pubkey, bool)> = Vec::new();
                        let token_of = |mint: &Pubkey, like: Option<Pubkey>| -> Option<Pubkey> {
                            let mut any = None;
                            for (k, a) in st_before.accounts.iter() {
                                if (a.owner == spl_token_id() || a.owner == token22_id()) && a.data.len() >= 165 && fixtures::token_mint(&a.data) == *mint {
                                    if Some(fixtures::token_owner(&a.data)) == like {
                                        return Some(*k);
                                    }
                                    if any.is_none() && *k != fb.liquidity_vault && *k != fb.insurance_vault && *k != fb.fee_vault {
                                        any = Some(*k);
                                    }
                                }
                            }
                            any
                        };
                        for (i, sl) in slots.iter().enumerate() {
                            let Some(m) = ix.accounts.get(i) else { continue };
                            match sl {
                                Slot::Vault(kind) => more.push((i, crate::ix::vault_pda(&fk, vault_kind(*kind)), false)),
                                Slot::VaultAuth(kind) => more.push((i, crate::ix::vault_auth_pda(&fk, vault_kind(*kind)), false)),
                                Slot::TokenProgram => more.push((i, fprog, false)),
                                Slot::Free | Slot::StoredDest => {
                                    if let Some(a) = st_before.get(&m.pubkey) {
                                        if (a.owner == spl_token_id() || a.owner == token22_id()) && a.data.len() >= 165 && fixtures::token_mint(&a.data) == tb.mint {
                                            if let Some(k) = token_of(&fb.mint, Some(fixtures::token_owner(&a.data))) {
                                                more.push((i, k, false));
                                            }
                                        }
                                    }
                                }
                                _ => {}
                            }
                        }
                        let (ok, _, code) = self.run_mutation_multi(s, ix_i, bi, fk, None, None, &more);
                        self.cov.probe("consistent_foreign_bank_mutation");
                        self.cov.eval(format!("{}|{}|foreign_bank_with_accessories|{}", ix.tag, bi, ok as u8));
                        let _ = code;
                        if ok {
                            out.push(viol("C08", "accepted_with_substituted_account", ix.tag,
                                format!("slot {bi} (Bank): bank {fk} of another group, with its own vaults / mint-matching token accounts, instead of {bk} under group {gk}"), idx));
                        }
                        // (b) this bank, but the foreign group together with that group's holder of
                        // the signing role
                        if let Some(si) = slots.iter().position(|x| matches!(x, Slot::Signer(_))) {
                            if let (Slot::Signer(role), Some(fg)) = (slots[si], model::group_of(st_before, &fb.group)) {
                                let holder = match role {
                                    Role::GroupAdmin | Role::AdminOrEmode | Role::Bankruptcy => Some(fg.admin),
                                    Role::Curve => Some(fg.delegate_curve_admin),
                                    Role::Limit => Some(fg.delegate_limit_admin),
                                    Role::Emode => Some(fg.emode_admin),
                                    Role::Emissions => Some(fg.delegate_emissions_admin),
                                    Role::Metadata => Some(fg.metadata_admin),
                                    Role::Risk => Some(fg.risk_admin),
                                    _ => None,
                                };
                                if let Some(h) = holder.filter(|h| *h != Pubkey::default() && *h != ix.accounts[si].pubkey) {
                                    let extra = if s.pre.get(&h).is_none() { Some((h, Account::system(1_000_000_000))) } else { None };
                                    let (ok, _, _) = self.run_mutation_multi(s, ix_i, gi, fb.group, None, extra, &[(si, h, true)]);
                                    self.cov.probe("foreign_group_with_its_role_holder_mutation");
                                    self.cov.eval(format!("{}|{}|foreign_group_and_its_role_holder|{}", ix.tag, gi, ok as u8));
                                    if ok {
                                        out.push(viol("C08", "accepted_with_substituted_account", ix.tag,
                                            format!("slot {gi} (Group): group {} signed by its own role holder {h}, acting on bank {bk} of group {gk}", fb.group), idx));
                                    }
                                }
                            }
                        }
                    }
                }
            }
            // duplicate-account mutations
            if ix.tag == "liquidate" {
                for (dst, src, what) in [(5usize, 3usize, "liquidatee=liquidator"), (1, 2, "asset_bank=liab_bank")] {
                    let k = ix.accounts[src].pubkey;
                    let (ok, _, _) = self.run_mutation(s, ix_i, dst, k, None, None);
                    self.cov.eval(format!("{}|dup:{}|{}", ix.tag, what, ok as u8));
                    if ok {
                        out.push(viol("C08", "accepted_with_duplicated_account", ix.tag, what.to_string(), idx));
                    } else {
                        self.cov.probe("duplicate_account_mutation_rejected");
                    }
                }
            }
        }
        let _ = system_id;
    }
}
