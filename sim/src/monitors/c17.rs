//! C17 — caps and utilisation: limits hold after every user action.

use super::{codes, ix_bank, viol};
use crate::model::{self, q_str, qi, qu, ulp, BankQ};
use crate::sim::{Cov, Monitor, Step, Violation};

pub struct C17 {
    cov: Cov,
}

impl Default for C17 {
    fn default() -> Self {
        let mut cov = Cov::default();
        cov.declare(&[
            "up_to_limit_clipped",
            "up_to_limit_after_accrual",
            "deposit_rejected_capacity",
            "borrow_rejected_capacity",
            "utilisation_reject",
            "deposit_within_2_of_limit",
            "borrow_within_2_of_limit",
            "limit_max_unlimited",
        ]);
        C17 { cov }
    }
}

fn deposit_args(data: &[u8]) -> Option<(u64, bool)> {
    if data.len() < 17 {
        return None;
    }
    let amount = u64::from_le_bytes(data[8..16].try_into().ok()?);
    let up = data[16] == 1 && data.get(17) == Some(&1);
    Some((amount, up))
}

impl Monitor for C17 {
    fn property(&self) -> &'static str {
        "C17"
    }
    fn cov(&self) -> &Cov {
        &self.cov
    }
    fn on_tx(&mut self, s: &Step, out: &mut Vec<Violation>) {
        let idx = s.event_index;
        if let Err(e) = &s.out.result {
            let Some(ix) = s.tx.ixs.get(e.ix_index) else { return };
            match (ix.tag, e.code) {
                ("deposit", codes::BANK_ASSET_CAPACITY_EXCEEDED) => {
                    self.cov.probe("deposit_rejected_capacity");
                    if let Some((amount, up)) = deposit_args(&ix.data) {
                        self.cov.eval(format!("deposit|rej_cap|up{}", up as u8));
                        if up {
                            let bk = ix_bank(ix);
                            let dt = bk
                                .and_then(|k| model::bank_of(s.pre, &k))
                                .map(|b| s.clock.unix_timestamp - b.last_update)
                                .unwrap_or(0);
                            out.push(viol(
                                "C17",
                                "up_to_limit_deposit_failed_for_capacity",
                                ix.tag,
                                format!(
                                    "bank {:?} amount {amount} seconds since last accrual {dt}",
                                    bk
                                ),
                                idx,
                            ));
                        }
                    }
                }
                ("borrow", codes::BANK_LIAB_CAPACITY_EXCEEDED) => {
                    self.cov.probe("borrow_rejected_capacity");
                    self.cov.eval("borrow|rej_cap".into());
                }
                ("borrow" | "withdraw", codes::ILLEGAL_UTILIZATION) => {
                    self.cov.probe("utilisation_reject");
                    self.cov.eval(format!("{}|rej_util", ix.tag));
                }
                _ => {}
            }
            return;
        }
        let states = s.states();
        for (i, ix) in s.tx.ixs.iter().enumerate() {
            if !matches!(ix.tag, "deposit" | "borrow" | "withdraw") {
                continue;
            }
            let Some(bk) = ix_bank(ix) else { continue };
            let (Some(pre), Some(post)) =
                (model::bank_of(states[i], &bk), model::bank_of(states[i + 1], &bk))
            else {
                continue;
            };
            let q0 = BankQ::of(&pre);
            let q1 = BankQ::of(&post);
            let u = ulp();
            match ix.tag {
                "deposit" => {
                    if q1.ta <= q0.ta {
                        continue; // nothing deposited (zero-capacity up-to-limit)
                    }
                    let lim = post.config.deposit_limit;
                    let (amount, up) = deposit_args(&ix.data).unwrap_or((0, false));
                    let class = if lim == u64::MAX {
                        self.cov.probe("limit_max_unlimited");
                        "max"
                    } else if lim <= 1 {
                        "tiny"
                    } else {
                        "finite"
                    };
                    self.cov.eval(format!("deposit|ok|{class}|up{}", up as u8));
                    if lim != u64::MAX {
                        let a1 = q1.assets();
                        if a1 >= qu(lim) + &u {
                            out.push(viol(
                                "C17",
                                "deposit_limit_exceeded",
                                ix.tag,
                                format!("bank {bk}: assets {} limit {lim}", q_str(&a1)),
                                idx,
                            ));
                        }
                        if qu(lim) - &a1 <= qi(2) {
                            self.cov.probe("deposit_within_2_of_limit");
                        }
                        if up {
                            let deposited = (&q1.ta - &q0.ta) * &q1.asv;
                            if deposited < qu(amount) - qi(1) {
                                self.cov.probe("up_to_limit_clipped");
                                if q1.asv != q0.asv || q1.lsv != q0.lsv {
                                    self.cov.probe("up_to_limit_after_accrual");
                                }
                            }
                        }
                    }
                }
                "borrow" => {
                    if q1.tl <= q0.tl {
                        continue;
                    }
                    let lim = post.config.borrow_limit;
                    self.cov.eval(format!(
                        "borrow|ok|{}",
                        if lim == u64::MAX { "max" } else { "finite" }
                    ));
                    if lim != u64::MAX {
                        let l1 = q1.liabs();
                        if l1 >= qu(lim) + &u {
                            out.push(viol(
                                "C17",
                                "borrow_limit_exceeded",
                                ix.tag,
                                format!("bank {bk}: liabilities {} limit {lim}", q_str(&l1)),
                                idx,
                            ));
                        }
                        if qu(lim) - &l1 <= qi(2) {
                            self.cov.probe("borrow_within_2_of_limit");
                        }
                    }
                    if q1.assets() < q1.liabs() - &u * qi(2) {
                        out.push(viol(
                            "C17",
                            "borrowed_beyond_deposits",
                            ix.tag,
                            format!(
                                "bank {bk}: assets {} < liabilities {}",
                                q_str(&q1.assets()),
                                q_str(&q1.liabs())
                            ),
                            idx,
                        ));
                    }
                }
                "withdraw" => {
                    if q1.ta >= q0.ta {
                        continue;
                    }
                    // receivership / deleverage withdrawals are user actions too
                    self.cov.eval("withdraw|ok".into());
                    if q1.assets() < q1.liabs() - &u * qi(2) {
                        out.push(viol(
                            "C17",
                            "withdrawn_below_liabilities",
                            ix.tag,
                            format!(
                                "bank {bk}: assets {} < liabilities {}",
                                q_str(&q1.assets()),
                                q_str(&q1.liabs())
                            ),
                            idx,
                        ));
                    }
                }
                _ => {}
            }
        }
    }
}
