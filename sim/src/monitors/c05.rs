//! C05 — classic liquidation: only when unhealthy, improves health, bounded, exact split.

use super::{codes, slot_of, viol};
use crate::model::{self, pow10, q_str, q_w, qi, qr, qu, ulp, Q};
use crate::refm::{self, Req};
use crate::rt::Store;
use crate::sim::{Cov, Monitor, Step, Violation};
use anchor_lang::prelude::Pubkey;
use num_traits::{Signed, Zero};

pub struct C05 {
    cov: Cov,
}

impl Default for C05 {
    fn default() -> Self {
        let mut cov = Cov::default();
        cov.declare(&[
            "accepted",
            "rejected_too_severe",
            "rejected_healthy",
            "rejected_overliquidation",
            "liquidator_deposit_flipped_to_debt",
            "liquidator_had_debt_in_asset_bank",
            "decimals_differ",
            "insurance_fee_fractional",
            "strictness_judged_in_program_arithmetic",
        ]);
        C05 { cov }
    }
}

fn pos_value(store: &Store, acc: &Pubkey, bank: &Pubkey) -> Option<(Q, Q)> {
    let a = model::account_of(store, acc)?;
    let b = model::bank_of(store, bank)?;
    let (sa, sl) = slot_of(&a, bank)
        .map(|s| (q_w(s.asset_shares), q_w(s.liability_shares)))
        .unwrap_or((Q::zero(), Q::zero()));
    Some((sa * q_w(b.asset_share_value), sl * q_w(b.liability_share_value)))
}

impl Monitor for C05 {
    fn property(&self) -> &'static str {
        "C05"
    }
    fn cov(&self) -> &Cov {
        &self.cov
    }
    fn on_tx(&mut self, s: &Step, out: &mut Vec<Violation>) {
        let idx = s.event_index;
        if let Err(e) = &s.out.result {
            if let Some(ix) = s.tx.ixs.get(e.ix_index) {
                if ix.tag == "liquidate" {
                    match e.code {
                        codes::TOO_SEVERE_LIQUIDATION => self.cov.probe("rejected_too_severe"),
                        codes::HEALTHY_ACCOUNT => self.cov.probe("rejected_healthy"),
                        codes::OVERLIQUIDATION => self.cov.probe("rejected_overliquidation"),
                        _ => {}
                    }
                    self.cov.eval(format!("rej|{}|f{}", e.code, s.is_fork as u8));
                }
            }
            return;
        }
        let states = s.states();
        for (i, ix) in s.tx.ixs.iter().enumerate() {
            if ix.tag != "liquidate" {
                continue;
            }
            let a = states[i];
            let b = states[i + 1];
            let asset_bk = ix.accounts[1].pubkey;
            let liab_bk = ix.accounts[2].pubkey;
            let liquidator = ix.accounts[3].pubkey;
            let liquidatee = ix.accounts[5].pubkey;
            let q_a = qu(u64::from_le_bytes(ix.data[8..16].try_into().unwrap()));
            let (Some(ab), Some(lb)) = (model::bank_of(b, &asset_bk), model::bank_of(b, &liab_bk)) else { continue };
            self.cov.probe("accepted");
            if ab.mint_decimals != lb.mint_decimals {
                self.cov.probe("decimals_differ");
            }
            // pre-liquidation state at post-accrual share values: post banks, pre accounts
            let mut pre_at_post = b.clone();
            for k in [liquidatee, liquidator] {
                if let Some(acc) = a.get(&k) {
                    pre_at_post.put(k, acc.clone());
                }
            }
            let (Some(le0), Some(le1)) = (
                model::account_of(&pre_at_post, &liquidatee),
                model::account_of(b, &liquidatee),
            ) else {
                continue;
            };
            let h0 = refm::health(&pre_at_post, &le0, Req::Maint, s.clock);
            let h1 = refm::health(b, &le1, Req::Maint, s.clock);
            let prior = {
                let (pa, pl) = pos_value(a, &liquidator, &liab_bk).unwrap_or((Q::zero(), Q::zero()));
                if pl >= qi(1) { "debt" } else if pa >= qi(1) { "deposit" } else { "none" }
            };
            self.cov.eval(format!(
                "ok|d{}-{}|{}|f{}",
                ab.mint_decimals, lb.mint_decimals, prior, s.is_fork as u8
            ));
            match (&h0, &h1) {
                (Ok(h0), Ok(h1)) => {
                    if h0.net() > h0.err.clone() {
                        out.push(viol("C05", "liquidated_healthy_account", ix.tag,
                            format!("liquidatee {liquidatee}: ref maint health before {} (allowance {})", q_str(&h0.net()), q_str(&h0.err)), idx));
                    }
                    if h1.net() > h1.err.clone() {
                        out.push(viol("C05", "liquidation_left_account_healthy", ix.tag,
                            format!("liquidatee {liquidatee}: ref maint health after {} (allowance {})", q_str(&h1.net()), q_str(&h1.err)), idx));
                    }
                    if h1.net() < h0.net() - (&h0.err + &h1.err) {
                        out.push(viol("C05", "liquidation_worsened_health", ix.tag,
                            format!("liquidatee {liquidatee}: {} -> {}", q_str(&h0.net()), q_str(&h1.net())), idx));
                    }
                }
                (Err(e), _) | (_, Err(e)) => {
                    out.push(viol("C05", "liquidated_with_unusable_price", ix.tag,
                        format!("liquidatee {liquidatee}: {e:?}"), idx));
                }
            }
            // "strictly better", measured with the program's own valuation (real pulse_health on
            // forks of the pre- and post-liquidation states): Ref's exact rationals cannot decide
            // strictness below one ulp, the program's arithmetic can
            {
                let mh = |st: &Store| -> Option<Q> {
                    let rm = crate::world::risk_metas(st, &liquidatee, None, None);
                    let t = crate::rt::Tx::one("c05_fork", crate::ix::pulse_health(liquidatee, rm));
                    let (o, p) = s.exec.execute(st, s.clock, &t);
                    if !o.ok() {
                        return None;
                    }
                    let a = model::account_of(&p?, &liquidatee)?;
                    if a.health_cache.flags & 2 == 0 {
                        return None;
                    }
                    Some(q_w(a.health_cache.asset_value_maint) - q_w(a.health_cache.liability_value_maint))
                };
                if let (Some(m0), Some(m1)) = (mh(&pre_at_post), mh(b)) {
                    if m1 <= m0 {
                        out.push(viol("C05", "health_not_strictly_better", ix.tag,
                            format!("liquidatee {liquidatee}: program-valued maintenance health {} -> {}", q_str(&m0), q_str(&m1)), idx));
                    }
                    self.cov.probe("strictness_judged_in_program_arithmetic");
                }
            }
            // no flips on the liquidatee
            if let Some(slot) = slot_of(&le1, &liab_bk) {
                if q_w(slot.asset_shares) >= qi(1) {
                    out.push(viol("C05", "repaid_debt_flipped_to_deposit", ix.tag, format!("liquidatee {liquidatee}"), idx));
                }
            }
            if let Some(slot) = slot_of(&le1, &asset_bk) {
                if q_w(slot.liability_shares) >= qi(1) {
                    out.push(viol("C05", "seized_collateral_flipped_to_debt", ix.tag, format!("liquidatee {liquidatee}"), idx));
                }
            }
            // liquidator stays initially healthy
            if let Some(lq1) = model::account_of(b, &liquidator) {
                match refm::health(b, &lq1, Req::Init, s.clock) {
                    Ok(h) => {
                        if h.net() < -h.err.clone() {
                            out.push(viol("C05", "liquidator_left_unhealthy", ix.tag,
                                format!("liquidator {liquidator}: ref init health {} (allowance {})", q_str(&h.net()), q_str(&h.err)), idx));
                        }
                    }
                    Err(e) => out.push(viol("C05", "liquidator_unusable_debt_price", ix.tag, format!("{e:?}"), idx)),
                }
            }
            // amounts
            let (Ok(va), Ok(vl)) = (refm::read_oracle(b, &ab, s.clock), refm::read_oracle(b, &lb, s.clock)) else { continue };
            let (Ok((p_a, _, _)), Ok((_, p_l, _))) = (refm::biased(&va, &ab, false), refm::biased(&vl, &lb, false)) else { continue };
            if p_a <= qi(0) || p_l <= qi(0) {
                out.push(viol("C05", "liquidated_at_non_positive_price", ix.tag,
                    format!("asset price {} liability price {}", q_str(&p_a), q_str(&p_l)), idx));
                continue;
            }
            let da = pow10(crate::refm::balance_decimals(&ab) as u32);
            let dl = pow10(crate::refm::balance_decimals(&lb) as u32);
            let v = &q_a * &p_a / &da;
            let q_lf = &v * qr(95, 100) * &dl / &p_l;
            let q_ll = &v * qr(975, 1000) * &dl / &p_l;
            let u = ulp();
            let dpa = refm::biased_price_err(&va, false);
            let dpl = refm::biased_price_err(&vl, false);
            let e_q = ((&q_a * &dpa + &p_a * &u * qi(2) + &u) / &da + &u) * &dl / &p_l
                + &q_ll * &dpl / &p_l
                // the discount constants 0.025 are 48-bit approximations: relative error <= 2 ulp
                + &q_ll * &u * qi(8)
                + &u * qi(4);
            let asv_l = q_w(lb.asset_share_value);
            let lsv_l = q_w(lb.liability_share_value);
            let sv = model::q_max(asv_l.clone(), lsv_l.clone());
            let tol = &e_q + (&sv + qi(1)) * &u * qi(4);
            // liquidatee debt relief
            let (Some((_, le_l0)), Some((_, le_l1))) = (pos_value(&pre_at_post, &liquidatee, &liab_bk), pos_value(b, &liquidatee, &liab_bk)) else { continue };
            let relief = &le_l0 - &le_l1;
            if (&relief - &q_lf).abs() > tol {
                out.push(viol("C05", "debt_relief_not_95_percent", ix.tag,
                    format!("relief {} expected {} (tolerance {})", q_str(&relief), q_str(&q_lf), q_str(&tol)), idx));
            }
            // liquidator pays the 97.5 % equivalent
            let (Some((lq_a0, lq_l0)), Some((lq_a1, lq_l1))) = (pos_value(&pre_at_post, &liquidator, &liab_bk), pos_value(b, &liquidator, &liab_bk)) else { continue };
            let paid = (&lq_a0 - &lq_a1) + (&lq_l1 - &lq_l0);
            if lq_a0 >= qi(1) && lq_l1 >= qi(1) {
                self.cov.probe("liquidator_deposit_flipped_to_debt");
            }
            if (&paid - &q_ll).abs() > &tol * qi(2) {
                out.push(viol("C05", "liquidator_payment_not_97_5_percent", ix.tag,
                    format!("paid {} expected {} (tolerance {})", q_str(&paid), q_str(&q_ll), q_str(&tol)), idx));
            }
            // insurance: whole tokens to the vault, fraction to the outstanding bucket
            let (Some(lb0), Some(_)) = (model::bank_of(a, &liab_bk), Some(())) else { continue };
            let sent = qu(model::vault_amount(a, &lb0.liquidity_vault).saturating_sub(model::vault_amount(b, &lb.liquidity_vault)));
            let d_bucket = q_w(lb.collected_insurance_fees_outstanding) - q_w(lb0.collected_insurance_fees_outstanding);
            let fee = &q_ll - &q_lf;
            if !d_bucket.is_zero() {
                self.cov.probe("insurance_fee_fractional");
            }
            // the bucket may also have grown by accrual in this instruction: compare against the
            // accrue-first bucket (post banks already include it), so only bound the total
            let accrual_ins = {
                // insurance fee accrued by the in-instruction accrual, from an explicit fork
                let t = crate::rt::Tx::one("c05_fork", crate::ix::accrue_interest(lb.group, liab_bk));
                let (_, p) = s.exec.execute(a, s.clock, &t);
                p.and_then(|p| model::bank_of(&p, &liab_bk))
                    .map(|x| q_w(x.collected_insurance_fees_outstanding) - q_w(lb0.collected_insurance_fees_outstanding))
                    .unwrap_or_else(Q::zero)
            };
            let credited = &sent + &d_bucket - &accrual_ins;
            if (&credited - &fee).abs() > &tol * qi(2) {
                out.push(viol("C05", "insurance_credit_not_2_5_percent", ix.tag,
                    format!("vault {} + bucket {} expected {} (tolerance {})", q_str(&sent), q_str(&(&d_bucket - &accrual_ins)), q_str(&fee), q_str(&tol)), idx));
            }
            if sent > &fee + &tol * qi(2) || sent < &fee - qi(1) - &tol * qi(2) {
                out.push(viol("C05", "insurance_vault_not_whole_part", ix.tag,
                    format!("vault received {} fee {}", q_str(&sent), q_str(&fee)), idx));
            }
            // seized collateral moved one to one
            let (Some((le_a0, _)), Some((le_a1, _))) = (pos_value(&pre_at_post, &liquidatee, &asset_bk), pos_value(b, &liquidatee, &asset_bk)) else { continue };
            let seized = &le_a0 - &le_a1;
            let asv_a = q_w(ab.asset_share_value);
            if (&seized - &q_a).abs() > (&asv_a + qi(1)) * &u * qi(4) {
                out.push(viol("C05", "seized_amount_differs", ix.tag,
                    format!("seized {} requested {}", q_str(&seized), q_str(&q_a)), idx));
            }
            if let (Some((qa0, ql0)), Some((qa1, ql1))) = (pos_value(&pre_at_post, &liquidator, &asset_bk), pos_value(b, &liquidator, &asset_bk)) {
                if ql0 >= qi(1) {
                    self.cov.probe("liquidator_had_debt_in_asset_bank");
                }
                let gained = (&qa1 - &qa0) + (&ql0 - &ql1);
                let lsv_a = q_w(ab.liability_share_value);
                if gained > &q_a + (model::q_max(asv_a.clone(), lsv_a) + qi(1)) * &u * qi(4) {
                    out.push(viol("C05", "liquidator_gained_more_than_seized", ix.tag,
                        format!("gained {} seized {}", q_str(&gained), q_str(&q_a)), idx));
                }
            }
        }
    }
}
