//! INTEG profile: banks backed by the three third-party venues (Solend, Kamino, Drift) inside an
//! ordinary market world, so that the real marginfi code for venue deposits, venue withdrawals
//! (with their risk check), the exchange-rate-adjusted price adapters, the integration-position cap
//! and the tag rules runs under the same monitors as everything else.
//!
//! What is real and what is a stub here:
//!  * real: `marginfi::{solend,kamino,drift}_{deposit,withdraw}` (account validation, tag checks,
//!    expected-amount computation and read-back, `find_or_create` with the integration cap, share
//!    book-keeping, `sort_balances`, the withdraw's risk-engine check), the six venue price
//!    adapters of `state/price.rs`, the SPL-Token transfers, the banks themselves (created by the
//!    real `add_bank`, then switched by a byte patch to what `*_add_pool` + `*_init_obligation` /
//!    `*_init_user` would leave: asset tag, oracle setup with the venue account as second oracle
//!    key, the integration keys, no borrowing);
//!  * fixtures built from bytes: the venues' reserve / obligation / spot-market / user accounts
//!    and their supply token accounts (`venues.rs`), and - for a minority of holders - positions
//!    tagged Kamino / Drift in banks that are not simulated, so that the cap of 8 integration
//!    positions across kinds stays reachable;
//!  * stub: the venue programs themselves (`venues.rs`: own integer arithmetic, real token
//!    movement, staleness refusal).
//!
//! A venue bank shares mint and price feed with an ordinary bank of the group (as a Solend-USDC
//! bank shares them with the USDC bank), so the ordinary oracle publisher and the oracle-fault
//! injectors act on it too.  Holders are ordinary users' extra accounts: the market actors borrow
//! against the venue collateral, search the borrowing boundary, get liquidated and settled.

use crate::actors::Ctx;
use crate::fixtures::{self, TokenKind};
use crate::ix::{self, BankKeys};
use crate::model;
use crate::rt::{drift_id, kamino_id, marginfi_id, solend_id, Account, Tx};
use crate::sim::{Event, Sim};
use crate::venues;
use crate::world::{gen_bank_config, BankInfo, OracleKind, WorldCfg};
use anchor_lang::prelude::Pubkey;
use marginfi_type_crate::constants::{ASSET_TAG_DRIFT, ASSET_TAG_KAMINO, ASSET_TAG_SOLEND};
use marginfi_type_crate::types::{Balance, Bank, MarginfiAccount, OracleSetup};

#[derive(Clone, Copy, Debug, PartialEq, Eq)]
pub enum VKind {
    Solend,
    Kamino,
    Drift,
}

#[derive(Clone, Debug)]
pub struct VenueBank {
    pub kind: VKind,
    pub keys: BankKeys,
    pub decimals: u8,
    /// reserve (Solend, Kamino) / spot market (Drift)
    pub acc1: Pubkey,
    /// obligation (Solend, Kamino) / user (Drift)
    pub acc2: Pubkey,
    /// Drift user stats
    pub acc3: Pubkey,
    /// lending market (Solend, Kamino) / state (Drift)
    pub market: Pubkey,
    /// lending market authority (Solend, Kamino) / drift signer
    pub market_auth: Pubkey,
    /// the venue's liquidity supply token account
    pub supply: Pubkey,
    pub col_mint: Pubkey,
    pub col_supply: Pubkey,
    pub user_col: Pubkey,
    pub misc1: Pubkey,
    pub misc2: Pubkey,
    pub market_index: u16,
}

pub struct Integ {
    pub banks: Vec<VenueBank>,
    /// (user index, authority, marginfi account)
    pub holders: Vec<(usize, Pubkey, Pubkey)>,
}

fn set(sim: &mut Sim, key: Pubkey, account: Account, why: &'static str) {
    sim.apply(Event::SetAccount { key, account: Some(account), why });
}

fn venue_owner(kind: VKind) -> Pubkey {
    match kind {
        VKind::Solend => solend_id(),
        VKind::Kamino => kamino_id(),
        VKind::Drift => drift_id(),
    }
}

/// One venue bank on the mint and feed of `base`.
fn add_venue_bank(sim: &mut Sim, ctx: &mut Ctx, gi: usize, base: &BankInfo, kind: VKind, cfg: &WorldCfg) -> Option<VenueBank> {
    let g = ctx.world.groups[gi].clone();
    let bank = ctx.rng.pubkey();
    let keys = BankKeys::new(g.key, bank, base.keys.mint, base.keys.token_program);
    let mut config = gen_bank_config(ctx.rng, cfg, base.decimals, false);
    config.borrow_limit = 0;
    let mut add = ix::add_bank(&keys, g.admins.admin, ctx.world.payer, ctx.world.fee_wallet, config);
    for m in add.accounts.iter_mut() {
        if m.pubkey == bank {
            m.is_signer = true;
        }
    }
    let out = sim.apply(Event::Tx(Tx::one("integ_setup", add)))?;
    if !out.ok() {
        return None;
    }
    let slot = sim.clock.slot;
    let now = sim.clock.unix_timestamp.max(0) as u64;
    let (acc1, acc2, acc3, market) = (ctx.rng.pubkey(), ctx.rng.pubkey(), ctx.rng.pubkey(), ctx.rng.pubkey());
    let (supply, col_mint, col_supply, user_col) = (ctx.rng.pubkey(), ctx.rng.pubkey(), ctx.rng.pubkey(), ctx.rng.pubkey());
    let mint_acc = sim.store.get(&base.keys.mint)?.clone();
    let unit = 10u64.saturating_pow(base.decimals as u32).max(1);
    // exchange rates: 1:1, 2 liquidity per collateral, 3 collateral per 2 liquidity, and an odd one
    let scale = ctx.rng.range(1_000, 1_000_000).saturating_mul(unit).min(u64::MAX / 8);
    let (num, den) = *ctx.rng.pick(&[(1u64, 1u64), (2, 1), (2, 3), (1_000_003, 999_983), (7, 5)]);
    let avail = scale / den * num;
    let col_total = scale;
    let seed_deposit = 10u64;
    let market_index = ctx.rng.range(1, 40) as u16;
    let market_auth = match kind {
        VKind::Solend => Pubkey::find_program_address(&[&market.to_bytes()[..32]], &solend_id()).0,
        VKind::Kamino => Pubkey::find_program_address(&[b"lma", market.as_ref()], &kamino_id()).0,
        VKind::Drift => Pubkey::find_program_address(&[b"drift_signer"], &drift_id()).0,
    };
    match kind {
        VKind::Solend => {
            let borrowed = if ctx.rng.chance(1, 3) { (ctx.rng.range(1, 1000) as u128) * 1_000_000_000_000_000_000u128 / 7 } else { 0 };
            set(sim, acc1, venues::account(venues::solend_reserve_bytes(slot, &market, &base.keys.mint, base.decimals, &supply, avail, borrowed, &col_mint, col_total, &col_supply), solend_id()), "fixture_venue");
            set(sim, acc2, venues::account(venues::solend_obligation_bytes(slot, &market, &keys.liquidity_auth, &acc1, seed_deposit), solend_id()), "fixture_venue");
        }
        VKind::Kamino => {
            let borrowed = if ctx.rng.chance(1, 3) { (ctx.rng.range(1, 1000) as u128) * (1u128 << 60) / 3 } else { 0 };
            set(sim, acc1, venues::account(venues::kamino_reserve_bytes(slot, &market, &base.keys.mint, base.decimals, &supply, avail, borrowed, &col_mint, col_total, &col_supply), kamino_id()), "fixture_venue");
            set(sim, acc2, venues::account(venues::kamino_obligation_bytes(slot, &market, &keys.liquidity_auth, &acc1, seed_deposit), kamino_id()), "fixture_venue");
        }
        VKind::Drift => {
            // cumulative interest from 1.0 upward (10^10 precision)
            let cum = 10_000_000_000u128 + ctx.rng.range(0, 3_000_000_000) as u128;
            set(sim, acc1, venues::account(venues::drift_market_bytes(&acc1, &base.keys.mint, &supply, base.decimals, market_index, cum, 1_000_000_000_000, now), drift_id()), "fixture_venue");
            set(sim, acc2, venues::account(venues::drift_user_bytes(&keys.liquidity_auth, market_index, 0), drift_id()), "fixture_venue");
            set(sim, acc3, venues::account(venues::drift_user_stats_bytes(&keys.liquidity_auth), drift_id()), "fixture_venue");
        }
    }
    set(sim, supply, fixtures::token_account(&base.keys.mint, &mint_acc, &market_auth, avail.max(1_000_000_000_000)), "fixture_venue");
    set(sim, col_supply, fixtures::token_account(&base.keys.mint, &mint_acc, &market_auth, 0), "fixture_venue");
    for pid in [solend_id(), kamino_id(), drift_id(), marginfi::constants::FARMS_PROGRAM_ID] {
        if sim.store.get(&pid).is_none() {
            set(sim, pid, Account::program(), "fixture_venue");
        }
    }
    // what <venue>_add_pool + init leave in the bank
    let mut acc = sim.store.get(&bank)?.clone();
    {
        let b: &mut Bank = bytemuck::from_bytes_mut(&mut acc.data[8..8 + std::mem::size_of::<Bank>()]);
        let pyth = base.oracle == OracleKind::Pyth;
        b.config.asset_tag = match kind {
            VKind::Solend => ASSET_TAG_SOLEND,
            VKind::Kamino => ASSET_TAG_KAMINO,
            VKind::Drift => ASSET_TAG_DRIFT,
        };
        b.config.oracle_setup = match (kind, pyth) {
            (VKind::Solend, true) => OracleSetup::SolendPythPull,
            (VKind::Solend, false) => OracleSetup::SolendSwitchboardPull,
            (VKind::Kamino, true) => OracleSetup::KaminoPythPush,
            (VKind::Kamino, false) => OracleSetup::KaminoSwitchboardPull,
            (VKind::Drift, true) => OracleSetup::DriftPythPull,
            (VKind::Drift, false) => OracleSetup::DriftSwitchboardPull,
        };
        b.config.oracle_keys[0] = base.oracle_key;
        b.config.oracle_keys[1] = acc1;
        b.config.borrow_limit = 0;
        b.integration_acc_1 = acc1;
        b.integration_acc_2 = acc2;
        if kind == VKind::Drift {
            b.integration_acc_3 = acc3;
        }
    }
    set(sim, bank, acc, "fixture_venue_bank");
    let _ = venue_owner(kind);
    Some(VenueBank {
        kind,
        keys,
        decimals: base.decimals,
        acc1,
        acc2,
        acc3,
        market,
        market_auth,
        supply,
        col_mint,
        col_supply,
        user_col,
        misc1: ctx.rng.pubkey(),
        misc2: ctx.rng.pubkey(),
        market_index,
    })
}

/// Build the venue corner of the world.  Returns None (the run continues as a plain market run)
/// if no eligible base bank exists or a bank could not be created.
pub fn setup(sim: &mut Sim, ctx: &mut Ctx) -> Option<Integ> {
    let gi = 0usize;
    let g = ctx.world.groups.get(gi)?.clone();
    let mut cfg = WorldCfg::swarm(ctx.rng);
    cfg.allow_isolated = false;
    cfg.tight_limits = ctx.rng.chance(1, 4);
    // eligible bases: SPL-Token mint, a real feed (Pyth or Switchboard), not a staked bank
    let bases: Vec<BankInfo> = g
        .banks
        .iter()
        .filter(|b| b.kind == TokenKind::Spl && b.oracle != OracleKind::Fixed && b.staked.is_none() && b.decimals <= 9)
        .cloned()
        .collect();
    if bases.is_empty() {
        return None;
    }
    let n = ctx.rng.range(2, 4) as usize;
    let mut banks = Vec::new();
    for _ in 0..n {
        let base = ctx.rng.pick(&bases).clone();
        let kind = *ctx.rng.pick(&[VKind::Solend, VKind::Solend, VKind::Kamino, VKind::Kamino, VKind::Drift]);
        if let Some(b) = add_venue_bank(sim, ctx, gi, &base, kind, &cfg) {
            sim.stats.fault(match kind {
                VKind::Solend => "integ_solend_bank_created",
                VKind::Kamino => "integ_kamino_bank_created",
                VKind::Drift => "integ_drift_bank_created",
            });
            banks.push(b);
        }
    }
    if banks.is_empty() {
        return None;
    }
    // holders: fresh accounts of the first users, registered with them so that the market actors
    // use them too
    let mut holders = Vec::new();
    let n_holders = ctx.rng.range(1, 3) as usize;
    for ui in 0..n_holders.min(ctx.world.users.len()) {
        let authority = ctx.world.users[ui].authority;
        let ma = ctx.rng.pubkey();
        let mut i = ix::account_initialize(g.key, ma, authority, ctx.world.payer);
        for m in i.accounts.iter_mut() {
            if m.pubkey == ma {
                m.is_signer = true;
            }
        }
        let out = sim.apply(Event::Tx(Tx::one("integ_setup", i)))?;
        if !out.ok() {
            return None;
        }
        // a minority of holders start with positions of venue banks that are not simulated: the
        // cap of 8 integration positions is across kinds and needs more banks than a run creates
        let pre = *ctx.rng.pick(&[0usize, 0, 0, 0, 5, 6, 7, 8]);
        if pre > 0 {
            let mut acc = sim.store.get(&ma)?.clone();
            if acc.owner != marginfi_id() {
                return None;
            }
            let mut keys: Vec<Pubkey> = (0..pre).map(|_| ctx.rng.pubkey()).collect();
            keys.sort_by(|a, b| b.cmp(a));
            {
                let a: &mut MarginfiAccount = bytemuck::from_bytes_mut(&mut acc.data[8..8 + std::mem::size_of::<MarginfiAccount>()]);
                for (slot, k) in keys.iter().enumerate() {
                    let tag = if ctx.rng.chance(1, 2) { ASSET_TAG_KAMINO } else { ASSET_TAG_DRIFT };
                    a.lending_account.balances[slot] = Balance {
                        active: 1,
                        bank_pk: *k,
                        bank_asset_tag: tag,
                        _pad0: [0; 6],
                        asset_shares: fixed::types::I80F48::from_num(1000).into(),
                        liability_shares: fixed::types::I80F48::ZERO.into(),
                        emissions_outstanding: fixed::types::I80F48::ZERO.into(),
                        last_update: sim.clock.unix_timestamp as u64,
                        _padding: [0; 1],
                    };
                }
            }
            set(sim, ma, acc, "fixture_venue_positions");
            sim.stats.fault("integ_account_prefilled_with_venue_positions");
        } else {
            ctx.world.users[ui].maccounts.push((gi, ma));
        }
        holders.push((ui, authority, ma));
    }
    Some(Integ { banks, holders })
}

/// Bring a venue's account up to date (what the client's refresh instruction does).
fn refresh(sim: &mut Sim, ctx: &mut Ctx, b: &VenueBank) {
    let Some(mut acc) = sim.store.get(&b.acc1).cloned() else { return };
    match b.kind {
        VKind::Solend => {
            let slot = sim.clock.slot;
            if acc.data[1..9] == slot.to_le_bytes() {
                return;
            }
            acc.data[1..9].copy_from_slice(&slot.to_le_bytes());
        }
        VKind::Kamino => {
            let slot = sim.clock.slot;
            if acc.data[16..24] == slot.to_le_bytes() {
                return;
            }
            acc.data[16..24].copy_from_slice(&slot.to_le_bytes());
        }
        VKind::Drift => {
            let Some(v) = venues::parse_drift_market(&acc.data) else { return };
            let now = sim.clock.unix_timestamp.max(0) as u64;
            if v.last_interest_ts == now {
                return;
            }
            let fresh = venues::drift_market_bytes(&b.acc1, &v.mint, &v.vault, v.decimals as u8, v.market_index, v.cumulative_deposit_interest, v.deposit_balance, now);
            acc.data = fresh;
        }
    }
    // the price adapters are probed after some refreshes only (C09 probes every bank after every
    // clock advance anyway; this adds the "fresh again" verdicts)
    let why = if ctx.rng.chance(1, 6) { "oracle_venue_refresh" } else { "venue_refresh" };
    set(sim, b.acc1, acc, why);
}

/// The venue earns interest: its exchange rate rises (never falls).
fn venue_interest(sim: &mut Sim, ctx: &mut Ctx, b: &VenueBank) {
    let Some(mut acc) = sim.store.get(&b.acc1).cloned() else { return };
    let bps = ctx.rng.range(1, 300) as u128;
    match b.kind {
        VKind::Solend => {
            let Some(v) = venues::parse_solend_reserve(&acc.data) else { return };
            let add = ((v.available as u128) * bps / 10_000).min(u64::MAX as u128 / 4) as u64;
            let Some(a2) = v.available.checked_add(add) else { return };
            acc.data[171..179].copy_from_slice(&a2.to_le_bytes());
            top_up(sim, &b.supply, add);
        }
        VKind::Kamino => {
            let Some(v) = venues::parse_kamino_reserve(&acc.data) else { return };
            let add = ((v.available as u128) * bps / 10_000).min(u64::MAX as u128 / 4) as u64;
            let Some(a2) = v.available.checked_add(add) else { return };
            acc.data[8 + 216..8 + 224].copy_from_slice(&a2.to_le_bytes());
            top_up(sim, &b.supply, add);
        }
        VKind::Drift => {
            let Some(v) = venues::parse_drift_market(&acc.data) else { return };
            let cum = v.cumulative_deposit_interest + v.cumulative_deposit_interest * bps / 10_000;
            acc.data = venues::drift_market_bytes(&b.acc1, &v.mint, &v.vault, v.decimals as u8, v.market_index, cum, v.deposit_balance, v.last_interest_ts);
            top_up(sim, &b.supply, 1_000_000_000);
        }
    }
    set(sim, b.acc1, acc, "oracle_venue_interest");
    sim.stats.fault("integ_venue_exchange_rate_rose");
}

/// Fault: the venue account shows an extreme (but well-formed) state - an enormous amount of
/// liquidity per unit of collateral, no collateral outstanding, or no liquidity behind the
/// collateral.  Conversions must then report an error or a conservative value, never wrap.
fn extreme_venue_state(sim: &mut Sim, ctx: &mut Ctx, b: &VenueBank) {
    let Some(mut acc) = sim.store.get(&b.acc1).cloned() else { return };
    let which = ctx.rng.below(3);
    match b.kind {
        VKind::Solend => {
            let (avail, col): (u64, u64) = match which {
                0 => (u64::MAX / 2, ctx.rng.range(1, 1000)),
                1 => (0, 0),
                _ => (0, ctx.rng.range(1, 1_000_000_000)),
            };
            acc.data[171..179].copy_from_slice(&avail.to_le_bytes());
            acc.data[259..267].copy_from_slice(&col.to_le_bytes());
        }
        VKind::Kamino => {
            let (avail, col): (u64, u64) = match which {
                0 => (u64::MAX / 2, ctx.rng.range(1, 1000)),
                1 => (0, 0),
                _ => (0, ctx.rng.range(1, 1_000_000_000)),
            };
            acc.data[8 + 216..8 + 224].copy_from_slice(&avail.to_le_bytes());
            acc.data[8 + 2584..8 + 2592].copy_from_slice(&col.to_le_bytes());
        }
        VKind::Drift => {
            let Some(v) = venues::parse_drift_market(&acc.data) else { return };
            let cum: u128 = match which {
                0 => u128::MAX / 1_000_000,
                1 => 10_000_000_000u128 * 1_000_000_000_000,
                _ => 1,
            };
            acc.data = venues::drift_market_bytes(&b.acc1, &v.mint, &v.vault, v.decimals as u8, v.market_index, cum, v.deposit_balance, v.last_interest_ts);
        }
    }
    set(sim, b.acc1, acc, "oracle_venue_extreme_state");
    sim.stats.fault("integ_venue_extreme_state");
}

/// Fault: the feed a venue bank shares with an ordinary bank reports an extreme (but authentic and
/// fresh) value - a Switchboard value at the edge of what the program's 80.48 fixed point can hold
/// (2^79 .. 2^80 at 18 decimals, i.e. a price of $604k .. $1.2M), or a Pyth mantissa so large
/// that the exchange-rate adjustment leaves the mantissa's integer type.  Conversions must then
/// report an error, never a wrapped value.
fn extreme_feed_value(sim: &mut Sim, ctx: &mut Ctx, b: &VenueBank) {
    let Some(bank) = model::bank_of(&sim.store, &b.keys.bank) else { return };
    let feed = bank.config.oracle_keys[0];
    let now = sim.clock.unix_timestamp;
    let Some(base) = ctx.world.groups[0].banks.iter().find(|x| x.oracle_key == feed).cloned() else { return };
    let ev = match base.oracle {
        OracleKind::Swb => {
            let lo: i128 = 1i128 << 79;
            let value = match ctx.rng.below(4) {
                0 => lo,
                1 => lo + ctx.rng.range(1, 1_000_000) as i128,
                2 => lo + (ctx.rng.range(1, 999) as i128) * (lo / 1000),
                // clearly below the edge (the last few 1e-15 relative below it are inside the
                // truncation band of the exchange-rate adjustment, where either verdict is right)
                _ => lo - (lo / 1_000_000) * ctx.rng.range(1, 1000) as i128,
            };
            Event::SetAccount {
                key: feed,
                account: Some(fixtures::swb_account(&fixtures::SwbData { value, std_dev: value / 100_000, last_update_timestamp: now })),
                why: "oracle_extreme_feed_value",
            }
        }
        OracleKind::Pyth => {
            let m = match ctx.rng.below(3) {
                0 => i64::MAX,
                1 => i64::MAX / 2 + ctx.rng.range(0, 1_000_000) as i64,
                _ => i64::MAX / ctx.rng.range(3, 1000) as i64,
            };
            // as for the Switchboard values above: stay a clear 1e-6 .. 1e-3 (relative) away from
            // mantissas whose product with an exchange rate of 1 + epsilon (or 2, 3, ...) lands
            // inside the truncation band of the adjustment around i64::MAX, where either verdict
            // (priced / overflow reported) is right and the reference cannot tell which one is due
            let m = m - (m / 1_000_000) * ctx.rng.range(1, 1000) as i64;
            Event::SetAccount {
                key: feed,
                account: Some(fixtures::pyth_account(
                    base.feed_id,
                    &fixtures::PythData { price: m, conf: (m / 100_000) as u64, ema_price: m, ema_conf: (m / 100_000) as u64, exponent: -12, publish_time: now, verification_full: true },
                )),
                why: "oracle_extreme_feed_value",
            }
        }
        OracleKind::Fixed => return,
    };
    sim.apply(ev);
    sim.stats.fault("integ_extreme_feed_value");
}

/// Drift dust drill: a position worth less than one token (one native unit deposited while the
/// interest index is above 1 mints a scaled balance that converts back to zero tokens).  Closing
/// it with "withdraw all" moves no tokens - it is still a withdrawal: it must pass the risk check
/// of an owing holder and must be refused on a paused bank.
fn dust_drill(sim: &mut Sim, ctx: &mut Ctx, st: &Integ, ui: usize, authority: Pubkey, ma: Pubkey) {
    use crate::actors::{active_balances, i80};
    use fixed::types::I80F48;
    let g = ctx.world.groups[0].clone();
    let drifts: Vec<VenueBank> = st.banks.iter().filter(|b| b.kind == VKind::Drift).cloned().collect();
    if drifts.is_empty() {
        return;
    }
    let b = ctx.rng.pick(&drifts).clone();
    let Some(ta) = ctx.world.users[ui].tokens.get(&b.keys.mint).copied() else { return };
    let Some(acc) = model::account_of(&sim.store, &ma) else { return };
    let has_pos = active_balances(&acc).iter().any(|p| p.bank_pk == b.keys.bank);
    if has_pos {
        // take everything out first (needs a healthy account; otherwise give up)
        let rm = crate::world::risk_metas(&sim.store, &ma, None, Some(b.keys.bank));
        let o = sim.apply(Event::Tx(Tx::one("integ_user", ix::venue_withdraw(&b, ma, authority, ta, 0, Some(true), rm))));
        if !o.map(|o| o.ok()).unwrap_or(false) {
            return;
        }
    }
    // make sure the interest index is above 1, then deposit one native unit
    venue_interest(sim, ctx, &b);
    refresh(sim, ctx, &b);
    let o = sim.apply(Event::Tx(Tx::one("integ_user", ix::venue_deposit(&b, ma, authority, ta, 1))));
    if !o.map(|o| o.ok()).unwrap_or(false) {
        return;
    }
    sim.stats.fault("integ_drift_dust_position_opened");
    let owes = model::account_of(&sim.store, &ma).map(|a| active_balances(&a).iter().any(|p| i80(p.liability_shares) >= I80F48::ONE)).unwrap_or(false);
    match ctx.rng.below(3) {
        0 => {
            // the venue bank is paused by the group admin
            let opt = marginfi_type_crate::types::BankConfigOpt { operational_state: Some(marginfi_type_crate::types::BankOperationalState::Paused), ..Default::default() };
            let o = sim.apply(Event::Tx(Tx::one("group_admin", ix::configure_bank(g.key, g.admins.admin, b.keys.bank, opt))));
            if o.map(|o| o.ok()).unwrap_or(false) {
                sim.stats.fault("integ_drift_bank_paused_with_dust_position");
            }
        }
        _ if owes => {
            // the holder's collateral becomes too cheap for its debt: every feed of an asset
            // position drops
            let now = sim.clock.unix_timestamp;
            for _ in 0..10 {
                let Some(a) = model::account_of(&sim.store, &ma) else { return };
                let bad = crate::refm::health(&sim.store, &a, crate::refm::Req::Init, sim.clock).map(|h| h.net() < model::qi(0)).unwrap_or(true);
                if bad {
                    sim.stats.fault("integ_drift_dust_holder_unhealthy");
                    break;
                }
                let feeds: Vec<Pubkey> = active_balances(&a)
                    .iter()
                    .filter(|p| i80(p.asset_shares) >= I80F48::ONE)
                    .filter_map(|p| model::bank_of(&sim.store, &p.bank_pk).map(|k| k.config.oracle_keys[0]))
                    .collect();
                for f in feeds {
                    let Some(base) = ctx.world.groups[0].banks.iter_mut().find(|x| x.oracle_key == f) else { continue };
                    let np = (base.price_micro / 3).max(1);
                    base.price_micro = np;
                    let ev = match base.oracle {
                        OracleKind::Pyth => Event::SetAccount { key: f, account: Some(fixtures::pyth_account(base.feed_id, &crate::world::pyth_from_micro(np, base.expo, 10, 0, now))), why: "oracle_jump" },
                        OracleKind::Swb => Event::SetAccount { key: f, account: Some(fixtures::swb_account(&crate::world::swb_from_micro(np, 10, now))), why: "oracle_jump" },
                        OracleKind::Fixed => continue,
                    };
                    sim.apply(ev);
                }
            }
        }
        _ => {}
    }
    for vb in st.banks.iter() {
        refresh(sim, ctx, vb);
    }
    let rm = crate::world::risk_metas(&sim.store, &ma, None, Some(b.keys.bank));
    let o = sim.apply(Event::Tx(Tx::one("integ_user", ix::venue_withdraw(&b, ma, authority, ta, 0, Some(true), rm))));
    if o.map(|o| o.ok()).unwrap_or(false) {
        sim.stats.fault("integ_drift_dust_position_closed");
    } else {
        sim.stats.fault("integ_drift_dust_close_refused");
    }
}

/// Whale drill: an enormous (but consistent) Solend / Kamino reserve at a rate off 1 and a
/// deposit so large that amount x scaled supply leaves the program's 80.48 fixed point.  The
/// conversion must then report an error (the instruction fails); whenever it does go through, it
/// must agree with the exactly computing venue.
fn whale_drill(sim: &mut Sim, ctx: &mut Ctx, b: &VenueBank, authority: Pubkey, ma: Pubkey, ta: Pubkey) {
    if b.kind == VKind::Drift {
        return;
    }
    let Some(mut acc) = sim.store.get(&b.acc1).cloned() else { return };
    let (num, den) = *ctx.rng.pick(&[(5u64, 4u64), (4, 5), (3, 2), (1, 1)]);
    let col: u64 = *ctx.rng.pick(&[1_000_000_000_000_000u64, 40_000_000_000_000_000, 2_000_000_000_000_000_000]);
    let avail = col / den * num;
    match b.kind {
        VKind::Solend => {
            acc.data[171..179].copy_from_slice(&avail.to_le_bytes());
            acc.data[179..195].copy_from_slice(&0u128.to_le_bytes());
            acc.data[259..267].copy_from_slice(&col.to_le_bytes());
        }
        _ => {
            acc.data[8 + 216..8 + 224].copy_from_slice(&avail.to_le_bytes());
            acc.data[8 + 224..8 + 240].copy_from_slice(&0u128.to_le_bytes());
            acc.data[8 + 2584..8 + 2592].copy_from_slice(&col.to_le_bytes());
        }
    }
    set(sim, b.acc1, acc, "oracle_venue_whale_state");
    // the venue really holds that liquidity, the user really holds the tokens
    if let Some(mut s) = sim.store.get(&b.supply).cloned() {
        fixtures::set_token_amount(&mut s.data, avail);
        set(sim, b.supply, s, "fixture_venue");
    }
    let amount = *ctx.rng.pick(&[600_000_000_000_000u64, 5_000_000_000_000_000, 90_000_000_000_000_000, 1_000_000_000_000_000_000]);
    if let Some(mut t) = sim.store.get(&ta).cloned() {
        let cur = fixtures::token_amount(&t.data);
        fixtures::set_token_amount(&mut t.data, cur.max(amount));
        set(sim, ta, t, "fixture_token_account");
    }
    refresh(sim, ctx, b);
    sim.stats.fault("integ_whale_deposit_attempted");
    if let Some(o) = sim.apply(Event::Tx(Tx::one("integ_user", ix::venue_deposit(b, ma, authority, ta, amount)))) {
        if o.ok() {
            sim.stats.fault("integ_whale_deposit_ok");
            // and out again, in two halves
            let rm = crate::world::risk_metas(&sim.store, &ma, None, None);
            let half = model::account_of(&sim.store, &ma)
                .and_then(|a| a.lending_account.balances.iter().find(|p| p.active != 0 && p.bank_pk == b.keys.bank).map(|p| crate::actors::i80(p.asset_shares).to_num::<u64>() / 2))
                .unwrap_or(0);
            if half > 0 {
                sim.apply(Event::Tx(Tx::one("integ_user", ix::venue_withdraw(b, ma, authority, ta, half, None, rm))));
            }
        }
    }
}

fn top_up(sim: &mut Sim, ta: &Pubkey, add: u64) {
    if let Some(mut acc) = sim.store.get(ta).cloned() {
        let cur = fixtures::token_amount(&acc.data);
        fixtures::set_token_amount(&mut acc.data, cur.saturating_add(add));
        set(sim, *ta, acc, "fixture_venue");
    }
}

fn n_active(sim: &Sim, ma: &Pubkey) -> usize {
    model::account_of(&sim.store, ma).map(|a| a.lending_account.balances.iter().filter(|x| x.active != 0).count()).unwrap_or(0)
}

/// Before any step of an INTEG run: usually every venue is refreshed in the current slot (what a
/// client's transaction would do first); sometimes - as a fault - one or all are left stale.
pub fn pre_step(sim: &mut Sim, ctx: &mut Ctx, st: &Integ) {
    match ctx.rng.below(10) {
        0 => sim.stats.fault("integ_all_venues_left_stale"),
        1 => {
            let skip = ctx.rng.below(st.banks.len() as u64) as usize;
            for (i, b) in st.banks.iter().enumerate() {
                if i != skip {
                    refresh(sim, ctx, b);
                }
            }
            sim.stats.fault("integ_one_venue_left_stale");
        }
        _ => {
            for b in st.banks.iter() {
                refresh(sim, ctx, b);
            }
        }
    }
}

/// One venue step.
pub fn step(sim: &mut Sim, ctx: &mut Ctx, st: &Integ) {
    if st.banks.is_empty() || st.holders.is_empty() {
        return;
    }
    if ctx.rng.chance(1, 8) {
        let dt = ctx.rng.range(1, 600) as i64;
        sim.apply(Event::Advance { dt, dslot: (dt as u64) * 2, depoch: 0 });
        pre_step(sim, ctx, st);
    }
    let bi = ctx.rng.below(st.banks.len() as u64) as usize;
    let b = st.banks[bi].clone();
    let (ui, authority, ma) = *ctx.rng.pick(&st.holders);
    let Some(ta) = ctx.world.users[ui].tokens.get(&b.keys.mint).copied() else { return };
    let signer = if ctx.rng.chance(1, 14) { ctx.world.stranger } else { authority };
    match ctx.rng.below(11) {
        0 => venue_interest(sim, ctx, &b),
        10 => {
            let k = ctx.rng.below(8);
            if k < 2 {
                extreme_venue_state(sim, ctx, &b);
            } else if k == 2 {
                extreme_feed_value(sim, ctx, &b);
            } else if k < 4 {
                dust_drill(sim, ctx, st, ui, authority, ma);
            } else if k == 4 {
                whale_drill(sim, ctx, &b, authority, ma, ta);
            } else {
                // zero-time round trip: deposit, then take everything out again, atomically
                let amount = ctx.rng.range(1, 50_000_000);
                let rm = crate::world::risk_metas(&sim.store, &ma, None, Some(b.keys.bank));
                let ixs = vec![ix::venue_deposit(&b, ma, authority, ta, amount), ix::venue_withdraw(&b, ma, authority, ta, 0, Some(true), rm)];
                sim.stats.fault("integ_round_trip_attempted");
                if let Some(o) = sim.apply(Event::Tx(Tx::many("integ_user", ixs))) {
                    if o.ok() {
                        sim.stats.fault("integ_round_trip_ok");
                    }
                }
            }
        }
        1..=5 => {
            let amount = match ctx.rng.below(8) {
                0 => 1,
                1 => 0,
                2 => ctx.rng.range(2, 50),
                _ => ctx.rng.range(1_000, 100_000_000),
            };
            let i = ix::venue_deposit(&b, ma, signer, ta, amount);
            let before = n_active(sim, &ma);
            sim.stats.fault("integ_venue_deposit_attempted");
            if let Some(o) = sim.apply(Event::Tx(Tx::one("integ_user", i))) {
                if o.ok() {
                    sim.stats.fault(match b.kind {
                        VKind::Solend => "integ_solend_deposit_ok",
                        VKind::Kamino => "integ_kamino_deposit_ok",
                        VKind::Drift => "integ_drift_deposit_ok",
                    });
                    if n_active(sim, &ma) > before {
                        sim.stats.fault("integ_position_opened_by_venue_deposit");
                    }
                } else if o.code() == Some(6212) {
                    sim.stats.fault("integ_ninth_integration_position_refused");
                }
            }
        }
        _ => {
            // withdraw: part, all, or more than there is; collateral units for Solend / Kamino,
            // underlying tokens for Drift
            let Some(acc) = model::account_of(&sim.store, &ma) else { return };
            let Some(bal) = acc.lending_account.balances.iter().find(|x| x.active != 0 && x.bank_pk == b.keys.bank).cloned() else { return };
            let shares = crate::actors::i80(bal.asset_shares).to_num::<u64>();
            let all = ctx.rng.chance(1, 4);
            let cap = if b.kind == VKind::Drift {
                // scaled balance (9 decimals) -> tokens at rate ~1
                let f = 10u64.saturating_pow(9u32.saturating_sub(b.decimals as u32)).max(1);
                shares / f
            } else {
                shares
            };
            // one in six: the whole position by amount, WITHOUT the "all" flag - the slot stays
            // active and empty
            let drain = !all && ctx.rng.chance(1, 6);
            let amount = if all { 0 } else if drain { cap.max(1) } else { crate::actors::pick_amount(ctx.rng, cap.max(1)) };
            if drain {
                sim.stats.fault("integ_venue_position_drained_without_closing");
            }
            let rm = crate::world::risk_metas(&sim.store, &ma, None, if all { Some(b.keys.bank) } else { None });
            let i = ix::venue_withdraw(&b, ma, signer, ta, amount, if all { Some(true) } else { None }, rm);
            sim.stats.fault("integ_venue_withdraw_attempted");
            if let Some(o) = sim.apply(Event::Tx(Tx::one("integ_user", i))) {
                if o.ok() {
                    sim.stats.fault(match b.kind {
                        VKind::Solend => "integ_solend_withdraw_ok",
                        VKind::Kamino => "integ_kamino_withdraw_ok",
                        VKind::Drift => "integ_drift_withdraw_ok",
                    });
                } else if o.code() == Some(6009) {
                    sim.stats.fault("integ_venue_withdraw_refused_for_health");
                }
            }
        }
    }
}

/// A holder borrows from an ordinary bank against its venue collateral, at the boundary.
pub fn borrow_step(sim: &mut Sim, ctx: &mut Ctx, st: &Integ) {
    let (ui, _authority, ma) = *ctx.rng.pick(&st.holders);
    if !ctx.world.users[ui].maccounts.iter().any(|(_, k)| *k == ma) {
        return;
    }
    if let Some(mut tx) = crate::actors::borrow_boundary_for(sim, ctx, ui, 0, ma) {
        sim.stats.fault("integ_holder_borrow_boundary");
        crate::actors::submit(sim, ctx, &mut tx);
    }
}

/// A receivership (liquidation or forced deleverage) bracket whose seizure leg is a VENUE
/// withdrawal: the holder's venue collateral is made too cheap first (the venue bank shares its
/// feed with an ordinary bank), then [init record,] start, repay, <venue>_withdraw, end.
pub fn bracket_step(sim: &mut Sim, ctx: &mut Ctx, st: &Integ) {
    use crate::actors::{active_balances, i80, liab_amount_u64, pick_amount};
    use fixed::types::I80F48;
    let gi = 0usize;
    let g = ctx.world.groups[gi].clone();
    // a registered holder with a venue position and a debt in an ordinary bank
    let mut cands = Vec::new();
    for (ui, _auth, ma) in st.holders.iter() {
        if !ctx.world.users[*ui].maccounts.iter().any(|(_, k)| k == ma) {
            continue;
        }
        let Some(acc) = model::account_of(&sim.store, ma) else { continue };
        let bals = active_balances(&acc);
        let venue_pos: Vec<usize> = st
            .banks
            .iter()
            .enumerate()
            .filter(|(_, b)| bals.iter().any(|p| p.bank_pk == b.keys.bank && i80(p.asset_shares) >= I80F48::ONE))
            .map(|(i, _)| i)
            .collect();
        let debts: Vec<Balance> = bals.iter().filter(|p| i80(p.liability_shares) >= I80F48::ONE && ctx.world.bank_info(&p.bank_pk).is_some()).cloned().collect();
        if !venue_pos.is_empty() && !debts.is_empty() {
            cands.push((*ui, *ma, venue_pos, debts));
        }
    }
    if cands.is_empty() {
        return;
    }
    let (ui, ma, venue_pos, debts) = ctx.rng.pick(&cands).clone();
    // Solend withdrawals are not on the bracket's allow-list in this version of the program: keep
    // attempting them now and then (they must be refused), prefer the two kinds that are
    let preferred: Vec<usize> = venue_pos.iter().copied().filter(|i| st.banks[*i].kind != VKind::Solend).collect();
    let vb = if !preferred.is_empty() && ctx.rng.chance(4, 5) { st.banks[*ctx.rng.pick(&preferred)].clone() } else { st.banks[*ctx.rng.pick(&venue_pos)].clone() };
    let lb = ctx.rng.pick(&debts).clone();
    let Some(l_info) = ctx.world.bank_info(&lb.bank_pk).cloned() else { return };
    sim.stats.fault("integ_bracket_attempted");
    // every feed fresh first (a liquidator's client would crank them), venues refreshed
    {
        let mut f = Vec::new();
        for e in crate::actors::act_oracle_publish(sim, ctx, &mut f) {
            sim.apply(e);
        }
        for b in st.banks.iter() {
            refresh(sim, ctx, b);
        }
    }
    // make the holder unhealthy: the feed the venue bank shares with an ordinary bank drops
    let Some(vbank) = model::bank_of(&sim.store, &vb.keys.bank) else { return };
    let feed = vbank.config.oracle_keys[0];
    for _ in 0..12 {
        let Some(acc) = model::account_of(&sim.store, &ma) else { return };
        let unhealthy = crate::refm::health(&sim.store, &acc, crate::refm::Req::Maint, sim.clock).map(|h| h.net() < model::qi(0)).unwrap_or(true);
        if unhealthy {
            break;
        }
        let now = sim.clock.unix_timestamp;
        let Some(base) = ctx.world.groups[gi].banks.iter_mut().find(|b| b.oracle_key == feed) else { return };
        let pct = *ctx.rng.pick(&[30u64, 50, 70, 85]);
        let np = (base.price_micro as u128 * pct as u128 / 100).max(1) as u64;
        base.price_micro = np;
        let ev = match base.oracle {
            OracleKind::Pyth => Event::SetAccount { key: base.oracle_key, account: Some(fixtures::pyth_account(base.feed_id, &crate::world::pyth_from_micro(np, base.expo, 10, 0, now))), why: "oracle_jump" },
            OracleKind::Swb => Event::SetAccount { key: base.oracle_key, account: Some(fixtures::swb_account(&crate::world::swb_from_micro(np, 10, now))), why: "oracle_jump" },
            OracleKind::Fixed => return,
        };
        sim.apply(ev);
    }
    let deleverage = ctx.rng.chance(1, 3);
    let others: Vec<usize> = (0..ctx.world.users.len()).filter(|x| *x != ui).collect();
    if others.is_empty() {
        return;
    }
    let ruser = ctx.world.users[*ctx.rng.pick(&others)].clone();
    let receiver = if deleverage { g.admins.risk } else { ruser.authority };
    let Some(dst_ta) = ruser.tokens.get(&vb.keys.mint).copied() else { return };
    let Some(l_bank) = model::bank_of(&sim.store, &lb.bank_pk) else { return };
    let debt = liab_amount_u64(&l_bank, &lb);
    let src_ta = if deleverage {
        let key = Pubkey::new_from_array({
            let mut b = g.admins.risk.to_bytes();
            let m = l_info.keys.mint.to_bytes();
            for i in 0..32 {
                b[i] ^= m[i].rotate_left(3);
            }
            b
        });
        if sim.store.get(&key).is_none() {
            let Some(mint_acc) = sim.store.get(&l_info.keys.mint).cloned() else { return };
            set(sim, key, fixtures::token_account(&l_info.keys.mint, &mint_acc, &g.admins.risk, debt.saturating_mul(2).saturating_add(1_000_000)), "fixture_risk_admin_funding");
        }
        key
    } else {
        let Some(k) = ruser.tokens.get(&l_info.keys.mint).copied() else { return };
        k
    };
    let Some(acc) = model::account_of(&sim.store, &ma) else { return };
    let rm = crate::world::risk_metas(&sim.store, &ma, None, None);
    let repay_amt = pick_amount(ctx.rng, debt.max(1));
    // value-matched seizure around the premium boundary, in the venue's own units
    let shares = acc.lending_account.balances.iter().find(|p| p.active != 0 && p.bank_pk == vb.keys.bank).map(|p| i80(p.asset_shares).to_num::<u64>()).unwrap_or(0);
    let units = {
        let va = crate::refm::read_oracle(&sim.store, &vbank, sim.clock).ok();
        let vl = crate::refm::read_oracle(&sim.store, &l_bank, sim.clock).ok();
        match (va, vl) {
            (Some(va), Some(vl)) if va.ema.price > model::qi(0) => {
                use num_traits::ToPrimitive;
                let rv = model::qu(repay_amt) * &vl.ema.price / model::pow10(l_bank.mint_decimals as u32);
                let prem = *ctx.rng.pick(&[90u64, 100, 100, 103, 105, 106, 110, 126, 200]);
                let w = rv * model::qu(prem) / model::qu(100) * model::pow10(crate::refm::balance_decimals(&vbank) as u32) / &va.ema.price;
                w.floor().to_integer().to_u64().unwrap_or(shares).min(shares.saturating_add(1))
            }
            _ => pick_amount(ctx.rng, shares.max(1)),
        }
    }
    .max(1);
    // Drift's instruction takes underlying tokens, the others the venue's collateral units
    let w_arg = if vb.kind == VKind::Drift {
        let f = 10u64.saturating_pow(9u32.saturating_sub(vb.decimals as u32)).max(1);
        (units / f).max(1)
    } else {
        units
    };
    let mut ixs = Vec::new();
    if acc.liquidation_record == Pubkey::default() {
        ixs.push(ix::init_liq_record(ma, ctx.world.payer));
    }
    ixs.push(if deleverage { ix::start_deleverage(g.key, ma, receiver, rm.clone()) } else { ix::start_liquidation(ma, receiver, rm.clone()) });
    let r_ix = ix::repay(&l_info.keys, ma, receiver, src_ta, repay_amt, None);
    let w_ix = ix::venue_withdraw(&vb, ma, receiver, dst_ta, w_arg, None, rm.clone());
    if ctx.rng.chance(1, 2) {
        ixs.push(r_ix);
        ixs.push(w_ix);
    } else {
        ixs.push(w_ix);
        ixs.push(r_ix);
    }
    ixs.push(if deleverage { ix::end_deleverage(g.key, ma, receiver, rm.clone()) } else { ix::end_liquidation(ma, receiver, ctx.world.fee_wallet, rm) });
    if deleverage && ctx.rng.chance(3, 4) {
        // a daily limit around anything: sometimes tiny, sometimes generous
        let lim = *ctx.rng.pick(&[1u32, 1, 10, 10, 1000, 1_000_000]);
        sim.apply(Event::Tx(Tx::one("group_admin", ix::configure_deleverage_withdrawal_limit(g.key, g.admins.admin, lim))));
    }
    if let Some(o) = sim.apply(Event::Tx(Tx::many(if deleverage { "risk_admin" } else { "receiver" }, ixs))) {
        if o.ok() {
            sim.stats.fault(if deleverage { "integ_deleverage_bracket_with_venue_leg_ok" } else { "integ_liquidation_bracket_with_venue_leg_ok" });
        } else {
            sim.stats.fault(match o.code() {
                Some(6068) => "integ_bracket_refused_healthy_account",
                Some(6009) => "integ_bracket_refused_init_health",
                Some(6042) => "integ_bracket_refused_unauthorized",
                Some(6080) => "integ_bracket_refused_paused",
                Some(c) if (6200..6500).contains(&c) => "integ_bracket_refused_venue_code",
                Some(c) if c >= 0x5717 && c <= 0x5719 => "integ_bracket_refused_stale_venue",
                Some(c) if c >= 6085 && c <= 6110 => "integ_bracket_refused_receivership_rule",
                _ => "integ_bracket_refused_other",
            });
            if std::env::var("MFISIM_DEBUG_BRACKET").is_ok() {
                eprintln!("bracket refused: {:?} ix {:?}", o.code(), o.result.as_ref().err().map(|e| (e.ix_index, e.msg.clone())));
            }
        }
    }
}
