//! INTEG profile: the one integration surface the simulator executes - `solend_deposit` - so that
//! the "at most 8 integration positions" clause of C16 (and the slot allocation of an account that
//! mixes integration kinds) is reached by real marginfi code.
//!
//! What is real and what is a stub here:
//!  * real: `marginfi::solend_deposit` (account validation, tag checks, obligation read-back,
//!    `find_or_create` with the integration cap, share bookkeeping, `sort_balances`), the SPL-Token
//!    transfer user -> liquidity vault, the banks themselves (created by the real `add_bank`);
//!  * fixtures built from bytes: the Solend reserve and obligation (layouts of `solend-mocks`),
//!    the switch of a freshly created bank to `ASSET_TAG_SOLEND` with its two integration keys
//!    (what `solend_add_pool` + `solend_init_obligation` would leave), and - because only one venue
//!    has a stub - a user account that already holds 5..8 positions tagged Kamino / Drift in banks
//!    that are not simulated (a state only venue deposits can produce);
//!  * stub: the Solend program itself (`rt::solend_stub`: exchange-rate book-keeping only).

use crate::actors::Ctx;
use crate::fixtures;
use crate::ix::{self, BankKeys};
use crate::model;
use crate::rt::{marginfi_id, solend_id, Account, Tx};
use crate::sim::{Event, Sim};
use crate::world::{Genesis, WorldCfg};
use anchor_lang::prelude::Pubkey;
use marginfi_type_crate::constants::{ASSET_TAG_DRIFT, ASSET_TAG_KAMINO, ASSET_TAG_SOLEND};
use marginfi_type_crate::types::{Balance, Bank, MarginfiAccount};

#[derive(Clone, Debug)]
pub struct SolendBank {
    pub keys: BankKeys,
    pub decimals: u8,
    pub reserve: Pubkey,
    pub obligation: Pubkey,
    pub market: Pubkey,
    pub market_auth: Pubkey,
    pub liq_supply: Pubkey,
    pub col_mint: Pubkey,
    pub col_supply: Pubkey,
    pub user_col: Pubkey,
    pub pyth: Pubkey,
    pub swb: Pubkey,
}

pub struct Integ {
    pub banks: Vec<SolendBank>,
    /// (authority, marginfi account, token account per solend bank index)
    pub holders: Vec<(Pubkey, Pubkey, Vec<Pubkey>)>,
}

fn reserve_bytes(slot: u64, market: &Pubkey, mint: &Pubkey, decimals: u8, liq_supply: &Pubkey, avail: u64, col_mint: &Pubkey, col_total: u64, col_supply: &Pubkey) -> Vec<u8> {
    let mut d = vec![0u8; solend_mocks::state::RESERVE_LEN];
    d[0] = 1; // version byte = the "discriminator"
    d[1..9].copy_from_slice(&slot.to_le_bytes());
    d[9] = 0;
    d[10..42].copy_from_slice(market.as_ref());
    d[42..74].copy_from_slice(mint.as_ref());
    d[74] = decimals;
    d[75..107].copy_from_slice(liq_supply.as_ref());
    d[171..179].copy_from_slice(&avail.to_le_bytes());
    d[227..259].copy_from_slice(col_mint.as_ref());
    d[259..267].copy_from_slice(&col_total.to_le_bytes());
    d[267..299].copy_from_slice(col_supply.as_ref());
    d
}

fn obligation_bytes(slot: u64, market: &Pubkey, owner: &Pubkey, reserve: &Pubkey, deposited: u64) -> Vec<u8> {
    let mut d = vec![0u8; solend_mocks::state::OBLIGATION_LEN];
    d[0] = 1;
    d[1..9].copy_from_slice(&slot.to_le_bytes());
    d[10..42].copy_from_slice(market.as_ref());
    d[42..74].copy_from_slice(owner.as_ref());
    d[202] = 1; // one deposit
    d[203] = 0; // no borrows
    d[204..236].copy_from_slice(reserve.as_ref());
    d[236..244].copy_from_slice(&deposited.to_le_bytes());
    d
}

fn set(sim: &mut Sim, key: Pubkey, account: Account, why: &'static str) {
    sim.apply(Event::SetAccount { key, account: Some(account), why });
}

/// Build the Solend corner of the world.  Returns None (the run continues as a plain market run)
/// if a bank could not be created.
pub fn setup(sim: &mut Sim, ctx: &mut Ctx) -> Option<Integ> {
    let gi = 0usize;
    let g = ctx.world.groups.get(gi)?.clone();
    let mut cfg = WorldCfg::swarm(ctx.rng);
    cfg.allow_t22 = false;
    cfg.allow_fee_mints = false;
    cfg.allow_isolated = false;
    cfg.allow_fixed = false;
    cfg.staked = false;
    cfg.tight_limits = false;
    let n = ctx.rng.range(2, 4) as usize;
    let mut banks = Vec::new();
    for _ in 0..n {
        let info = Genesis::add_bank(sim, ctx.rng, &cfg, ctx.world, g.key, gi, &g.admins).ok()?;
        let slot = sim.clock.slot;
        let (reserve, obligation, market, market_auth) = (ctx.rng.pubkey(), ctx.rng.pubkey(), ctx.rng.pubkey(), ctx.rng.pubkey());
        let (liq_supply, col_mint, col_supply, user_col) = (ctx.rng.pubkey(), ctx.rng.pubkey(), ctx.rng.pubkey(), ctx.rng.pubkey());
        // exchange rates 1:1, 2 liquidity per collateral, 3 collateral per 2 liquidity
        let (avail, col_total) = *ctx.rng.pick(&[(1_000_000_000u64, 1_000_000_000u64), (2_000_000_000, 1_000_000_000), (1_000_000_000, 1_500_000_000)]);
        set(
            sim,
            reserve,
            Account::new(10_000_000, reserve_bytes(slot, &market, &info.keys.mint, info.decimals, &liq_supply, avail, &col_mint, col_total, &col_supply), solend_id()),
            "fixture_solend_reserve",
        );
        set(
            sim,
            obligation,
            Account::new(10_000_000, obligation_bytes(slot, &market, &info.keys.liquidity_auth, &reserve, 10), solend_id()),
            "fixture_solend_obligation",
        );
        let mint_acc = sim.store.get(&info.keys.mint)?.clone();
        set(sim, liq_supply, fixtures::token_account(&info.keys.mint, &mint_acc, &market_auth, avail), "fixture_solend_supply");
        set(sim, col_supply, fixtures::token_account(&info.keys.mint, &mint_acc, &market_auth, 0), "fixture_solend_supply");
        set(sim, solend_id(), Account::program(), "fixture_solend_program");
        // what solend_add_pool + solend_init_obligation leave in the bank
        let mut acc = sim.store.get(&info.keys.bank)?.clone();
        {
            let bank: &mut Bank = bytemuck::from_bytes_mut(&mut acc.data[8..8 + std::mem::size_of::<Bank>()]);
            bank.config.asset_tag = ASSET_TAG_SOLEND;
            bank.integration_acc_1 = reserve;
            bank.integration_acc_2 = obligation;
        }
        set(sim, info.keys.bank, acc, "fixture_solend_bank");
        banks.push(SolendBank {
            keys: info.keys.clone(),
            decimals: info.decimals,
            reserve,
            obligation,
            market,
            market_auth,
            liq_supply,
            col_mint,
            col_supply,
            user_col,
            pyth: ctx.rng.pubkey(),
            swb: ctx.rng.pubkey(),
        });
    }
    // holders: fresh accounts of the first users, pre-filled with positions of the two venues
    // that have no stub
    let mut holders = Vec::new();
    let n_holders = ctx.rng.range(1, 3) as usize;
    for ui in 0..n_holders.min(ctx.world.users.len()) {
        let authority = ctx.world.users[ui].authority;
        let ma = ctx.rng.pubkey();
        let mut i = ix::account_initialize(g.key, ma, authority, ctx.world.payer);
        for m in i.accounts.iter_mut() {
            if m.pubkey == ma {
                m.is_signer = true;
            }
        }
        let out = sim.apply(Event::Tx(Tx::one("integ_setup", i)))?;
        if !out.ok() {
            return None;
        }
        let pre = *ctx.rng.pick(&[0usize, 5, 6, 7, 7, 8, 8, 8]);
        if pre > 0 {
            let mut acc = sim.store.get(&ma)?.clone();
            if acc.owner != marginfi_id() {
                return None;
            }
            let mut keys: Vec<Pubkey> = (0..pre).map(|_| ctx.rng.pubkey()).collect();
            keys.sort_by(|a, b| b.cmp(a));
            {
                let a: &mut MarginfiAccount = bytemuck::from_bytes_mut(&mut acc.data[8..8 + std::mem::size_of::<MarginfiAccount>()]);
                for (slot, k) in keys.iter().enumerate() {
                    let tag = if ctx.rng.chance(1, 2) { ASSET_TAG_KAMINO } else { ASSET_TAG_DRIFT };
                    a.lending_account.balances[slot] = Balance {
                        active: 1,
                        bank_pk: *k,
                        bank_asset_tag: tag,
                        _pad0: [0; 6],
                        asset_shares: fixed::types::I80F48::from_num(1000).into(),
                        liability_shares: fixed::types::I80F48::ZERO.into(),
                        emissions_outstanding: fixed::types::I80F48::ZERO.into(),
                        last_update: sim.clock.unix_timestamp as u64,
                        _padding: [0; 1],
                    };
                }
            }
            set(sim, ma, acc, "fixture_venue_positions");
            sim.stats.fault("integ_account_prefilled_with_venue_positions");
        }
        let mut tas = Vec::new();
        for b in &banks {
            let ta = ctx.rng.pubkey();
            let mint_acc = sim.store.get(&b.keys.mint)?.clone();
            set(sim, ta, fixtures::token_account(&b.keys.mint, &mint_acc, &authority, 1_000_000_000_000), "fixture_token_account");
            tas.push(ta);
        }
        holders.push((authority, ma, tas));
    }
    Some(Integ { banks, holders })
}

fn refresh(sim: &mut Sim, b: &SolendBank) {
    if let Some(mut acc) = sim.store.get(&b.reserve).cloned() {
        let slot = sim.clock.slot;
        acc.data[1..9].copy_from_slice(&slot.to_le_bytes());
        set(sim, b.reserve, acc, "venue_refresh");
    }
}

/// One step: a holder deposits into one of the Solend banks (reserve refreshed in the same slot,
/// or - as a fault - left stale).
pub fn step(sim: &mut Sim, ctx: &mut Ctx, st: &Integ) {
    if st.banks.is_empty() || st.holders.is_empty() {
        return;
    }
    if ctx.rng.chance(1, 6) {
        let dt = ctx.rng.range(1, 600) as i64;
        sim.apply(Event::Advance { dt, dslot: (dt as u64) * 2, depoch: 0 });
    }
    let bi = ctx.rng.below(st.banks.len() as u64) as usize;
    let b = &st.banks[bi];
    let (authority, ma, tas) = ctx.rng.pick(&st.holders).clone();
    if ctx.rng.chance(7, 8) {
        refresh(sim, b);
    } else {
        sim.stats.fault("integ_reserve_left_stale");
    }
    let amount = match ctx.rng.below(6) {
        0 => 1,
        1 => 0,
        _ => ctx.rng.range(2, 1_000_000),
    };
    let signer = if ctx.rng.chance(1, 12) { ctx.world.stranger } else { authority };
    let i = ix::solend_deposit(b, ma, signer, tas[bi], amount);
    let n_before = model::account_of(&sim.store, &ma)
        .map(|a| a.lending_account.balances.iter().filter(|x| x.active != 0).count())
        .unwrap_or(0);
    let out = sim.apply(Event::Tx(Tx::one("integ_user", i)));
    sim.stats.fault("integ_solend_deposit_attempted");
    if let Some(o) = out {
        if o.ok() {
            let n_after = model::account_of(&sim.store, &ma)
                .map(|a| a.lending_account.balances.iter().filter(|x| x.active != 0).count())
                .unwrap_or(0);
            if n_after > n_before {
                sim.stats.fault("integ_position_opened_by_solend_deposit");
            }
        } else if o.code() == Some(6212) {
            sim.stats.fault("integ_ninth_integration_position_refused");
        }
    }
}
