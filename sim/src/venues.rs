//! Third-party venues (Solend, Kamino, Drift): byte fixtures of their accounts, parsers used by
//! the reference model, and STUB implementations of the handful of venue instructions marginfi
//! calls by CPI.  None of the venues' code is in the repository; everything in this file is the
//! harness's.  The stubs use their own integer arithmetic (big integers, rounding against the
//! depositor as the real venues do), never the conversion helpers of the repository's `*-mocks`
//! crates, so that marginfi's own expectation (`liquidity_to_collateral`, ...) is checked against
//! something it did not compute itself.
//!
//! What the stubs do:
//!  * Solend `deposit_reserve_liquidity_and_obligation_collateral` (tag 14) and
//!    `withdraw_obligation_collateral_and_redeem_reserve_collateral` (tag 15);
//!  * Kamino `deposit_reserve_liquidity_and_obligation_collateral_v2` and
//!    `withdraw_obligation_collateral_and_redeem_reserve_collateral_v2`;
//!  * Drift `deposit`, `withdraw`, `update_spot_market_cumulative_interest`.
//! Each moves real tokens with the real SPL-Token processor between the marginfi liquidity vault
//! and the venue's supply account and keeps the venue's books (reserve / obligation / spot market /
//! user) in step.

use crate::rt::{drift_id, kamino_id, solend_id, Account};
use anchor_lang::prelude::Pubkey;
use num_bigint::BigUint;
use num_traits::ToPrimitive;
use anchor_lang::solana_program::{self, account_info::AccountInfo};
use anchor_lang::solana_program::entrypoint::ProgramResult;
use anchor_lang::solana_program::program_error::ProgramError;

// ------------------------------------------------------------------------------------------
// Solend
// ------------------------------------------------------------------------------------------

pub const SOLEND_RESERVE_LEN: usize = 619;
pub const SOLEND_OBLIGATION_LEN: usize = 1300;
const WAD: u128 = 1_000_000_000_000_000_000;

#[derive(Clone, Debug)]
pub struct SolendReserveView {
    pub slot: u64,
    pub decimals: u8,
    pub available: u64,
    pub borrowed_wads: u128,
    pub fees_wads: u128,
    pub collateral_supply: u64,
    pub liquidity_supply: Pubkey,
    pub market: Pubkey,
}

pub fn parse_solend_reserve(d: &[u8]) -> Option<SolendReserveView> {
    if d.len() < SOLEND_RESERVE_LEN || d[0] != 1 {
        return None;
    }
    Some(SolendReserveView {
        slot: u64::from_le_bytes(d[1..9].try_into().ok()?),
        market: Pubkey::new_from_array(d[10..42].try_into().ok()?),
        decimals: d[74],
        liquidity_supply: Pubkey::new_from_array(d[75..107].try_into().ok()?),
        available: u64::from_le_bytes(d[171..179].try_into().ok()?),
        borrowed_wads: u128::from_le_bytes(d[179..195].try_into().ok()?),
        collateral_supply: u64::from_le_bytes(d[259..267].try_into().ok()?),
        fees_wads: u128::from_le_bytes(d[373..389].try_into().ok()?),
    })
}

#[allow(clippy::too_many_arguments)]
pub fn solend_reserve_bytes(
    slot: u64,
    market: &Pubkey,
    mint: &Pubkey,
    decimals: u8,
    liq_supply: &Pubkey,
    avail: u64,
    borrowed_wads: u128,
    col_mint: &Pubkey,
    col_total: u64,
    col_supply: &Pubkey,
) -> Vec<u8> {
    let mut d = vec![0u8; SOLEND_RESERVE_LEN];
    d[0] = 1; // version byte = the "discriminator"
    d[1..9].copy_from_slice(&slot.to_le_bytes());
    d[9] = 0;
    d[10..42].copy_from_slice(market.as_ref());
    d[42..74].copy_from_slice(mint.as_ref());
    d[74] = decimals;
    d[75..107].copy_from_slice(liq_supply.as_ref());
    d[171..179].copy_from_slice(&avail.to_le_bytes());
    d[179..195].copy_from_slice(&borrowed_wads.to_le_bytes());
    d[227..259].copy_from_slice(col_mint.as_ref());
    d[259..267].copy_from_slice(&col_total.to_le_bytes());
    d[267..299].copy_from_slice(col_supply.as_ref());
    d
}

pub fn solend_obligation_bytes(slot: u64, market: &Pubkey, owner: &Pubkey, reserve: &Pubkey, deposited: u64) -> Vec<u8> {
    let mut d = vec![0u8; SOLEND_OBLIGATION_LEN];
    d[0] = 1;
    d[1..9].copy_from_slice(&slot.to_le_bytes());
    d[10..42].copy_from_slice(market.as_ref());
    d[42..74].copy_from_slice(owner.as_ref());
    d[202] = 1; // one deposit
    d[203] = 0; // no borrows
    d[204..236].copy_from_slice(reserve.as_ref());
    d[236..244].copy_from_slice(&deposited.to_le_bytes());
    d
}

pub fn solend_obligation_deposited(d: &[u8]) -> Option<u64> {
    if d.len() < SOLEND_OBLIGATION_LEN {
        return None;
    }
    Some(u64::from_le_bytes(d[236..244].try_into().ok()?))
}

/// floor(a * b / c) in big integers; None when c = 0 or the result does not fit u64
fn muldiv(a: u128, b: u128, c: u128) -> Option<u64> {
    if c == 0 {
        return None;
    }
    (BigUint::from(a) * BigUint::from(b) / BigUint::from(c)).to_u64()
}

fn solend_total_wads(v: &SolendReserveView) -> Option<u128> {
    (v.available as u128).checked_mul(WAD)?.checked_add(v.borrowed_wads)?.checked_sub(v.fees_wads)
}

fn need_signer(ai: &AccountInfo) -> ProgramResult {
    if ai.is_signer {
        Ok(())
    } else {
        Err(ProgramError::MissingRequiredSignature)
    }
}

fn solend_stub(accounts: &[AccountInfo], data: &[u8]) -> ProgramResult {
    if data.len() != 9 {
        return Err(ProgramError::InvalidInstructionData);
    }
    let amount = u64::from_le_bytes(data[1..9].try_into().unwrap());
    match data[0] {
        14 => {
            // deposit: liquidity in, collateral credited to the obligation
            if accounts.len() < 14 {
                return Err(ProgramError::NotEnoughAccountKeys);
            }
            let (source, reserve, supply, market, market_auth, obligation, owner, xfer_auth) =
                (&accounts[0], &accounts[2], &accounts[3], &accounts[5], &accounts[6], &accounts[8], &accounts[9], &accounts[12]);
            if *reserve.owner != solend_id() || *obligation.owner != solend_id() {
                return Err(ProgramError::IllegalOwner);
            }
            need_signer(owner)?;
            need_signer(xfer_auth)?;
            let v = parse_solend_reserve(&reserve.data.borrow()).ok_or(ProgramError::InvalidAccountData)?;
            check_solend_accounts(&v, reserve, supply, market, market_auth, obligation, owner)?;
            if amount == 0 {
                return Err(ProgramError::InvalidArgument);
            }
            let total = solend_total_wads(&v).ok_or(ProgramError::ArithmeticOverflow)?;
            let collateral = if v.collateral_supply == 0 || total == 0 {
                amount // initial rate 1
            } else {
                muldiv(amount as u128 * WAD, v.collateral_supply as u128, total).ok_or(ProgramError::ArithmeticOverflow)?
            };
            if collateral == 0 {
                return Err(ProgramError::InvalidArgument);
            }
            crate::rt::stub_token_transfer(source, supply, xfer_auth, amount)?;
            {
                let mut d = reserve.data.borrow_mut();
                let a2 = v.available.checked_add(amount).ok_or(ProgramError::ArithmeticOverflow)?;
                let s2 = v.collateral_supply.checked_add(collateral).ok_or(ProgramError::ArithmeticOverflow)?;
                d[171..179].copy_from_slice(&a2.to_le_bytes());
                d[259..267].copy_from_slice(&s2.to_le_bytes());
            }
            let mut d = obligation.data.borrow_mut();
            let dep = u64::from_le_bytes(d[236..244].try_into().unwrap());
            let d2 = dep.checked_add(collateral).ok_or(ProgramError::ArithmeticOverflow)?;
            d[236..244].copy_from_slice(&d2.to_le_bytes());
            Ok(())
        }
        15 => {
            // withdraw: collateral out of the obligation, redeemed for liquidity
            if accounts.len() < 13 {
                return Err(ProgramError::NotEnoughAccountKeys);
            }
            let (reserve, obligation, market, market_auth, dest, supply, owner, xfer_auth) =
                (&accounts[2], &accounts[3], &accounts[4], &accounts[5], &accounts[6], &accounts[8], &accounts[9], &accounts[10]);
            if *reserve.owner != solend_id() || *obligation.owner != solend_id() {
                return Err(ProgramError::IllegalOwner);
            }
            need_signer(owner)?;
            need_signer(xfer_auth)?;
            let v = parse_solend_reserve(&reserve.data.borrow()).ok_or(ProgramError::InvalidAccountData)?;
            check_solend_accounts(&v, reserve, supply, market, market_auth, obligation, owner)?;
            let dep = solend_obligation_deposited(&obligation.data.borrow()).ok_or(ProgramError::InvalidAccountData)?;
            if amount == 0 || amount > dep {
                return Err(ProgramError::InsufficientFunds);
            }
            let total = solend_total_wads(&v).ok_or(ProgramError::ArithmeticOverflow)?;
            let liquidity = muldiv(amount as u128, total, (v.collateral_supply as u128).checked_mul(WAD).ok_or(ProgramError::ArithmeticOverflow)?)
                .ok_or(ProgramError::ArithmeticOverflow)?;
            if liquidity > v.available {
                return Err(ProgramError::InsufficientFunds);
            }
            // the supply account's authority is the venue's own PDA
            let mut auth = market_auth.clone();
            auth.is_signer = true;
            crate::rt::stub_token_transfer(supply, dest, &auth, liquidity)?;
            {
                let mut d = reserve.data.borrow_mut();
                d[171..179].copy_from_slice(&(v.available - liquidity).to_le_bytes());
                d[259..267].copy_from_slice(&(v.collateral_supply - amount).to_le_bytes());
            }
            let mut d = obligation.data.borrow_mut();
            d[236..244].copy_from_slice(&(dep - amount).to_le_bytes());
            Ok(())
        }
        _ => Err(ProgramError::InvalidInstructionData),
    }
}

fn check_solend_accounts(
    v: &SolendReserveView,
    reserve: &AccountInfo,
    supply: &AccountInfo,
    market: &AccountInfo,
    market_auth: &AccountInfo,
    obligation: &AccountInfo,
    owner: &AccountInfo,
) -> ProgramResult {
    if v.liquidity_supply != *supply.key || v.market != *market.key {
        return Err(ProgramError::InvalidAccountData);
    }
    let (auth, _) = Pubkey::find_program_address(&[&market.key.to_bytes()[..32]], &solend_id());
    if auth != *market_auth.key {
        return Err(ProgramError::InvalidSeeds);
    }
    let d = obligation.data.borrow();
    if d.len() < SOLEND_OBLIGATION_LEN || d[0] != 1 || d[202] != 1 {
        return Err(ProgramError::InvalidAccountData);
    }
    if d[42..74] != owner.key.to_bytes() || d[204..236] != reserve.key.to_bytes() || d[10..42] != market.key.to_bytes() {
        return Err(ProgramError::InvalidAccountData);
    }
    // the real program refuses a reserve that was not refreshed in this slot
    let now = crate::rt::stub_clock();
    if v.slot < now.slot {
        return Err(ProgramError::Custom(0x5717)); // "ReserveStale"
    }
    Ok(())
}

// ------------------------------------------------------------------------------------------
// Kamino
// ------------------------------------------------------------------------------------------

pub const KAMINO_RESERVE_DISC: [u8; 8] = [43, 242, 204, 202, 26, 247, 59, 127];
pub const KAMINO_OBLIGATION_DISC: [u8; 8] = [168, 206, 141, 106, 88, 76, 172, 167];
pub const KAMINO_RESERVE_LEN: usize = 8 + 8616;
pub const KAMINO_OBLIGATION_LEN: usize = 8 + 3336;

// offsets inside the account data (after the 8-byte discriminator), from the layout of
// kamino-mocks' MinimalReserve (repr(C)); asserted against the struct in `self_test`
const K_SLOT: usize = 8 + 8;
const K_MARKET: usize = 8 + 24;
const K_MINT: usize = 8 + 120;
const K_SUPPLY_VAULT: usize = 8 + 152;
const K_AVAILABLE: usize = 8 + 216;
const K_BORROWED_SF: usize = 8 + 224;
const K_DECIMALS: usize = 8 + 264;
const K_PROTO_FEES_SF: usize = 8 + 336;
const K_REF_FEES_SF: usize = 8 + 352;
const K_PENDING_REF_FEES_SF: usize = 8 + 368;
const K_COL_MINT: usize = 8 + 2552;
const K_COL_SUPPLY: usize = 8 + 2584;
const K_COL_VAULT: usize = 8 + 2592;
// MinimalObligation
const KO_MARKET: usize = 8 + 24;
const KO_OWNER: usize = 8 + 56;
const KO_DEPOSITS: usize = 8 + 88;
const KO_DEPOSIT_LEN: usize = 136;

#[derive(Clone, Debug)]
pub struct KaminoReserveView {
    pub slot: u64,
    pub decimals: u8,
    pub available: u64,
    pub borrowed_sf: u128,
    /// protocol + referrer + pending referrer fees
    pub fees_sf: u128,
    pub collateral_supply: u64,
    pub supply_vault: Pubkey,
    pub market: Pubkey,
}

fn rd_u64(d: &[u8], o: usize) -> u64 {
    u64::from_le_bytes(d[o..o + 8].try_into().unwrap())
}
fn rd_u128(d: &[u8], o: usize) -> u128 {
    u128::from_le_bytes(d[o..o + 16].try_into().unwrap())
}
fn rd_key(d: &[u8], o: usize) -> Pubkey {
    Pubkey::new_from_array(d[o..o + 32].try_into().unwrap())
}

pub fn parse_kamino_reserve(d: &[u8]) -> Option<KaminoReserveView> {
    if d.len() < KAMINO_RESERVE_LEN || d[..8] != KAMINO_RESERVE_DISC {
        return None;
    }
    let dec = rd_u64(d, K_DECIMALS);
    Some(KaminoReserveView {
        slot: rd_u64(d, K_SLOT),
        decimals: if dec > 255 { 255 } else { dec as u8 },
        available: rd_u64(d, K_AVAILABLE),
        borrowed_sf: rd_u128(d, K_BORROWED_SF),
        fees_sf: rd_u128(d, K_PROTO_FEES_SF)
            .saturating_add(rd_u128(d, K_REF_FEES_SF))
            .saturating_add(rd_u128(d, K_PENDING_REF_FEES_SF)),
        collateral_supply: rd_u64(d, K_COL_SUPPLY),
        supply_vault: rd_key(d, K_SUPPLY_VAULT),
        market: rd_key(d, K_MARKET),
    })
}

#[allow(clippy::too_many_arguments)]
pub fn kamino_reserve_bytes(
    slot: u64,
    market: &Pubkey,
    mint: &Pubkey,
    decimals: u8,
    supply_vault: &Pubkey,
    avail: u64,
    borrowed_sf: u128,
    col_mint: &Pubkey,
    col_total: u64,
    col_vault: &Pubkey,
) -> Vec<u8> {
    let mut d = vec![0u8; KAMINO_RESERVE_LEN];
    d[..8].copy_from_slice(&KAMINO_RESERVE_DISC);
    d[K_SLOT..K_SLOT + 8].copy_from_slice(&slot.to_le_bytes());
    d[K_MARKET..K_MARKET + 32].copy_from_slice(market.as_ref());
    d[K_MINT..K_MINT + 32].copy_from_slice(mint.as_ref());
    d[K_SUPPLY_VAULT..K_SUPPLY_VAULT + 32].copy_from_slice(supply_vault.as_ref());
    d[K_AVAILABLE..K_AVAILABLE + 8].copy_from_slice(&avail.to_le_bytes());
    d[K_BORROWED_SF..K_BORROWED_SF + 16].copy_from_slice(&borrowed_sf.to_le_bytes());
    d[K_DECIMALS..K_DECIMALS + 8].copy_from_slice(&(decimals as u64).to_le_bytes());
    d[K_COL_MINT..K_COL_MINT + 32].copy_from_slice(col_mint.as_ref());
    d[K_COL_SUPPLY..K_COL_SUPPLY + 8].copy_from_slice(&col_total.to_le_bytes());
    d[K_COL_VAULT..K_COL_VAULT + 32].copy_from_slice(col_vault.as_ref());
    d
}

pub fn kamino_obligation_bytes(slot: u64, market: &Pubkey, owner: &Pubkey, reserve: &Pubkey, deposited: u64) -> Vec<u8> {
    let mut d = vec![0u8; KAMINO_OBLIGATION_LEN];
    d[..8].copy_from_slice(&KAMINO_OBLIGATION_DISC);
    d[16..24].copy_from_slice(&slot.to_le_bytes());
    d[KO_MARKET..KO_MARKET + 32].copy_from_slice(market.as_ref());
    d[KO_OWNER..KO_OWNER + 32].copy_from_slice(owner.as_ref());
    d[KO_DEPOSITS..KO_DEPOSITS + 32].copy_from_slice(reserve.as_ref());
    d[KO_DEPOSITS + 32..KO_DEPOSITS + 40].copy_from_slice(&deposited.to_le_bytes());
    d
}

pub fn kamino_obligation_deposited(d: &[u8]) -> Option<u64> {
    if d.len() < KAMINO_OBLIGATION_LEN {
        return None;
    }
    Some(rd_u64(d, KO_DEPOSITS + 32))
}

const SF: u128 = 1u128 << 60;

fn kamino_total_sf(v: &KaminoReserveView) -> Option<BigUint> {
    let t = BigUint::from(v.available) * BigUint::from(SF) + BigUint::from(v.borrowed_sf);
    let f = BigUint::from(v.fees_sf);
    if f > t {
        None
    } else {
        Some(t - f)
    }
}

// instruction discriminators below are the ones listed in the repository's idls/*.json

fn kamino_stub(accounts: &[AccountInfo], data: &[u8]) -> ProgramResult {
    if data.len() != 16 {
        return Err(ProgramError::InvalidInstructionData);
    }
    let disc: [u8; 8] = data[..8].try_into().unwrap();
    let amount = u64::from_le_bytes(data[8..16].try_into().unwrap());
    let is_deposit = disc == [216, 224, 191, 27, 204, 151, 102, 175];
    let is_withdraw = disc == [235, 52, 119, 152, 149, 197, 20, 7];
    if !is_deposit && !is_withdraw {
        return Err(ProgramError::InvalidInstructionData);
    }
    // both instructions share the account prefix:
    // 0 owner, 1 obligation, 2 lending_market, 3 lending_market_authority, 4 reserve,
    // 5 liquidity mint, then (deposit) 6 reserve liquidity supply, 7 collateral mint,
    // 8 destination deposit collateral, 9 user source liquidity
    //          (withdraw) 6 reserve source collateral, 7 collateral mint,
    // 8 reserve liquidity supply, 9 user destination liquidity
    if accounts.len() < 14 {
        return Err(ProgramError::NotEnoughAccountKeys);
    }
    let (owner, obligation, market, market_auth, reserve) = (&accounts[0], &accounts[1], &accounts[2], &accounts[3], &accounts[4]);
    let (supply, user_liq) = if is_deposit { (&accounts[6], &accounts[9]) } else { (&accounts[8], &accounts[9]) };
    if *reserve.owner != kamino_id() || *obligation.owner != kamino_id() {
        return Err(ProgramError::IllegalOwner);
    }
    need_signer(owner)?;
    let v = parse_kamino_reserve(&reserve.data.borrow()).ok_or(ProgramError::InvalidAccountData)?;
    if v.supply_vault != *supply.key || v.market != *market.key {
        return Err(ProgramError::InvalidAccountData);
    }
    let (auth, _) = Pubkey::find_program_address(&[b"lma", market.key.as_ref()], &kamino_id());
    if auth != *market_auth.key {
        return Err(ProgramError::InvalidSeeds);
    }
    {
        let d = obligation.data.borrow();
        if d.len() < KAMINO_OBLIGATION_LEN || d[..8] != KAMINO_OBLIGATION_DISC {
            return Err(ProgramError::InvalidAccountData);
        }
        if rd_key(&d, KO_OWNER) != *owner.key || rd_key(&d, KO_MARKET) != *market.key || rd_key(&d, KO_DEPOSITS) != *reserve.key {
            return Err(ProgramError::InvalidAccountData);
        }
    }
    if v.slot < crate::rt::stub_clock().slot {
        return Err(ProgramError::Custom(0x5718)); // the venue's own "reserve stale" (a code marginfi does not use)
    }
    let total = kamino_total_sf(&v).ok_or(ProgramError::ArithmeticOverflow)?;
    let dep = kamino_obligation_deposited(&obligation.data.borrow()).ok_or(ProgramError::InvalidAccountData)?;
    if amount == 0 {
        return Err(ProgramError::InvalidArgument);
    }
    if is_deposit {
        let collateral = if v.collateral_supply == 0 || total == BigUint::from(0u8) {
            amount
        } else {
            (BigUint::from(amount) * BigUint::from(SF) * BigUint::from(v.collateral_supply) / &total)
                .to_u64()
                .ok_or(ProgramError::ArithmeticOverflow)?
        };
        if collateral == 0 {
            return Err(ProgramError::InvalidArgument);
        }
        crate::rt::stub_token_transfer(user_liq, supply, owner, amount)?;
        let mut d = reserve.data.borrow_mut();
        let a2 = v.available.checked_add(amount).ok_or(ProgramError::ArithmeticOverflow)?;
        let s2 = v.collateral_supply.checked_add(collateral).ok_or(ProgramError::ArithmeticOverflow)?;
        d[K_AVAILABLE..K_AVAILABLE + 8].copy_from_slice(&a2.to_le_bytes());
        d[K_COL_SUPPLY..K_COL_SUPPLY + 8].copy_from_slice(&s2.to_le_bytes());
        drop(d);
        let mut o = obligation.data.borrow_mut();
        let d2 = dep.checked_add(collateral).ok_or(ProgramError::ArithmeticOverflow)?;
        o[KO_DEPOSITS + 32..KO_DEPOSITS + 40].copy_from_slice(&d2.to_le_bytes());
    } else {
        if amount > dep || v.collateral_supply == 0 {
            return Err(ProgramError::InsufficientFunds);
        }
        let liquidity = (BigUint::from(amount) * &total / (BigUint::from(v.collateral_supply) * BigUint::from(SF)))
            .to_u64()
            .ok_or(ProgramError::ArithmeticOverflow)?;
        if liquidity > v.available {
            return Err(ProgramError::InsufficientFunds);
        }
        let mut auth = market_auth.clone();
        auth.is_signer = true;
        crate::rt::stub_token_transfer(supply, user_liq, &auth, liquidity)?;
        let mut d = reserve.data.borrow_mut();
        d[K_AVAILABLE..K_AVAILABLE + 8].copy_from_slice(&(v.available - liquidity).to_le_bytes());
        d[K_COL_SUPPLY..K_COL_SUPPLY + 8].copy_from_slice(&(v.collateral_supply - amount).to_le_bytes());
        drop(d);
        let mut o = obligation.data.borrow_mut();
        o[KO_DEPOSITS + 32..KO_DEPOSITS + 40].copy_from_slice(&(dep - amount).to_le_bytes());
    }
    Ok(())
}

// ------------------------------------------------------------------------------------------
// Drift
// ------------------------------------------------------------------------------------------

pub const DRIFT_MARKET_DISC: [u8; 8] = [100, 177, 8, 107, 168, 65, 65, 39];
pub const DRIFT_USER_DISC: [u8; 8] = [159, 117, 95, 227, 239, 151, 58, 236];
pub const DRIFT_USER_STATS_DISC: [u8; 8] = [176, 223, 136, 27, 122, 79, 32, 227];
pub const DRIFT_MARKET_LEN: usize = 8 + 768;
pub const DRIFT_USER_LEN: usize = 8 + 4368;
pub const DRIFT_USER_STATS_LEN: usize = 8 + 240;

const D_PUBKEY: usize = 8;
const D_MINT: usize = 8 + 64;
const D_VAULT: usize = 8 + 96;
const D_DEPOSIT_BALANCE: usize = 8 + 128 + 296;
const D_CUM_DEPOSIT_INTEREST: usize = D_DEPOSIT_BALANCE + 32;
const D_LAST_INTEREST_TS: usize = D_DEPOSIT_BALANCE + 64 + 72;
const D_DECIMALS: usize = D_LAST_INTEREST_TS + 8 + 104;
const D_MARKET_INDEX: usize = D_DECIMALS + 4;
// MinimalUser
const DU_AUTHORITY: usize = 8;
const DU_POSITIONS: usize = 8 + 96;
const DU_POSITION_LEN: usize = 40;

#[derive(Clone, Debug)]
pub struct DriftMarketView {
    pub decimals: u32,
    pub market_index: u16,
    pub cumulative_deposit_interest: u128,
    pub deposit_balance: u128,
    pub last_interest_ts: u64,
    pub vault: Pubkey,
    pub mint: Pubkey,
}

pub fn parse_drift_market(d: &[u8]) -> Option<DriftMarketView> {
    if d.len() < DRIFT_MARKET_LEN || d[..8] != DRIFT_MARKET_DISC {
        return None;
    }
    Some(DriftMarketView {
        decimals: u32::from_le_bytes(d[D_DECIMALS..D_DECIMALS + 4].try_into().ok()?),
        market_index: u16::from_le_bytes(d[D_MARKET_INDEX..D_MARKET_INDEX + 2].try_into().ok()?),
        cumulative_deposit_interest: rd_u128(d, D_CUM_DEPOSIT_INTEREST),
        deposit_balance: rd_u128(d, D_DEPOSIT_BALANCE),
        last_interest_ts: rd_u64(d, D_LAST_INTEREST_TS),
        vault: rd_key(d, D_VAULT),
        mint: rd_key(d, D_MINT),
    })
}

pub fn drift_market_bytes(key: &Pubkey, mint: &Pubkey, vault: &Pubkey, decimals: u8, market_index: u16, cum_interest: u128, deposit_balance: u128, ts: u64) -> Vec<u8> {
    let mut d = vec![0u8; DRIFT_MARKET_LEN];
    d[..8].copy_from_slice(&DRIFT_MARKET_DISC);
    d[D_PUBKEY..D_PUBKEY + 32].copy_from_slice(key.as_ref());
    d[D_MINT..D_MINT + 32].copy_from_slice(mint.as_ref());
    d[D_VAULT..D_VAULT + 32].copy_from_slice(vault.as_ref());
    d[D_DEPOSIT_BALANCE..D_DEPOSIT_BALANCE + 16].copy_from_slice(&deposit_balance.to_le_bytes());
    d[D_CUM_DEPOSIT_INTEREST..D_CUM_DEPOSIT_INTEREST + 16].copy_from_slice(&cum_interest.to_le_bytes());
    // borrow interest index starts at 1.0 too
    d[D_CUM_DEPOSIT_INTEREST + 16..D_CUM_DEPOSIT_INTEREST + 32].copy_from_slice(&10_000_000_000u128.to_le_bytes());
    d[D_LAST_INTEREST_TS..D_LAST_INTEREST_TS + 8].copy_from_slice(&ts.to_le_bytes());
    d[D_DECIMALS..D_DECIMALS + 4].copy_from_slice(&(decimals as u32).to_le_bytes());
    d[D_MARKET_INDEX..D_MARKET_INDEX + 2].copy_from_slice(&market_index.to_le_bytes());
    d
}

pub fn drift_user_bytes(authority: &Pubkey, market_index: u16, scaled_balance: u64) -> Vec<u8> {
    let mut d = vec![0u8; DRIFT_USER_LEN];
    d[..8].copy_from_slice(&DRIFT_USER_DISC);
    d[DU_AUTHORITY..DU_AUTHORITY + 32].copy_from_slice(authority.as_ref());
    let slot = if market_index == 0 { 0 } else { 1 };
    let o = DU_POSITIONS + slot * DU_POSITION_LEN;
    d[o..o + 8].copy_from_slice(&scaled_balance.to_le_bytes());
    d[o + 24..o + 32].copy_from_slice(&(scaled_balance as i64).to_le_bytes());
    d[o + 32..o + 34].copy_from_slice(&market_index.to_le_bytes());
    d
}

pub fn drift_user_stats_bytes(authority: &Pubkey) -> Vec<u8> {
    let mut d = vec![0u8; DRIFT_USER_STATS_LEN];
    d[..8].copy_from_slice(&DRIFT_USER_STATS_DISC);
    d[8..40].copy_from_slice(authority.as_ref());
    d
}

pub fn drift_user_scaled_balance(d: &[u8], market_index: u16) -> Option<u64> {
    if d.len() < DRIFT_USER_LEN {
        return None;
    }
    let slot = if market_index == 0 { 0 } else { 1 };
    Some(rd_u64(d, DU_POSITIONS + slot * DU_POSITION_LEN))
}

fn drift_stub(accounts: &[AccountInfo], data: &[u8]) -> ProgramResult {
    if data.len() < 8 {
        return Err(ProgramError::InvalidInstructionData);
    }
    let disc: [u8; 8] = data[..8].try_into().unwrap();
    if disc == [39, 166, 139, 243, 158, 165, 155, 225] {
        // accounts: state, spot_market, oracle, spot_market_vault
        if accounts.len() < 2 {
            return Err(ProgramError::NotEnoughAccountKeys);
        }
        let market = &accounts[1];
        if *market.owner != drift_id() {
            return Err(ProgramError::IllegalOwner);
        }
        parse_drift_market(&market.data.borrow()).ok_or(ProgramError::InvalidAccountData)?;
        let now = crate::rt::stub_clock().unix_timestamp.max(0) as u64;
        let mut d = market.data.borrow_mut();
        d[D_LAST_INTEREST_TS..D_LAST_INTEREST_TS + 8].copy_from_slice(&now.to_le_bytes());
        return Ok(());
    }
    let is_deposit = disc == [242, 35, 198, 137, 82, 225, 242, 182];
    let is_withdraw = disc == [183, 18, 70, 156, 148, 109, 161, 34];
    if !is_deposit && !is_withdraw {
        return Err(ProgramError::InvalidInstructionData);
    }
    // args: market_index u16, amount u64, reduce_only bool
    if data.len() < 8 + 2 + 8 + 1 {
        return Err(ProgramError::InvalidInstructionData);
    }
    let market_index = u16::from_le_bytes(data[8..10].try_into().unwrap());
    let amount = u64::from_le_bytes(data[10..18].try_into().unwrap());
    // deposit:  0 state, 1 user, 2 user_stats, 3 authority, 4 spot_market_vault, 5 user_token_account, 6 token_program, remaining: [oracle], spot_market, [mint]
    // withdraw: 0 state, 1 user, 2 user_stats, 3 authority, 4 spot_market_vault, 5 drift_signer, 6 user_token_account, 7 token_program, remaining: ...
    let fixed = if is_deposit { 7 } else { 8 };
    if accounts.len() < fixed + 1 {
        return Err(ProgramError::NotEnoughAccountKeys);
    }
    let (user, authority, vault) = (&accounts[1], &accounts[3], &accounts[4]);
    let user_token = if is_deposit { &accounts[5] } else { &accounts[6] };
    need_signer(authority)?;
    if *user.owner != drift_id() {
        return Err(ProgramError::IllegalOwner);
    }
    // the spot market is the remaining account owned by the venue with the right index
    let market = accounts[fixed..]
        .iter()
        .find(|a| *a.owner == drift_id() && parse_drift_market(&a.data.borrow()).map(|m| m.market_index == market_index).unwrap_or(false))
        .ok_or(ProgramError::NotEnoughAccountKeys)?;
    if !market.is_writable {
        return Err(ProgramError::InvalidArgument);
    }
    let v = parse_drift_market(&market.data.borrow()).ok_or(ProgramError::InvalidAccountData)?;
    if v.vault != *vault.key {
        return Err(ProgramError::InvalidAccountData);
    }
    {
        let d = user.data.borrow();
        if d.len() < DRIFT_USER_LEN || d[..8] != DRIFT_USER_DISC || rd_key(&d, DU_AUTHORITY) != *authority.key {
            return Err(ProgramError::InvalidAccountData);
        }
    }
    if (v.last_interest_ts as i64) < crate::rt::stub_clock().unix_timestamp {
        return Err(ProgramError::Custom(0x5719)); // interest not brought up to date
    }
    if v.decimals > 19 || v.cumulative_deposit_interest == 0 || amount == 0 {
        return Err(ProgramError::InvalidArgument);
    }
    let precision = 10u128.pow(19 - v.decimals);
    let slot = if market_index == 0 { 0 } else { 1 };
    let o = DU_POSITIONS + slot * DU_POSITION_LEN;
    let bal = drift_user_scaled_balance(&user.data.borrow(), market_index).ok_or(ProgramError::InvalidAccountData)?;
    if is_deposit {
        // floor: the depositor never gets more balance than the tokens are worth
        let inc = muldiv(amount as u128, precision, v.cumulative_deposit_interest).ok_or(ProgramError::ArithmeticOverflow)?;
        crate::rt::stub_token_transfer(user_token, vault, authority, amount)?;
        let nb = bal.checked_add(inc).ok_or(ProgramError::ArithmeticOverflow)?;
        let mut d = user.data.borrow_mut();
        d[o..o + 8].copy_from_slice(&nb.to_le_bytes());
        d[o + 32..o + 34].copy_from_slice(&market_index.to_le_bytes());
        drop(d);
        let mut m = market.data.borrow_mut();
        let nd = v.deposit_balance.checked_add(inc as u128).ok_or(ProgramError::ArithmeticOverflow)?;
        m[D_DEPOSIT_BALANCE..D_DEPOSIT_BALANCE + 16].copy_from_slice(&nd.to_le_bytes());
    } else {
        // ceil (when non-zero): withdrawing burns at least what a deposit of the same amount mints
        let mut dec = muldiv(amount as u128, precision, v.cumulative_deposit_interest).ok_or(ProgramError::ArithmeticOverflow)?;
        if dec != 0 {
            dec = dec.checked_add(1).ok_or(ProgramError::ArithmeticOverflow)?;
        }
        if dec > bal {
            return Err(ProgramError::InsufficientFunds);
        }
        let signer = &accounts[5];
        let (auth, _) = Pubkey::find_program_address(&[b"drift_signer"], &drift_id());
        if auth != *signer.key {
            return Err(ProgramError::InvalidSeeds);
        }
        let mut s = signer.clone();
        s.is_signer = true;
        crate::rt::stub_token_transfer(vault, user_token, &s, amount)?;
        let mut d = user.data.borrow_mut();
        d[o..o + 8].copy_from_slice(&(bal - dec).to_le_bytes());
        drop(d);
        let mut m = market.data.borrow_mut();
        let nd = v.deposit_balance.saturating_sub(dec as u128);
        m[D_DEPOSIT_BALANCE..D_DEPOSIT_BALANCE + 16].copy_from_slice(&nd.to_le_bytes());
    }
    Ok(())
}

// ------------------------------------------------------------------------------------------

pub fn is_venue(pid: &Pubkey) -> bool {
    *pid == solend_id() || *pid == kamino_id() || *pid == drift_id()
}

pub fn dispatch(pid: &Pubkey, accounts: &[AccountInfo], data: &[u8]) -> ProgramResult {
    if *pid == solend_id() {
        solend_stub(accounts, data)
    } else if *pid == kamino_id() {
        kamino_stub(accounts, data)
    } else if *pid == drift_id() {
        drift_stub(accounts, data)
    } else {
        Err(ProgramError::IncorrectProgramId)
    }
}

pub fn account(data: Vec<u8>, owner: Pubkey) -> Account {
    Account::new(10_000_000, data, owner)
}

/// The byte offsets above are hand-computed from the `repr(C)` layouts of the repository's
/// `*-mocks` structs; this checks every one of them against the structs themselves (run at
/// start-up of every check: a layout change in the repository is a harness error, not a finding).
pub fn self_test() -> Result<(), String> {
    use bytemuck::Zeroable;
    let mk = Pubkey::new_from_array([7u8; 32]);
    let k2 = Pubkey::new_from_array([9u8; 32]);
    let k3 = Pubkey::new_from_array([11u8; 32]);
    let k4 = Pubkey::new_from_array([13u8; 32]);
    let k5 = Pubkey::new_from_array([15u8; 32]);
    // Kamino reserve
    {
        let d = kamino_reserve_bytes(77, &mk, &k2, 6, &k3, 1234, 5u128 << 60, &k4, 999, &k5);
        let r: &kamino_mocks::state::MinimalReserve = bytemuck::from_bytes(&d[8..]);
        if r.slot != 77 || r.lending_market != mk || r.mint_pubkey != k2 || r.mint_decimals != 6 || r.supply_vault != k3 || r.available_amount != 1234
            || r.borrowed_amount_sf != (5u128 << 60).to_le_bytes() || r.collateral_mint_pubkey != k4 || r.mint_total_supply != 999 || r.collateral_supply_vault != k5
        {
            return Err("kamino reserve layout".into());
        }
        let mut z = kamino_mocks::state::MinimalReserve::zeroed();
        z.accumulated_protocol_fees_sf = 3u128.to_le_bytes();
        z.accumulated_referrer_fees_sf = 5u128.to_le_bytes();
        z.pending_referrer_fees_sf = 7u128.to_le_bytes();
        let mut raw = vec![0u8; 8];
        raw[..8].copy_from_slice(&KAMINO_RESERVE_DISC);
        raw.extend_from_slice(bytemuck::bytes_of(&z));
        let v = parse_kamino_reserve(&raw).ok_or("kamino parse")?;
        if v.fees_sf != 15 {
            return Err("kamino fee offsets".into());
        }
    }
    {
        let d = kamino_obligation_bytes(5, &mk, &k2, &k3, 4242);
        let o: &kamino_mocks::state::MinimalObligation = bytemuck::from_bytes(&d[8..]);
        if o.last_update_slot != 5 || o.lending_market != mk || o.owner != k2 || o.deposits[0].deposit_reserve != k3 || o.deposits[0].deposited_amount != 4242 {
            return Err("kamino obligation layout".into());
        }
    }
    {
        let d = solend_reserve_bytes(3, &mk, &k2, 9, &k3, 55, 7 * WAD, &k4, 66, &k5);
        let r: &solend_mocks::state::SolendMinimalReserve = bytemuck::from_bytes(&d[1..]);
        let (slot, avail, sup) = (r.last_update_slot, r.liquidity_available_amount, r.collateral_mint_total_supply);
        if slot != 3 || avail != 55 || sup != 66 || r.liquidity_mint_decimals != 9 || r.liquidity_borrowed_amount_wads != (7 * WAD).to_le_bytes() {
            return Err("solend reserve layout".into());
        }
        let lm = r.lending_market;
        let ls = r.liquidity_supply_pubkey;
        if lm != mk || ls != k3 {
            return Err("solend reserve keys".into());
        }
        let mut z = solend_mocks::state::SolendMinimalReserve::zeroed();
        z.liquidity_accumulated_protocol_fees_wads = 9u128.to_le_bytes();
        let mut raw = vec![1u8];
        raw.extend_from_slice(bytemuck::bytes_of(&z));
        if parse_solend_reserve(&raw).ok_or("solend parse")?.fees_wads != 9 {
            return Err("solend fee offset".into());
        }
    }
    {
        let d = drift_market_bytes(&mk, &k2, &k3, 6, 4, 12_345_678_901, 777, 99);
        let m: &drift_mocks::state::MinimalSpotMarket = bytemuck::from_bytes(&d[8..]);
        if m.pubkey != mk || m.mint != k2 || m.vault != k3 || m.decimals != 6 || m.market_index != 4 || m.last_interest_ts != 99
            || m.cumulative_deposit_interest != 12_345_678_901u128.to_le_bytes() || m.deposit_balance != 777u128.to_le_bytes()
        {
            return Err("drift market layout".into());
        }
        let u = drift_user_bytes(&mk, 4, 31337);
        let x: &drift_mocks::state::MinimalUser = bytemuck::from_bytes(&u[8..]);
        if x.authority != mk || x.spot_positions[1].scaled_balance != 31337 || x.spot_positions[1].market_index != 4 {
            return Err("drift user layout".into());
        }
    }
    Ok(())
}
