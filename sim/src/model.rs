//! Abstraction of on-chain accounts from raw bytes into exact rationals.
//! The type-crate structs are used as a *layout schema only*; no program arithmetic is reused.

use crate::rt::{marginfi_id, Store};
use anchor_lang::prelude::Pubkey;
use fixed::types::I80F48;
use marginfi_type_crate::constants::discriminators;
use marginfi_type_crate::types::{
    Bank, FeeState, LiquidationRecord, MarginfiAccount, MarginfiGroup, WrappedI80F48,
};
use num_bigint::BigInt;
use num_rational::BigRational;
use num_traits::{One, Signed, ToPrimitive, Zero};

pub type Q = BigRational;

pub fn qi(n: i128) -> Q {
    Q::from_integer(BigInt::from(n))
}
pub fn qu(n: u64) -> Q {
    Q::from_integer(BigInt::from(n))
}
pub fn qu128(n: u128) -> Q {
    Q::from_integer(BigInt::from(n))
}
pub fn qr(n: i128, d: i128) -> Q {
    Q::new(BigInt::from(n), BigInt::from(d))
}
/// one ulp of I80F48
pub fn ulp() -> Q {
    Q::new(BigInt::one(), BigInt::one() << 48)
}
pub fn q_i80(x: I80F48) -> Q {
    Q::new(BigInt::from(x.to_bits()), BigInt::one() << 48)
}
pub fn q_w(w: WrappedI80F48) -> Q {
    q_i80(I80F48::from_le_bytes(w.value))
}
pub fn pow10(n: u32) -> Q {
    Q::from_integer(BigInt::from(10u8).pow(n))
}
pub fn q_floor(x: &Q) -> Q {
    x.floor()
}
pub fn q_ceil(x: &Q) -> Q {
    x.ceil()
}
pub fn q_f64(x: &Q) -> f64 {
    x.to_f64().unwrap_or(f64::NAN)
}
pub fn q_max(a: Q, b: Q) -> Q {
    if a >= b {
        a
    } else {
        b
    }
}
pub fn q_min(a: Q, b: Q) -> Q {
    if a <= b {
        a
    } else {
        b
    }
}
pub fn q_abs(a: &Q) -> Q {
    a.abs()
}
pub fn q_str(x: &Q) -> String {
    format!("{:.9e}", q_f64(x))
}
/// truncate toward negative infinity to a multiple of 2^-48 (what `fixed` does on mul/div)
pub fn q_trunc48(x: &Q) -> Q {
    let scaled = x * Q::from_integer(BigInt::one() << 48);
    Q::new(scaled.floor().to_integer(), BigInt::one() << 48)
}
pub fn q_is_zero(x: &Q) -> bool {
    x.is_zero()
}

fn read_pod<T: bytemuck::Pod>(data: &[u8], disc: &[u8; 8]) -> Option<T> {
    let n = std::mem::size_of::<T>();
    if data.len() < 8 + n || data[..8] != disc[..] {
        return None;
    }
    Some(bytemuck::pod_read_unaligned::<T>(&data[8..8 + n]))
}

pub fn load_bank(data: &[u8]) -> Option<Bank> {
    read_pod::<Bank>(data, &discriminators::BANK)
}
pub fn load_account(data: &[u8]) -> Option<MarginfiAccount> {
    read_pod::<MarginfiAccount>(data, &discriminators::ACCOUNT)
}
pub fn load_group(data: &[u8]) -> Option<MarginfiGroup> {
    read_pod::<MarginfiGroup>(data, &discriminators::GROUP)
}
pub fn load_fee_state(data: &[u8]) -> Option<FeeState> {
    read_pod::<FeeState>(data, &discriminators::FEE_STATE)
}
pub fn load_liq_record(data: &[u8]) -> Option<LiquidationRecord> {
    read_pod::<LiquidationRecord>(data, &discriminators::LIQUIDATION_RECORD)
}

pub fn bank_of(store: &Store, k: &Pubkey) -> Option<Bank> {
    let a = store.get(k)?;
    if a.owner != marginfi_id() {
        return None;
    }
    load_bank(&a.data)
}
pub fn account_of(store: &Store, k: &Pubkey) -> Option<MarginfiAccount> {
    let a = store.get(k)?;
    if a.owner != marginfi_id() {
        return None;
    }
    load_account(&a.data)
}
pub fn group_of(store: &Store, k: &Pubkey) -> Option<MarginfiGroup> {
    let a = store.get(k)?;
    if a.owner != marginfi_id() {
        return None;
    }
    load_group(&a.data)
}
pub fn staked_settings_of(store: &Store, group: &Pubkey) -> Option<marginfi_type_crate::types::StakedSettings> {
    let a = store.get(&crate::ix::staked_settings_pda(group))?;
    if a.owner != marginfi_id() {
        return None;
    }
    read_pod::<marginfi_type_crate::types::StakedSettings>(&a.data, &discriminators::STAKED_SETTINGS)
}
pub fn fee_state_of(store: &Store) -> Option<FeeState> {
    let a = store.get(&crate::ix::fee_state_pda())?;
    if a.owner != marginfi_id() {
        return None;
    }
    load_fee_state(&a.data)
}

/// Closed-world enumeration: every account of the given kind owned by the program.
pub fn all_banks(store: &Store) -> Vec<(Pubkey, Bank)> {
    store
        .accounts
        .iter()
        .filter(|(_, a)| a.owner == marginfi_id())
        .filter_map(|(k, a)| load_bank(&a.data).map(|b| (*k, b)))
        .collect()
}
pub fn all_accounts(store: &Store) -> Vec<(Pubkey, MarginfiAccount)> {
    store
        .accounts
        .iter()
        .filter(|(_, a)| a.owner == marginfi_id())
        .filter_map(|(k, a)| load_account(&a.data).map(|b| (*k, b)))
        .collect()
}
pub fn all_groups(store: &Store) -> Vec<(Pubkey, MarginfiGroup)> {
    store
        .accounts
        .iter()
        .filter(|(_, a)| a.owner == marginfi_id())
        .filter_map(|(k, a)| load_group(&a.data).map(|b| (*k, b)))
        .collect()
}

/// Rational view of a bank's accounting fields.
#[derive(Clone, Debug)]
pub struct BankQ {
    pub asv: Q,
    pub lsv: Q,
    pub ta: Q,
    pub tl: Q,
    pub ins: Q,
    pub grp: Q,
    pub prg: Q,
    pub decimals: u8,
}

impl BankQ {
    pub fn of(b: &Bank) -> Self {
        BankQ {
            asv: q_w(b.asset_share_value),
            lsv: q_w(b.liability_share_value),
            ta: q_w(b.total_asset_shares),
            tl: q_w(b.total_liability_shares),
            ins: q_w(b.collected_insurance_fees_outstanding),
            grp: q_w(b.collected_group_fees_outstanding),
            prg: q_w(b.collected_program_fees_outstanding),
            decimals: b.mint_decimals,
        }
    }
    pub fn assets(&self) -> Q {
        &self.ta * &self.asv
    }
    pub fn liabs(&self) -> Q {
        &self.tl * &self.lsv
    }
    pub fn fees(&self) -> Q {
        &self.ins + &self.grp + &self.prg
    }
}

pub fn vault_amount(store: &Store, k: &Pubkey) -> u64 {
    store
        .get(k)
        .map(|a| crate::fixtures::token_amount(&a.data))
        .unwrap_or(0)
}

/// Names of the bank fields that differ between two versions of a bank (field-level byte diff).
pub fn bank_changed_fields(a: &Bank, b: &Bank) -> std::collections::BTreeSet<&'static str> {
    use bytemuck::bytes_of;
    let mut s = std::collections::BTreeSet::new();
    macro_rules! cmp {
        ($name:expr, $x:expr, $y:expr) => {
            if bytes_of(&$x) != bytes_of(&$y) {
                s.insert($name);
            }
        };
    }
    cmp!("mint", a.mint, b.mint);
    cmp!("mint_decimals", a.mint_decimals, b.mint_decimals);
    cmp!("group", a.group, b.group);
    cmp!("asset_share_value", a.asset_share_value, b.asset_share_value);
    cmp!("liability_share_value", a.liability_share_value, b.liability_share_value);
    cmp!("liquidity_vault", a.liquidity_vault, b.liquidity_vault);
    cmp!("insurance_vault", a.insurance_vault, b.insurance_vault);
    cmp!("fee_vault", a.fee_vault, b.fee_vault);
    if (a.liquidity_vault_bump, a.liquidity_vault_authority_bump, a.insurance_vault_bump, a.insurance_vault_authority_bump, a.fee_vault_bump, a.fee_vault_authority_bump)
        != (b.liquidity_vault_bump, b.liquidity_vault_authority_bump, b.insurance_vault_bump, b.insurance_vault_authority_bump, b.fee_vault_bump, b.fee_vault_authority_bump)
    {
        s.insert("vault_bumps");
    }
    cmp!("collected_insurance_fees_outstanding", a.collected_insurance_fees_outstanding, b.collected_insurance_fees_outstanding);
    cmp!("collected_group_fees_outstanding", a.collected_group_fees_outstanding, b.collected_group_fees_outstanding);
    cmp!("collected_program_fees_outstanding", a.collected_program_fees_outstanding, b.collected_program_fees_outstanding);
    cmp!("total_liability_shares", a.total_liability_shares, b.total_liability_shares);
    cmp!("total_asset_shares", a.total_asset_shares, b.total_asset_shares);
    cmp!("last_update", a.last_update, b.last_update);
    let (ca, cb) = (&a.config, &b.config);
    cmp!("config.asset_weight_init", ca.asset_weight_init, cb.asset_weight_init);
    cmp!("config.asset_weight_maint", ca.asset_weight_maint, cb.asset_weight_maint);
    cmp!("config.liability_weight_init", ca.liability_weight_init, cb.liability_weight_init);
    cmp!("config.liability_weight_maint", ca.liability_weight_maint, cb.liability_weight_maint);
    cmp!("config.deposit_limit", ca.deposit_limit, cb.deposit_limit);
    cmp!("config.interest_rate_config", ca.interest_rate_config, cb.interest_rate_config);
    if ca.operational_state != cb.operational_state {
        s.insert("config.operational_state");
    }
    if ca.oracle_setup != cb.oracle_setup {
        s.insert("config.oracle_setup");
    }
    cmp!("config.oracle_keys", ca.oracle_keys, cb.oracle_keys);
    cmp!("config.borrow_limit", ca.borrow_limit, cb.borrow_limit);
    if ca.risk_tier != cb.risk_tier {
        s.insert("config.risk_tier");
    }
    cmp!("config.asset_tag", ca.asset_tag, cb.asset_tag);
    cmp!("config.config_flags", ca.config_flags, cb.config_flags);
    cmp!("config.total_asset_value_init_limit", ca.total_asset_value_init_limit, cb.total_asset_value_init_limit);
    cmp!("config.oracle_max_age", ca.oracle_max_age, cb.oracle_max_age);
    cmp!("config.oracle_max_confidence", ca.oracle_max_confidence, cb.oracle_max_confidence);
    cmp!("config.fixed_price", ca.fixed_price, cb.fixed_price);
    if (ca._pad0, ca._pad1, ca._padding0, ca._padding1) != (cb._pad0, cb._pad1, cb._padding0, cb._padding1) {
        s.insert("config.padding");
    }
    let fd = a.flags ^ b.flags;
    if fd & 0b11 != 0 {
        s.insert("flags.emissions");
    }
    if fd & (1 << 2) != 0 {
        s.insert("flags.permissionless_bad_debt");
    }
    if fd & (1 << 3) != 0 {
        s.insert("flags.freeze_settings");
    }
    if fd & (1 << 4) != 0 {
        s.insert("flags.close_enabled");
    }
    if fd & (1 << 5) != 0 {
        s.insert("flags.tokenless_allowed");
    }
    if fd & (1 << 6) != 0 {
        s.insert("flags.tokenless_complete");
    }
    if fd & !0x7f != 0 {
        s.insert("flags.other");
    }
    cmp!("emissions_rate", a.emissions_rate, b.emissions_rate);
    cmp!("emissions_remaining", a.emissions_remaining, b.emissions_remaining);
    cmp!("emissions_mint", a.emissions_mint, b.emissions_mint);
    cmp!("emode", a.emode, b.emode);
    cmp!("fees_destination_account", a.fees_destination_account, b.fees_destination_account);
    cmp!("cache", a.cache, b.cache);
    cmp!("lending_position_count", a.lending_position_count, b.lending_position_count);
    cmp!("borrowing_position_count", a.borrowing_position_count, b.borrowing_position_count);
    cmp!("integration_acc_1", a.integration_acc_1, b.integration_acc_1);
    cmp!("integration_acc_2", a.integration_acc_2, b.integration_acc_2);
    cmp!("integration_acc_3", a.integration_acc_3, b.integration_acc_3);
    if (a._pad0, a._pad1, a._pad2, a._padding_0, a._padding_1) != (b._pad0, b._pad1, b._pad2, b._padding_0, b._padding_1) {
        s.insert("padding");
    }
    s
}
