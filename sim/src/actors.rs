//! Actors: small state machines that look at the current store and propose events.
//! Everything is drawn from the run PRNG.

use crate::fixtures;
use crate::ix;
use crate::model::{self, BankQ};
use crate::rt::{Account, Ix, Store, Tx};
use crate::sim::{Event, Rng, Sim};
use crate::world::{self, risk_metas, BankInfo, OracleKind, World};
use anchor_lang::prelude::{AccountMeta, Pubkey};
use fixed::types::I80F48;
use marginfi_type_crate::types::{Balance, Bank, BankConfigOpt, MarginfiAccount};
use num_traits::ToPrimitive;

#[derive(Clone, Debug)]
pub struct Swarm {
    pub w_deposit: u32,
    pub w_withdraw: u32,
    pub w_borrow: u32,
    pub w_repay: u32,
    pub w_close_balance: u32,
    pub w_accrue: u32,
    pub w_collect: u32,
    pub w_oracle: u32,
    pub w_time: u32,
    pub w_liquidate: u32,
    pub w_bankruptcy: u32,
    pub w_crash: u32,
    pub w_pulse: u32,
    pub w_borrow_boundary: u32,
    pub w_withdraw_boundary: u32,
    pub w_deposit_boundary: u32,
    pub w_hunter: u32,
    pub w_flashloan: u32,
    pub w_receivership: u32,
    pub w_deleverage: u32,
    pub w_make_unhealthy: u32,
    pub w_oracle_fault: u32,
    pub w_account_close: u32,
    pub fault_oracle_skip: u32, // per-mille: publisher skips a bank
    pub fault_cpi_fail: u32,    // per-mille: inject CPI failure in a tx
    pub fault_delay: u32,       // per-mille: deliver later
    pub fault_dup: u32,         // per-mille: deliver twice
    pub fault_drop: u32,        // per-mille
    pub long_jumps: bool,
}

impl Swarm {
    pub fn ora(rng: &mut Rng, faults: bool) -> Self {
        let mut s = Self::mkt(rng, faults);
        s.w_oracle_fault = rng.range(10, 30) as u32;
        s.w_borrow_boundary = rng.range(6, 16) as u32;
        s.w_hunter = rng.range(6, 16) as u32;
        s.w_oracle = rng.range(2, 8) as u32;
        s.w_receivership = rng.range(3, 10) as u32;
        s
    }
    pub fn tx(rng: &mut Rng, faults: bool) -> Self {
        let mut s = Self::mkt(rng, faults);
        s.w_flashloan = rng.range(5, 25) as u32;
        s.w_receivership = rng.range(5, 25) as u32;
        s.w_deleverage = rng.range(2, 15) as u32;
        s.w_crash = rng.range(3, 10) as u32;
        s.w_borrow_boundary = rng.range(6, 16) as u32;
        s.w_make_unhealthy = rng.range(4, 12) as u32;
        s
    }
    pub fn mkt(rng: &mut Rng, faults: bool) -> Self {
        let mut r = |lo: u64, hi: u64| rng.range(lo, hi) as u32;
        Swarm {
            w_deposit: r(5, 30),
            w_withdraw: r(5, 25),
            w_borrow: r(5, 30),
            w_repay: r(3, 20),
            w_close_balance: r(0, 4),
            w_accrue: r(0, 8),
            w_collect: r(0, 8),
            w_oracle: r(4, 12),
            w_time: r(5, 25),
            w_liquidate: r(0, 15),
            w_bankruptcy: r(0, 8),
            w_crash: r(0, 5),
            w_pulse: r(0, 3),
            w_borrow_boundary: r(2, 12),
            w_withdraw_boundary: r(1, 8),
            w_deposit_boundary: r(0, 6),
            w_hunter: r(2, 15),
            w_flashloan: 0,
            w_receivership: 0,
            w_deleverage: 0,
            w_make_unhealthy: r(0, 3),
            w_oracle_fault: 0,
            w_account_close: r(0, 3),
            fault_oracle_skip: if faults { r(0, 150) } else { 0 },
            fault_cpi_fail: if faults { r(0, 40) } else { 0 },
            fault_delay: if faults { r(0, 100) } else { 0 },
            fault_dup: if faults { r(0, 40) } else { 0 },
            fault_drop: if faults { r(0, 30) } else { 0 },
            long_jumps: rng.chance(1, 3),
        }
    }
}

pub struct Ctx<'a> {
    pub world: &'a mut World,
    pub rng: &'a mut Rng,
    pub swarm: &'a Swarm,
    pub adm: &'a crate::actors_adm::AdmSwarm,
    /// per-mille share of scheduler steps given to the administrator / pause actors
    pub adm_share: u32,
    pub mempool: Vec<(u32, Tx)>,
}

// ---------- helpers -------------------------------------------------------------------------

pub fn token_balance(store: &Store, ta: &Pubkey) -> u64 {
    store
        .get(ta)
        .map(|a| fixtures::token_amount(&a.data))
        .unwrap_or(0)
}

pub fn active_balances(a: &MarginfiAccount) -> Vec<Balance> {
    a.lending_account
        .balances
        .iter()
        .filter(|b| b.active != 0)
        .cloned()
        .collect()
}

pub fn i80(wr: marginfi_type_crate::types::WrappedI80F48) -> I80F48 {
    I80F48::from_le_bytes(wr.value)
}

pub fn asset_amount_u64(bank: &Bank, bal: &Balance) -> u64 {
    let q = model::q_w(bal.asset_shares) * model::q_w(bank.asset_share_value);
    q.floor().to_integer().to_u64().unwrap_or(u64::MAX)
}
pub fn liab_amount_u64(bank: &Bank, bal: &Balance) -> u64 {
    let q = model::q_w(bal.liability_shares) * model::q_w(bank.liability_share_value);
    q.ceil().to_integer().to_u64().unwrap_or(u64::MAX)
}

/// choose an amount relative to `cap`: tiny, fraction, nearly all, all, slightly more
pub fn pick_amount(rng: &mut Rng, cap: u64) -> u64 {
    if cap == 0 {
        return rng.range(1, 1000);
    }
    // rarely the two ends of the domain: nothing at all, and everything a u64 can say
    match rng.below(60) {
        0 => return 0,
        1 => return u64::MAX,
        _ => {}
    }
    match rng.below(10) {
        0 => 1,
        1 => rng.range(1, 100.min(cap)),
        2 => cap,
        3 => cap.saturating_add(rng.range(1, 3)),
        4 => cap.saturating_sub(rng.range(0, 2)).max(1),
        5 => cap / 2 + 1,
        _ => rng.range(1, cap),
    }
}

fn user_and_account(ctx: &mut Ctx) -> Option<(usize, usize, Pubkey)> {
    if ctx.world.users.is_empty() {
        return None;
    }
    let ui = ctx.rng.below(ctx.world.users.len() as u64) as usize;
    let u = &ctx.world.users[ui];
    if u.maccounts.is_empty() {
        return None;
    }
    let (gi, ma) = *ctx.rng.pick(&u.maccounts);
    Some((ui, gi, ma))
}

fn pick_bank<'a>(ctx: &mut Ctx<'a>, gi: usize) -> Option<BankInfo> {
    let g = &ctx.world.groups[gi];
    if g.banks.is_empty() {
        return None;
    }
    Some(ctx.rng.pick(&g.banks).clone())
}

// ---------- user actions ----------------------------------------------------------------------

pub fn act_deposit(sim: &Sim, ctx: &mut Ctx) -> Option<Tx> {
    let (ui, gi, ma) = user_and_account(ctx)?;
    let b = pick_bank(ctx, gi)?;
    let u = &ctx.world.users[ui];
    let ta = *u.tokens.get(&b.keys.mint)?;
    let bal = token_balance(&sim.store, &ta);
    let amount = pick_amount(ctx.rng, bal / 4 + 1);
    let up = match ctx.rng.below(4) {
        0 => Some(true),
        1 => Some(false),
        _ => None,
    };
    Some(Tx::one(
        "user",
        ix::deposit(&b.keys, ma, u.authority, ta, amount, up),
    ))
}

pub fn act_withdraw(sim: &Sim, ctx: &mut Ctx) -> Option<Tx> {
    let (ui, _gi, ma) = user_and_account(ctx)?;
    let acc = model::account_of(&sim.store, &ma)?;
    let bals: Vec<Balance> = active_balances(&acc)
        .into_iter()
        .filter(|b| i80(b.asset_shares) > I80F48::ZERO)
        .collect();
    if bals.is_empty() {
        return None;
    }
    let bal = ctx.rng.pick(&bals).clone();
    let b = ctx.world.bank_info(&bal.bank_pk)?.clone();
    let bank = model::bank_of(&sim.store, &bal.bank_pk)?;
    let u = &ctx.world.users[ui];
    let ta = *u.tokens.get(&b.keys.mint)?;
    let cap = asset_amount_u64(&bank, &bal);
    let all = ctx.rng.chance(1, 4);
    let amount = if all { 0 } else { pick_amount(ctx.rng, cap) };
    let rm = risk_metas(
        &sim.store,
        &ma,
        None,
        if all { Some(bal.bank_pk) } else { None },
    );
    Some(Tx::one(
        "user",
        ix::withdraw(
            &b.keys,
            ma,
            u.authority,
            ta,
            amount,
            if all { Some(true) } else { None },
            rm,
        ),
    ))
}

pub fn act_borrow(sim: &Sim, ctx: &mut Ctx) -> Option<Tx> {
    let (ui, gi, ma) = user_and_account(ctx)?;
    let b = pick_bank(ctx, gi)?;
    let u = &ctx.world.users[ui];
    let ta = *u.tokens.get(&b.keys.mint)?;
    let vault = token_balance(&sim.store, &b.keys.liquidity_vault);
    let amount = pick_amount(ctx.rng, vault / 3 + 1);
    let rm = risk_metas(&sim.store, &ma, Some(b.keys.bank), None);
    Some(Tx::one(
        "user",
        ix::borrow(&b.keys, ma, u.authority, ta, amount, rm),
    ))
}

pub fn act_repay(sim: &Sim, ctx: &mut Ctx) -> Option<Tx> {
    let (ui, _gi, ma) = user_and_account(ctx)?;
    let acc = model::account_of(&sim.store, &ma)?;
    let bals: Vec<Balance> = active_balances(&acc)
        .into_iter()
        .filter(|b| i80(b.liability_shares) > I80F48::ZERO)
        .collect();
    if bals.is_empty() {
        return None;
    }
    let bal = ctx.rng.pick(&bals).clone();
    let b = ctx.world.bank_info(&bal.bank_pk)?.clone();
    let bank = model::bank_of(&sim.store, &bal.bank_pk)?;
    let u = &ctx.world.users[ui];
    let ta = *u.tokens.get(&b.keys.mint)?;
    let cap = liab_amount_u64(&bank, &bal);
    let all = ctx.rng.chance(1, 3);
    let amount = if all { 0 } else { pick_amount(ctx.rng, cap) };
    Some(Tx::one(
        "user",
        ix::repay(
            &b.keys,
            ma,
            u.authority,
            ta,
            amount,
            if all { Some(true) } else { None },
        ),
    ))
}

pub fn act_close_balance(sim: &Sim, ctx: &mut Ctx) -> Option<Tx> {
    let (ui, gi, ma) = user_and_account(ctx)?;
    let acc = model::account_of(&sim.store, &ma)?;
    let bals = active_balances(&acc);
    if bals.is_empty() {
        return None;
    }
    let bal = ctx.rng.pick(&bals).clone();
    let u = &ctx.world.users[ui];
    Some(Tx::one(
        "user",
        ix::close_balance(ctx.world.groups[gi].key, ma, u.authority, bal.bank_pk),
    ))
}

/// Close an account that looks closable (every slot below one share), preferring ones that still
/// hold sub-unit remainders; the closed account is replaced by a fresh one so the user keeps playing.
pub fn act_account_close(sim: &mut Sim, ctx: &mut Ctx) -> Option<Tx> {
    let mut cands: Vec<(usize, usize, Pubkey, bool)> = Vec::new();
    for (ui, u) in ctx.world.users.iter().enumerate() {
        for (gi, ma) in &u.maccounts {
            let Some(a) = model::account_of(&sim.store, ma) else { continue };
            let bals = active_balances(&a);
            let closable = bals.iter().all(|b| i80(b.asset_shares) < I80F48::ONE && i80(b.liability_shares) < I80F48::ONE);
            let has_remainder = bals.iter().any(|b| i80(b.asset_shares) > I80F48::ZERO || i80(b.liability_shares) > I80F48::ZERO);
            // also tried (and expected to be refused): accounts that still owe something but
            // hold no deposits any more (e.g. fully seized by liquidation), and any account at all
            let debt_only = !bals.is_empty()
                && bals.iter().all(|b| i80(b.asset_shares) < I80F48::ONE)
                && bals.iter().any(|b| i80(b.liability_shares) >= I80F48::ONE);
            if closable || debt_only {
                cands.push((ui, *gi, *ma, has_remainder || debt_only));
            }
        }
    }
    if cands.is_empty() {
        return None;
    }
    let with_rem: Vec<_> = cands.iter().filter(|c| c.3).cloned().collect();
    let (ui, gi, ma, _) = if !with_rem.is_empty() && ctx.rng.chance(4, 5) { *ctx.rng.pick(&with_rem) } else { *ctx.rng.pick(&cands) };
    let u = ctx.world.users[ui].clone();
    let out = sim.apply(Event::Tx(Tx::one("user", ix::account_close(ma, u.authority, ctx.world.payer))));
    if out.map(|o| o.ok()).unwrap_or(false) {
        ctx.world.users[ui].maccounts.retain(|(_, m)| *m != ma);
        let new = ctx.rng.pubkey();
        let g = ctx.world.groups[gi].key;
        let mut t = ix::account_initialize(g, new, u.authority, ctx.world.payer);
        for m in t.accounts.iter_mut() {
            if m.pubkey == new {
                m.is_signer = true;
            }
        }
        let o2 = sim.apply(Event::Tx(Tx::one("user", t)));
        if o2.map(|o| o.ok()).unwrap_or(false) {
            ctx.world.users[ui].maccounts.push((gi, new));
        }
    }
    None
}

pub fn act_accrue(_sim: &Sim, ctx: &mut Ctx) -> Option<Tx> {
    let gi = ctx.rng.below(ctx.world.groups.len() as u64) as usize;
    let b = pick_bank(ctx, gi)?;
    // hostile crank: the permissionless accrual is handed ANOTHER group's account (its fee
    // settings - program fees on or off, cached fee values - must never be applied to this bank)
    if ctx.world.groups.len() > 1 && ctx.rng.chance(1, 5) {
        let other = ctx.world.groups[(gi + 1) % ctx.world.groups.len()].key;
        return Some(Tx::one("crank", ix::accrue_interest(other, b.keys.bank)));
    }
    Some(Tx::one(
        "crank",
        ix::accrue_interest(b.keys.group, b.keys.bank),
    ))
}

pub fn act_collect(_sim: &Sim, ctx: &mut Ctx) -> Option<Tx> {
    let gi = ctx.rng.below(ctx.world.groups.len() as u64) as usize;
    let b = pick_bank(ctx, gi)?;
    let mut ata = ctx.world.fee_ata(&b);
    if !ctx.world.retired_fee_wallets.is_empty() && ctx.rng.chance(1, 2) {
        // a stale client still pays the wallet the fee state named before its rotation
        let w = *ctx.rng.pick(&ctx.world.retired_fee_wallets);
        ata = ix::ata(&w, &b.keys.mint, &b.keys.token_program);
    }
    Some(Tx::one("crank", ix::collect_bank_fees(&b.keys, ata)))
}

pub fn act_pulse(sim: &Sim, ctx: &mut Ctx) -> Option<Tx> {
    let (_ui, _gi, ma) = user_and_account(ctx)?;
    let rm = risk_metas(&sim.store, &ma, None, None);
    Some(Tx::one("crank", ix::pulse_health(ma, rm)))
}

/// Oracle publisher: refresh every oracle to `now` with a random walk; may skip banks (fault).
pub fn act_oracle_publish(sim: &Sim, ctx: &mut Ctx, stats_faults: &mut Vec<&'static str>) -> Vec<Event> {
    let mut evs = Vec::new();
    let now = sim.clock.unix_timestamp;
    let skip = ctx.swarm.fault_oracle_skip;
    for g in ctx.world.groups.iter_mut() {
        for b in g.banks.iter_mut() {
            if b.oracle == OracleKind::Fixed {
                continue;
            }
            if skip > 0 && ctx.rng.below(1000) < skip as u64 {
                stats_faults.push("oracle_update_skipped");
                continue;
            }
            // random walk +-2%
            let bps = ctx.rng.irange(-200, 200);
            let np = (b.price_micro as i128 * (10_000 + bps as i128) / 10_000).max(1) as u64;
            b.price_micro = np;
            let conf_bps = *ctx.rng.pick(&[0u64, 1, 10, 50, 150]);
            let acc = match b.oracle {
                OracleKind::Pyth => {
                    let skew = ctx.rng.irange(-100, 100);
                    fixtures::pyth_account(
                        b.feed_id,
                        &world::pyth_from_micro(np, b.expo, conf_bps, skew, now),
                    )
                }
                OracleKind::Swb => {
                    fixtures::swb_account(&world::swb_from_micro(np, conf_bps, now))
                }
                OracleKind::Fixed => unreachable!(),
            };
            evs.push(Event::SetAccount {
                key: b.oracle_key,
                account: Some(acc),
                why: "oracle_publish",
            });
            if let Some((_, sol_pool)) = b.staked {
                // epoch rewards (or a rare slash) move the pool's exchange rate
                if ctx.rng.chance(1, 4) {
                    if let Some(st) = sim.store.get(&sol_pool).and_then(|a| fixtures::parse_stake(&a.data)) {
                        let bps = if ctx.rng.chance(1, 10) { ctx.rng.irange(-500, 0) } else { ctx.rng.irange(0, 50) };
                        let ns = (st as i128 * (10_000 + bps as i128) / 10_000).clamp(1_000_000_001, u64::MAX as i128 / 2) as u64;
                        evs.push(Event::SetAccount {
                            key: sol_pool,
                            account: Some(fixtures::stake_account(ns, 2)),
                            why: "oracle_stake_reward",
                        });
                    }
                }
            }
        }
    }
    evs
}

/// Price crash (or spike) on one bank.
pub fn act_price_jump(sim: &Sim, ctx: &mut Ctx) -> Vec<Event> {
    let now = sim.clock.unix_timestamp;
    let gi = ctx.rng.below(ctx.world.groups.len() as u64) as usize;
    let n = ctx.world.groups[gi].banks.len();
    if n == 0 {
        return vec![];
    }
    let bi = ctx.rng.below(n as u64) as usize;
    let factor_pct = *ctx.rng.pick(&[1u64, 10, 30, 50, 70, 90, 150, 300, 1000]);
    let b = &mut ctx.world.groups[gi].banks[bi];
    let np = ((b.price_micro as u128 * factor_pct as u128 / 100).max(1)).min(1u128 << 50) as u64;
    b.price_micro = np;
    match b.oracle {
        OracleKind::Pyth => vec![Event::SetAccount {
            key: b.oracle_key,
            account: Some(fixtures::pyth_account(
                b.feed_id,
                &world::pyth_from_micro(np, b.expo, 10, 0, now),
            )),
            why: "oracle_jump",
        }],
        OracleKind::Swb => vec![Event::SetAccount {
            key: b.oracle_key,
            account: Some(fixtures::swb_account(&world::swb_from_micro(np, 10, now))),
            why: "oracle_jump",
        }],
        OracleKind::Fixed => {
            let g = &ctx.world.groups[gi];
            let b = &g.banks[bi];
            vec![Event::Tx(Tx::one(
                "admin",
                ix::set_fixed_oracle_price(
                    g.key,
                    g.admins.admin,
                    b.keys.bank,
                    world::w(np as f64 / 1e6),
                ),
            ))]
        }
    }
}

pub fn act_time(sim: &Sim, ctx: &mut Ctx) -> Event {
    let _ = sim;
    let dt: i64 = match ctx.rng.below(if ctx.swarm.long_jumps { 12 } else { 9 }) {
        0 => 0,
        1 | 2 => 1,
        3 | 4 => ctx.rng.irange(2, 60),
        5 | 6 => ctx.rng.irange(60, 3600),
        7 => ctx.rng.irange(3600, 86_400),
        8 => ctx.rng.irange(86_400, 30 * 86_400),
        9 => ctx.rng.irange(30 * 86_400, 365 * 86_400),
        _ => ctx.rng.irange(365 * 86_400, 5 * 365 * 86_400),
    };
    let dslot = if dt == 0 {
        ctx.rng.range(0, 2)
    } else {
        (dt as u64) * 2 + ctx.rng.range(0, 1)
    };
    let depoch = if ctx.rng.chance(1, 25) { 1 } else { 0 };
    Event::Advance { dt, dslot, depoch }
}

/// Classic liquidation attempt: pick a (liquidatee, asset bank, liability bank) and a liquidator.
pub fn act_liquidate(sim: &Sim, ctx: &mut Ctx) -> Option<Tx> {
    liquidate_tx(sim, ctx, None)
}

/// Drill: a liquidatee holding a SECOND collateral position in a bank that the group admin has
/// made reduce-only and whose feed has gone stale; the liquidator seizes the other collateral.
/// Reduce-only collateral counts in full for liquidation purposes, and an unusable price of any
/// of the account's banks makes the assessment impossible - the attempt must be refused.
pub fn drill_liquidate_with_stale_reduce_only_collateral(sim: &mut Sim, ctx: &mut Ctx) -> Option<Tx> {
    let mut cands: Vec<(usize, usize, Pubkey, Vec<Pubkey>)> = Vec::new();
    for (ui, u) in ctx.world.users.iter().enumerate() {
        for (gi, ma) in &u.maccounts {
            let Some(a) = model::account_of(&sim.store, ma) else { continue };
            let bals = active_balances(&a);
            let assets: Vec<Pubkey> = bals.iter().filter(|b| i80(b.asset_shares) >= I80F48::ONE && ctx.world.bank_info(&b.bank_pk).map(|i| i.oracle != OracleKind::Fixed && i.staked.is_none()).unwrap_or(false)).map(|b| b.bank_pk).collect();
            let has_l = bals.iter().any(|b| i80(b.liability_shares) >= I80F48::ONE);
            if has_l && assets.len() >= 2 {
                cands.push((ui, *gi, *ma, assets));
            }
        }
    }
    if cands.is_empty() {
        return None;
    }
    let (lui, gi, liquidatee, assets) = ctx.rng.pick(&cands).clone();
    let third = *ctx.rng.pick(&assets);
    let g = ctx.world.groups[gi].clone();
    let opt = BankConfigOpt { operational_state: Some(marginfi_type_crate::types::BankOperationalState::ReduceOnly), ..Default::default() };
    let o = sim.apply(Event::Tx(Tx::one("group_admin", ix::configure_bank(g.key, g.admins.admin, third, opt))))?;
    if !o.ok() {
        return None;
    }
    // its feed stops: last published long before the bank's maximum age
    let info = ctx.world.bank_info(&third)?.clone();
    let bank = model::bank_of(&sim.store, &third)?;
    let old = sim.clock.unix_timestamp - crate::refm::max_age_of(&bank) - 5;
    let ev = match info.oracle {
        OracleKind::Pyth => Event::SetAccount { key: info.oracle_key, account: Some(fixtures::pyth_account(info.feed_id, &world::pyth_from_micro(info.price_micro, info.expo, 10, 0, old))), why: "oracle_stale" },
        OracleKind::Swb => Event::SetAccount { key: info.oracle_key, account: Some(fixtures::swb_account(&world::swb_from_micro(info.price_micro, 10, old))), why: "oracle_stale" },
        OracleKind::Fixed => return None,
    };
    sim.apply(ev);
    sim.stats.fault("drill_liquidation_with_stale_reduce_only_collateral");
    liquidate_tx(sim, ctx, Some((lui, gi, liquidatee, third)))
}

fn liquidate_tx(sim: &Sim, ctx: &mut Ctx, force: Option<(usize, usize, Pubkey, Pubkey)>) -> Option<Tx> {
    let accounts: Vec<(usize, usize, Pubkey)> = ctx
        .world
        .users
        .iter()
        .enumerate()
        .flat_map(|(ui, u)| u.maccounts.iter().map(move |(gi, ma)| (ui, *gi, *ma)))
        .collect();
    // prefer accounts with liabilities
    let mut cands: Vec<(usize, usize, Pubkey)> = Vec::new();
    for (ui, gi, ma) in &accounts {
        if let Some(a) = model::account_of(&sim.store, ma) {
            let bals = active_balances(&a);
            let has_l = bals.iter().any(|b| i80(b.liability_shares) >= I80F48::ONE);
            let has_a = bals.iter().any(|b| i80(b.asset_shares) >= I80F48::ONE);
            if has_l && has_a {
                cands.push((*ui, *gi, *ma));
            }
        }
    }
    if cands.is_empty() {
        return None;
    }
    let (lui, gi, liquidatee) = match force {
        Some((a, b, c, _)) => (a, b, c),
        None => *ctx.rng.pick(&cands),
    };
    let avoid = force.map(|f| f.3);
    let la = model::account_of(&sim.store, &liquidatee)?;
    let bals = active_balances(&la);
    let assets: Vec<&Balance> = bals
        .iter()
        .filter(|b| i80(b.asset_shares) >= I80F48::ONE && Some(b.bank_pk) != avoid)
        .collect();
    if assets.is_empty() {
        return None;
    }
    let liabs: Vec<&Balance> = bals
        .iter()
        .filter(|b| i80(b.liability_shares) >= I80F48::ONE)
        .collect();
    let ab = (*ctx.rng.pick(&assets)).clone();
    let lb = (*ctx.rng.pick(&liabs)).clone();
    let asset_info = ctx.world.bank_info(&ab.bank_pk)?.clone();
    let liab_info = ctx.world.bank_info(&lb.bank_pk)?.clone();
    // liquidator: another user in the same group
    let liqs: Vec<(usize, Pubkey)> = accounts
        .iter()
        .filter(|(ui, g, _)| *g == gi && *ui != lui)
        .map(|(ui, _, ma)| (*ui, *ma))
        .collect();
    if liqs.is_empty() {
        return None;
    }
    let (qui, liquidator) = *ctx.rng.pick(&liqs);
    let asset_bank = model::bank_of(&sim.store, &ab.bank_pk)?;
    let liab_bank = model::bank_of(&sim.store, &lb.bank_pk)?;
    let cap = asset_amount_u64(&asset_bank, &ab);
    let amount = pick_amount(ctx.rng, cap);
    let mut rem: Vec<AccountMeta> = Vec::new();
    rem.extend(world::oracle_metas_for(&asset_bank));
    rem.extend(world::oracle_metas_for(&liab_bank));
    // liquidator observation accounts: will hold asset bank + liab bank afterwards
    let mut lq = risk_metas(&sim.store, &liquidator, Some(ab.bank_pk), None);
    // include liab bank too
    let lq_acc = model::account_of(&sim.store, &liquidator)?;
    if !active_balances(&lq_acc).iter().any(|b| b.bank_pk == lb.bank_pk) {
        lq = {
            // rebuild with both includes
            let mut tmp_store_banks: Vec<Pubkey> = active_balances(&lq_acc)
                .iter()
                .map(|b| b.bank_pk)
                .collect();
            for k in [ab.bank_pk, lb.bank_pk] {
                if !tmp_store_banks.contains(&k) {
                    tmp_store_banks.push(k);
                }
            }
            tmp_store_banks.sort_by(|a, b| b.cmp(a));
            let mut metas = Vec::new();
            for bk in tmp_store_banks {
                metas.push(ix::ro(bk));
                if let Some(bank) = model::bank_of(&sim.store, &bk) {
                    metas.extend(world::oracle_metas_for(&bank));
                }
            }
            metas
        };
    }
    let le = risk_metas(&sim.store, &liquidatee, None, None);
    let n_lq = lq.len() as u8;
    let n_le = le.len() as u8;
    rem.extend(lq);
    rem.extend(le);
    let authority = ctx.world.users[qui].authority;
    Some(Tx::one(
        "liquidator",
        ix::liquidate(
            ctx.world.groups[gi].key,
            &asset_info.keys,
            &liab_info.keys,
            liquidator,
            authority,
            liquidatee,
            amount,
            n_le,
            n_lq,
            rem,
        ),
    ))
}

pub fn act_bankruptcy(sim: &Sim, ctx: &mut Ctx) -> Option<Tx> {
    let (_ui, gi, ma) = user_and_account(ctx)?;
    let acc = model::account_of(&sim.store, &ma)?;
    let liabs: Vec<Balance> = active_balances(&acc)
        .into_iter()
        .filter(|b| i80(b.liability_shares) > I80F48::ZERO)
        .collect();
    if liabs.is_empty() {
        return None;
    }
    let lb = ctx.rng.pick(&liabs).clone();
    let b = ctx.world.bank_info(&lb.bank_pk)?.clone();
    let g = &ctx.world.groups[gi];
    let signer = match ctx.rng.below(4) {
        0 => g.admins.admin,
        1 => g.admins.risk,
        2 => ctx.world.stranger,
        _ => g.admins.risk,
    };
    let rm = risk_metas(&sim.store, &ma, None, None);
    Some(Tx::one(
        "bankruptcy",
        ix::handle_bankruptcy(&b.keys, signer, ma, rm),
    ))
}

/// Client-side batching: two to four ordinary operations of one user on one account in a single
/// transaction (atomic: a failing later instruction rolls the earlier ones back).  Risk-account
/// lists cover every bank the batch touches.
pub fn act_batch(sim: &mut Sim, ctx: &mut Ctx) -> Option<Tx> {
    let (ui, gi, ma) = user_and_account(ctx)?;
    let u = ctx.world.users[ui].clone();
    let n = ctx.rng.range(2, 4) as usize;
    let mut banks: Vec<BankInfo> = Vec::new();
    for _ in 0..n {
        banks.push(pick_bank(ctx, gi)?);
    }
    // the account list every risk-checked instruction of the batch gets: current positions plus
    // every bank the batch may open a position in
    let mut keys: Vec<Pubkey> = model::account_of(&sim.store, &ma)
        .map(|a| active_balances(&a).iter().map(|b| b.bank_pk).collect())
        .unwrap_or_default();
    for b in &banks {
        if !keys.contains(&b.keys.bank) {
            keys.push(b.keys.bank);
        }
    }
    keys.sort_by(|a, b| b.cmp(a));
    let mut rm = Vec::new();
    for k in &keys {
        rm.push(ix::ro(*k));
        if let Some(bank) = model::bank_of(&sim.store, k) {
            rm.extend(world::oracle_metas_for(&bank));
        }
    }
    sim.stats.fault("client_batched_transaction");
    let mut ixs = Vec::new();
    for b in banks {
        let ta = *u.tokens.get(&b.keys.mint)?;
        let vault = token_balance(&sim.store, &b.keys.liquidity_vault);
        let bal = token_balance(&sim.store, &ta);
        ixs.push(match ctx.rng.below(5) {
            0 | 1 => ix::deposit(&b.keys, ma, u.authority, ta, pick_amount(ctx.rng, bal / 8 + 1), None),
            2 => ix::borrow(&b.keys, ma, u.authority, ta, pick_amount(ctx.rng, vault / 8 + 1), rm.clone()),
            3 => ix::withdraw(&b.keys, ma, u.authority, ta, pick_amount(ctx.rng, vault / 8 + 1), if ctx.rng.chance(1, 4) { Some(true) } else { None }, rm.clone()),
            _ => ix::repay(&b.keys, ma, u.authority, ta, pick_amount(ctx.rng, bal / 8 + 1), if ctx.rng.chance(1, 4) { Some(true) } else { None }),
        });
    }
    Some(Tx::many("user", ixs))
}

/// Slot-exhaustion drill (worlds with more banks than an account has slots): one user opens a
/// small position in every bank of the group they do not hold yet; the 17th must be refused and
/// must not disturb the 16 that exist.
pub fn drill_fill_slots(sim: &mut Sim, ctx: &mut Ctx) -> Option<Tx> {
    let (ui, gi, ma) = user_and_account(ctx)?;
    if ctx.world.groups[gi].banks.len() < 12 {
        return None;
    }
    let u = ctx.world.users[ui].clone();
    let banks: Vec<BankInfo> = ctx.world.groups[gi].banks.clone();
    sim.stats.fault("drill_fill_all_position_slots");
    let mut last = None;
    for b in banks.iter() {
        let held = model::account_of(&sim.store, &ma)
            .map(|a| active_balances(&a).iter().any(|x| x.bank_pk == b.keys.bank))
            .unwrap_or(false);
        if held {
            continue;
        }
        let Some(ta) = u.tokens.get(&b.keys.mint).cloned() else { continue };
        let bal = token_balance(&sim.store, &ta);
        if bal < 4 {
            continue;
        }
        let tx = Tx::one("user", ix::deposit(&b.keys, ma, u.authority, ta, ctx.rng.range(2, (bal / 64).max(3)), None));
        if let Some(prev) = last.replace(tx) {
            sim.apply(Event::Tx(prev));
            if sim.violated() && sim.stop_on_violation {
                return None;
            }
        }
    }
    let n = model::account_of(&sim.store, &ma).map(|a| active_balances(&a).len()).unwrap_or(0);
    if n >= 16 {
        sim.stats.fault("drill_all_16_slots_in_use");
    }
    last
}

/// Bankruptcy drill: an indebted account's collateral becomes worthless (oracle crash on every
/// bank it holds deposits in) until Ref calls it bankrupt; the debt bank's insurance vault is
/// donated to one of {nothing, a third of the debt, exactly the debt, twice the debt}; sometimes
/// the bank is opened to permissionless settlement and a stranger settles.
pub fn drill_bankruptcy(sim: &mut Sim, ctx: &mut Ctx) -> Option<Tx> {
    let mut cands: Vec<(usize, Pubkey)> = Vec::new();
    for u in ctx.world.users.iter() {
        for (gi, ma) in &u.maccounts {
            if let Some(acc) = model::account_of(&sim.store, ma) {
                if active_balances(&acc).iter().any(|b| i80(b.liability_shares) >= I80F48::ONE) {
                    cands.push((*gi, *ma));
                }
            }
        }
    }
    if cands.is_empty() {
        return None;
    }
    let (gi, ma) = *ctx.rng.pick(&cands);
    let g = ctx.world.groups[gi].clone();
    let acc = model::account_of(&sim.store, &ma)?;
    let now = sim.clock.unix_timestamp;
    sim.stats.fault("drill_bankruptcy");
    for bal in active_balances(&acc).iter().filter(|b| i80(b.asset_shares) >= I80F48::ONE) {
        let Some(info) = ctx.world.bank_info_mut(&bal.bank_pk) else { continue };
        info.price_micro = 1;
        let ev = match info.oracle {
            OracleKind::Pyth => Event::SetAccount {
                key: info.oracle_key,
                account: Some(fixtures::pyth_account(info.feed_id, &world::pyth_from_micro(1, info.expo.max(-8), 0, 0, now))),
                why: "oracle_jump",
            },
            OracleKind::Swb => Event::SetAccount {
                key: info.oracle_key,
                account: Some(fixtures::swb_account(&world::swb_from_micro(1, 0, now))),
                why: "oracle_jump",
            },
            OracleKind::Fixed => Event::Tx(Tx::one(
                "admin",
                ix::set_fixed_oracle_price(g.key, g.admins.admin, bal.bank_pk, world::w(0.000001)),
            )),
        };
        sim.apply(ev);
        if sim.violated() && sim.stop_on_violation {
            return None;
        }
    }
    let acc = model::account_of(&sim.store, &ma)?;
    let bankrupt = crate::refm::health(&sim.store, &acc, crate::refm::Req::Equity, sim.clock)
        .map(|e| e.assets < e.liabs && e.assets < model::qr(1, 10))
        .unwrap_or(false);
    if !bankrupt {
        return None;
    }
    sim.stats.fault("drill_bankruptcy_account_bankrupt");
    let liabs: Vec<Balance> = active_balances(&acc).into_iter().filter(|b| i80(b.liability_shares) >= I80F48::ONE).collect();
    let lb = ctx.rng.pick(&liabs).clone();
    let b = ctx.world.bank_info(&lb.bank_pk)?.clone();
    let bank = model::bank_of(&sim.store, &lb.bank_pk)?;
    let debt = liab_amount_u64(&bank, &lb);
    // a Token-2022 mint with a scheduled fee change: settle exactly IN the epoch the newer fee
    // becomes active (or one before / after) - the cover must be sized with the fee the token
    // program really withholds in that epoch
    if let fixtures::TokenKind::T22Fee { newer_epoch, .. } = b.kind {
        let cur = sim.clock.epoch;
        if newer_epoch > cur && ctx.rng.chance(3, 4) {
            let target = match ctx.rng.below(4) {
                0 => newer_epoch - 1,
                1 => newer_epoch + 1,
                _ => newer_epoch,
            };
            if target > cur {
                sim.apply(Event::Advance { dt: 0, dslot: 1, depoch: target - cur });
                sim.stats.fault("drill_bankruptcy_in_fee_activation_epoch");
            }
        }
    }
    // insurance donation (anyone can send tokens to the vault)
    if let Some(mut v) = sim.store.get(&b.keys.insurance_vault).cloned() {
        let amt = match ctx.rng.below(5) {
            0 => 0,
            1 => debt / 3,
            2 => debt,
            3 => debt.saturating_add(1),
            _ => debt.saturating_mul(2),
        };
        fixtures::set_token_amount(&mut v.data, amt);
        sim.apply(Event::SetAccount { key: b.keys.insurance_vault, account: Some(v), why: "fixture_insurance_donation" });
    }
    let mut signer = match ctx.rng.below(4) {
        0 => g.admins.admin,
        _ => g.admins.risk,
    };
    if ctx.rng.chance(1, 3) {
        let opt = marginfi_type_crate::types::BankConfigOpt {
            permissionless_bad_debt_settlement: Some(true),
            ..Default::default()
        };
        sim.apply(Event::Tx(Tx::one("group_admin", ix::configure_bank(g.key, g.admins.admin, lb.bank_pk, opt))));
        signer = ctx.world.stranger;
    }
    let rm = risk_metas(&sim.store, &ma, None, None);
    let mut hb = ix::handle_bankruptcy(&b.keys, signer, ma, rm);
    if signer != ctx.world.stranger && ctx.rng.chance(1, 6) {
        sim.stats.fault("bankruptcy_entitled_key_named_but_not_signing");
        for m in hb.accounts.iter_mut() {
            if m.pubkey == signer {
                m.is_signer = false;
            }
        }
    }
    Some(Tx::one("bankruptcy", hb))
}

// ---------- reference-guided actors (boundary search on forks) -----------------------------------

/// Largest x in [1, hi] for which `build(x)` succeeds on a fork (assuming monotone acceptance).
/// Every probe is a ForkTx event, so monitors judge it and replays reproduce it.
pub fn bisect_boundary(
    sim: &mut Sim,
    build: &dyn Fn(u64) -> Tx,
    hi: u64,
    max_probes: usize,
) -> Option<u64> {
    let mut probes = 0usize;
    let mut try_x = |sim: &mut Sim, x: u64| -> bool {
        let out = sim.apply(Event::ForkTx(build(x)));
        out.map(|o| o.ok()).unwrap_or(false)
    };
    if hi == 0 {
        return None;
    }
    if !try_x(sim, 1) {
        return None;
    }
    if sim.violated() && sim.stop_on_violation {
        return None;
    }
    if try_x(sim, hi) {
        return Some(hi);
    }
    let (mut lo, mut hi) = (1u64, hi);
    while hi - lo > 1 && probes < max_probes {
        if sim.violated() && sim.stop_on_violation {
            return None;
        }
        let mid = lo + (hi - lo) / 2;
        probes += 1;
        if try_x(sim, mid) {
            lo = mid;
        } else {
            hi = mid;
        }
    }
    if hi - lo > 1 {
        return None;
    }
    Some(lo)
}

fn q_to_u64_sat(q: &model::Q) -> u64 {
    if *q <= model::qi(0) {
        return 0;
    }
    q.floor().to_integer().to_u64().unwrap_or(u64::MAX)
}

/// Ref estimate of the largest borrow (native units of `bank`) the account's initial health allows.
pub fn est_max_borrow(sim: &Sim, ma: &Pubkey, bank_pk: &Pubkey) -> Option<u64> {
    let acc = model::account_of(&sim.store, ma)?;
    let bank = model::bank_of(&sim.store, bank_pk)?;
    let h = crate::refm::health(&sim.store, &acc, crate::refm::Req::Init, sim.clock).ok()?;
    let view = crate::refm::read_oracle(&sim.store, &bank, sim.clock).ok()?;
    let (_, high, _) = crate::refm::biased(&view, &bank, true).ok()?;
    let cost = model::q_w(bank.config.liability_weight_init) * high / model::pow10(bank.mint_decimals as u32);
    if cost <= model::qi(0) {
        return None;
    }
    Some(q_to_u64_sat(&(h.net() / cost)))
}

/// Boundary borrow: find the exact accept/reject threshold on forks, probe its neighbourhood,
/// then execute one neighbour on the main timeline.
pub fn act_borrow_boundary(sim: &mut Sim, ctx: &mut Ctx) -> Option<Tx> {
    let (ui, gi, ma) = user_and_account(ctx)?;
    borrow_boundary_for(sim, ctx, ui, gi, ma)
}

pub fn borrow_boundary_for(sim: &mut Sim, ctx: &mut Ctx, ui: usize, gi: usize, ma: Pubkey) -> Option<Tx> {
    borrow_boundary_in(sim, ctx, ui, gi, ma, None)
}

pub fn borrow_boundary_in(sim: &mut Sim, ctx: &mut Ctx, ui: usize, gi: usize, ma: Pubkey, from: Option<Pubkey>) -> Option<Tx> {
    let b = match from {
        Some(k) => ctx.world.bank_info(&k)?.clone(),
        None => pick_bank(ctx, gi)?,
    };
    let u = ctx.world.users[ui].clone();
    let ta = *u.tokens.get(&b.keys.mint)?;
    let est = est_max_borrow(sim, &ma, &b.keys.bank)?;
    let vault = token_balance(&sim.store, &b.keys.liquidity_vault);
    let rm = risk_metas(&sim.store, &ma, Some(b.keys.bank), None);
    let keys = b.keys.clone();
    let auth = u.authority;
    let build = move |x: u64| Tx::one("boundary_user", ix::borrow(&keys, ma, auth, ta, x, rm.clone()));
    if est == 0 {
        // Ref allows nothing: the smallest and a sizeable borrow must both be refused (forks)
        sim.stats.fault("boundary_borrow_with_no_capacity");
        for x in [1u64, (vault / 3).max(2)] {
            sim.apply(Event::ForkTx(build(x)));
            if sim.violated() && sim.stop_on_violation {
                return None;
            }
        }
        return None;
    }
    let hi = est.saturating_mul(2).saturating_add(16).min(vault.max(1));
    let t = bisect_boundary(sim, &build, hi, 70)?;
    sim.stats.fault("boundary_search_borrow");
    for d in [-2i64, -1, 0, 1, 2] {
        let x = (t as i64 + d).max(1) as u64;
        sim.apply(Event::ForkTx(build(x)));
        if sim.violated() && sim.stop_on_violation {
            return None;
        }
    }
    let d = ctx.rng.irange(-2, 1);
    Some(build((t as i64 + d).max(1) as u64))
}

pub fn act_withdraw_boundary(sim: &mut Sim, ctx: &mut Ctx) -> Option<Tx> {
    let (ui, _gi, ma) = user_and_account(ctx)?;
    let acc = model::account_of(&sim.store, &ma)?;
    let bals = active_balances(&acc);
    if !bals.iter().any(|b| i80(b.liability_shares) >= I80F48::ONE) {
        return None;
    }
    let assets: Vec<Balance> = bals
        .into_iter()
        .filter(|b| i80(b.asset_shares) >= I80F48::ONE)
        .collect();
    if assets.is_empty() {
        return None;
    }
    let bal = ctx.rng.pick(&assets).clone();
    let b = ctx.world.bank_info(&bal.bank_pk)?.clone();
    let bank = model::bank_of(&sim.store, &bal.bank_pk)?;
    let u = ctx.world.users[ui].clone();
    let ta = *u.tokens.get(&b.keys.mint)?;
    let cap = asset_amount_u64(&bank, &bal);
    if cap < 2 {
        return None;
    }
    let rm = risk_metas(&sim.store, &ma, None, None);
    let keys = b.keys.clone();
    let auth = u.authority;
    let build = move |x: u64| {
        Tx::one(
            "boundary_user",
            ix::withdraw(&keys, ma, auth, ta, x, None, rm.clone()),
        )
    };
    let t = bisect_boundary(sim, &build, cap, 70)?;
    sim.stats.fault("boundary_search_withdraw");
    for d in [-2i64, -1, 0, 1, 2] {
        let x = (t as i64 + d).max(1) as u64;
        sim.apply(Event::ForkTx(build(x)));
        if sim.violated() && sim.stop_on_violation {
            return None;
        }
    }
    let d = ctx.rng.irange(-2, 1);
    Some(build((t as i64 + d).max(1) as u64))
}

/// Deposit around the remaining capacity (C17): capacity -1/0/+1, plain and "up to limit".
pub fn act_deposit_boundary(sim: &mut Sim, ctx: &mut Ctx) -> Option<Tx> {
    let (ui, gi, ma) = user_and_account(ctx)?;
    let b = pick_bank(ctx, gi)?;
    let bank = model::bank_of(&sim.store, &b.keys.bank)?;
    if bank.config.deposit_limit == u64::MAX {
        return None;
    }
    let u = ctx.world.users[ui].clone();
    let ta = *u.tokens.get(&b.keys.mint)?;
    let bq = BankQ::of(&bank);
    let room = model::qu(bank.config.deposit_limit) - bq.assets();
    let room = q_to_u64_sat(&room);
    let keys = b.keys.clone();
    let auth = u.authority;
    sim.stats.fault("boundary_deposit_capacity");
    for d in [-2i64, -1, 0, 1, 2] {
        let x = (room as i64 + d).max(1) as u64;
        for up in [None, Some(true)] {
            sim.apply(Event::ForkTx(Tx::one(
                "boundary_user",
                ix::deposit(&keys, ma, auth, ta, x, up),
            )));
            if sim.violated() && sim.stop_on_violation {
                return None;
            }
        }
    }
    let d = ctx.rng.irange(-2, 2);
    let up = if ctx.rng.chance(1, 2) { Some(true) } else { None };
    let x = if up.is_some() && ctx.rng.chance(1, 2) {
        u64::MAX / 2
    } else {
        (room as i64 + d).max(1) as u64
    };
    Some(Tx::one("boundary_user", ix::deposit(&keys, ma, auth, ta, x, up)))
}

/// Hunter: look for accounts Ref considers liquidatable / bankrupt and act on them.
pub fn act_hunter(sim: &mut Sim, ctx: &mut Ctx) -> Option<Tx> {
    let mut targets: Vec<(usize, usize, Pubkey, bool)> = Vec::new();
    for (ui, u) in ctx.world.users.iter().enumerate() {
        for (gi, ma) in u.maccounts.iter() {
            let Some(acc) = model::account_of(&sim.store, ma) else { continue };
            if let Ok(h) = crate::refm::health(&sim.store, &acc, crate::refm::Req::Maint, sim.clock) {
                if h.n_liabs > 0 && h.net() < model::qi(0) {
                    let bankrupt = crate::refm::health(&sim.store, &acc, crate::refm::Req::Equity, sim.clock)
                        .map(|e| e.assets < e.liabs && e.assets < model::qr(1, 10))
                        .unwrap_or(false);
                    targets.push((ui, *gi, *ma, bankrupt));
                }
            }
        }
    }
    if targets.is_empty() {
        return None;
    }
    let (lui, gi, liquidatee, bankrupt) = *ctx.rng.pick(&targets);
    if bankrupt && ctx.rng.chance(2, 3) {
        return bankruptcy_tx(sim, ctx, gi, liquidatee);
    }
    liquidation_boundary(sim, ctx, lui, gi, liquidatee)
}

fn bankruptcy_tx(sim: &Sim, ctx: &mut Ctx, gi: usize, ma: Pubkey) -> Option<Tx> {
    let acc = model::account_of(&sim.store, &ma)?;
    let liabs: Vec<Balance> = active_balances(&acc)
        .into_iter()
        .filter(|b| i80(b.liability_shares) > I80F48::ZERO)
        .collect();
    if liabs.is_empty() {
        return None;
    }
    let lb = ctx.rng.pick(&liabs).clone();
    let b = ctx.world.bank_info(&lb.bank_pk)?.clone();
    let g = &ctx.world.groups[gi];
    let signer = match ctx.rng.below(5) {
        0 => g.admins.admin,
        1 => ctx.world.stranger,
        _ => g.admins.risk,
    };
    let rm = risk_metas(&sim.store, &ma, None, None);
    let mut hb = ix::handle_bankruptcy(&b.keys, signer, ma, rm);
    if signer != ctx.world.stranger && ctx.rng.chance(1, 6) {
        // the entitled key is named but does not sign (somebody else pays for the transaction)
        for m in hb.accounts.iter_mut() {
            if m.pubkey == signer {
                m.is_signer = false;
            }
        }
    }
    Some(Tx::one("bankruptcy", hb))
}

fn liquidation_boundary(
    sim: &mut Sim,
    ctx: &mut Ctx,
    lui: usize,
    gi: usize,
    liquidatee: Pubkey,
) -> Option<Tx> {
    let la = model::account_of(&sim.store, &liquidatee)?;
    let bals = active_balances(&la);
    let assets: Vec<Balance> = bals
        .iter()
        .filter(|b| i80(b.asset_shares) >= I80F48::ONE)
        .cloned()
        .collect();
    let liabs: Vec<Balance> = bals
        .iter()
        .filter(|b| i80(b.liability_shares) >= I80F48::ONE)
        .cloned()
        .collect();
    if assets.is_empty() || liabs.is_empty() {
        return None;
    }
    let ab = ctx.rng.pick(&assets).clone();
    let lb = ctx.rng.pick(&liabs).clone();
    let asset_info = ctx.world.bank_info(&ab.bank_pk)?.clone();
    let liab_info = ctx.world.bank_info(&lb.bank_pk)?.clone();
    let liqs: Vec<(usize, Pubkey)> = ctx
        .world
        .users
        .iter()
        .enumerate()
        .filter(|(ui, _)| *ui != lui)
        .flat_map(|(ui, u)| {
            u.maccounts
                .iter()
                .filter(|(g, _)| *g == gi)
                .map(move |(_, ma)| (ui, *ma))
        })
        .collect();
    if liqs.is_empty() {
        return None;
    }
    let (qui, liquidator) = *ctx.rng.pick(&liqs);
    let asset_bank = model::bank_of(&sim.store, &ab.bank_pk)?;
    let liab_bank = model::bank_of(&sim.store, &lb.bank_pk)?;
    let cap = asset_amount_u64(&asset_bank, &ab);
    let mut rem: Vec<AccountMeta> = Vec::new();
    rem.extend(world::oracle_metas_for(&asset_bank));
    rem.extend(world::oracle_metas_for(&liab_bank));
    let lq_acc = model::account_of(&sim.store, &liquidator)?;
    let mut lq_banks: Vec<Pubkey> = active_balances(&lq_acc).iter().map(|b| b.bank_pk).collect();
    for k in [ab.bank_pk, lb.bank_pk] {
        if !lq_banks.contains(&k) {
            lq_banks.push(k);
        }
    }
    lq_banks.sort_by(|a, b| b.cmp(a));
    let mut lq = Vec::new();
    for bk in lq_banks {
        lq.push(ix::ro(bk));
        if let Some(bank) = model::bank_of(&sim.store, &bk) {
            lq.extend(world::oracle_metas_for(&bank));
        }
    }
    let le = risk_metas(&sim.store, &liquidatee, None, None);
    let n_lq = lq.len() as u8;
    let n_le = le.len() as u8;
    rem.extend(lq);
    rem.extend(le);
    let authority = ctx.world.users[qui].authority;
    let group = ctx.world.groups[gi].key;
    let ak = asset_info.keys.clone();
    let lk = liab_info.keys.clone();
    let build = move |x: u64| {
        Tx::one(
            "liquidator",
            ix::liquidate(group, &ak, &lk, liquidator, authority, liquidatee, x, n_le, n_lq, rem.clone()),
        )
    };
    let hi = cap.saturating_add(2);
    match bisect_boundary(sim, &build, hi, 70) {
        Some(t) => {
            sim.stats.fault("boundary_search_liquidation");
            for d in [-1i64, 0, 1, 2] {
                let x = (t as i64 + d).max(1) as u64;
                sim.apply(Event::ForkTx(build(x)));
                if sim.violated() && sim.stop_on_violation {
                    return None;
                }
            }
            let x = match ctx.rng.below(4) {
                0 => t,
                1 => (t / 2).max(1),
                2 => t.saturating_add(1),
                _ => ctx.rng.range(1, t.max(1)),
            };
            Some(build(x))
        }
        None => Some(build(pick_amount(ctx.rng, cap))),
    }
}

/// Directed drill: a borrower owes two banks that BOTH carry an e-mode entry for its collateral's
/// tag, with different weights (the lower-maintenance one has init < maint), so the account's
/// e-mode is the per-field minimum of the two.  The collateral price is then put 3 % above the
/// maintenance boundary of the independent model, and somebody tries a classic liquidation: the
/// account is healthy and must be refused.  (Which of the two banks is merged later depends on the
/// random bank keys.)
fn drill_emode_two_debt_liquidation(sim: &mut Sim, ctx: &mut Ctx) -> Option<Tx> {
    use marginfi_type_crate::types::{EmodeEntry, RiskTier};
    let gi = 0usize;
    let g = ctx.world.groups.get(gi)?.clone();
    let plain: Vec<BankInfo> = g.banks.iter().filter(|b| b.staked.is_none()).cloned().collect();
    let mut x: Option<(BankInfo, f64)> = None;
    let mut debts: Vec<BankInfo> = Vec::new();
    for b in &plain {
        let bank = model::bank_of(&sim.store, &b.keys.bank)?;
        if bank.config.risk_tier != RiskTier::Collateral || bank.config.asset_tag != 0 {
            continue;
        }
        let ai: f64 = i80(bank.config.asset_weight_init).to_num();
        let am: f64 = i80(bank.config.asset_weight_maint).to_num();
        if x.is_none() && b.oracle != OracleKind::Fixed && ai > 0.2 && am <= 0.75 {
            x = Some((b.clone(), am));
        } else if debts.len() < 2 {
            debts.push(b.clone());
        }
    }
    let (x, am) = x?;
    if debts.len() < 2 || ctx.world.users.len() < 3 {
        return None;
    }
    let (b1, b2) = (debts[0].clone(), debts[1].clone());
    let lender = ctx.world.users[0].clone();
    let borrower = ctx.world.users[1].clone();
    let liquidator = ctx.world.users[2].clone();
    let acc_of = |u: &world::UserInfo| u.maccounts.iter().find(|(g2, _)| *g2 == gi).map(|(_, m)| *m);
    let (l_acc, b_acc, q_acc) = (acc_of(&lender)?, acc_of(&borrower)?, acc_of(&liquidator)?);
    // only on a borrower without positions, so that the two debts are its only debts
    if !active_balances(&model::account_of(&sim.store, &b_acc)?).is_empty() {
        return None;
    }
    sim.stats.fault("drill_emode_two_debt_liquidation");
    // e-mode: tag on the collateral bank, entries on both debt banks
    let xbank = model::bank_of(&sim.store, &x.keys.bank)?;
    let tag = if xbank.emode.emode_tag != 0 { xbank.emode.emode_tag } else { ctx.rng.range(1, 5) as u16 };
    if xbank.emode.emode_tag == 0 {
        sim.apply(Event::Tx(Tx::one("emode_admin", ix::configure_bank_emode(g.key, g.admins.emode, x.keys.bank, tag, xbank.emode.emode_config.entries))));
    }
    // half the time the lower entry lies wholly below the higher one (its maintenance weight is
    // under the other's initial weight), so that a merge mixing the two would be incoherent
    let lo = if ctx.rng.chance(1, 2) { (am + 0.02, am + 0.04) } else { (am + 0.02, am + 0.10) };
    let hi = (am + 0.06, am + 0.18);
    let (e1, e2) = if ctx.rng.chance(1, 2) { (lo, hi) } else { (hi, lo) };
    for (b, (wi, wm)) in [(&b1, e1), (&b2, e2)] {
        let bank = model::bank_of(&sim.store, &b.keys.bank)?;
        let mut entries = bank.emode.emode_config.entries;
        let slot = entries
            .iter()
            .position(|e| e.collateral_bank_emode_tag == tag)
            .or_else(|| entries.iter().position(|e| e.collateral_bank_emode_tag == 0))
            .unwrap_or(0);
        entries[slot] = EmodeEntry {
            collateral_bank_emode_tag: tag,
            flags: 0,
            pad0: [0; 5],
            asset_weight_init: world::w(wi),
            asset_weight_maint: world::w(wm),
        };
        entries.sort_by_key(|e| e.collateral_bank_emode_tag);
        let o = sim.apply(Event::Tx(Tx::one("emode_admin", ix::configure_bank_emode(g.key, g.admins.emode, b.keys.bank, bank.emode.emode_tag, entries))))?;
        if !o.ok() {
            return None;
        }
    }
    // liquidity in both debt banks, then the two debts, collateral sized from them
    let mut debt_micro = 0f64;
    let mut plan: Vec<(BankInfo, u64, Pubkey)> = Vec::new();
    for b in [&b1, &b2] {
        let l_ta = lender.tokens.get(&b.keys.mint).cloned()?;
        let d = (token_balance(&sim.store, &l_ta) / 1000).clamp(10_000, 1_000_000_000).min(token_balance(&sim.store, &l_ta));
        sim.apply(Event::Tx(Tx::one("user", ix::deposit(&b.keys, l_acc, lender.authority, l_ta, d, None))));
        let bank = model::bank_of(&sim.store, &b.keys.bank)?;
        let take = (d / 4).max(1);
        debt_micro += take as f64 * b.price_micro as f64 / 10f64.powi(bank.mint_decimals as i32);
        plan.push((b.clone(), take, borrower.tokens.get(&b.keys.mint).cloned()?));
    }
    let b_ta_x = borrower.tokens.get(&x.keys.mint).cloned()?;
    let xbank = model::bank_of(&sim.store, &x.keys.bank)?;
    let ai: f64 = i80(xbank.config.asset_weight_init).to_num();
    let want = 6.0 / ai.max(0.05) * debt_micro * 10f64.powi(xbank.mint_decimals as i32) / (x.price_micro.max(1) as f64);
    let c_max = token_balance(&sim.store, &b_ta_x) / 2;
    if !(want.is_finite() && want >= 1.0 && want < c_max as f64) {
        return None;
    }
    let c = want.ceil() as u64;
    sim.apply(Event::Tx(Tx::one("user", ix::deposit(&x.keys, b_acc, borrower.authority, b_ta_x, c, None))));
    // variant: the borrower also carries an active but EMPTY slot in a third bank that has no
    // e-mode entry at all (deposit N, withdraw exactly N without the "all" flag): an empty slot is
    // not a debt and must not take part in the e-mode reconciliation
    if ctx.rng.chance(1, 2) {
        if let Some(b3) = plain.iter().find(|b| {
            b.keys.bank != x.keys.bank
                && b.keys.bank != b1.keys.bank
                && b.keys.bank != b2.keys.bank
                && model::bank_of(&sim.store, &b.keys.bank)
                    .map(|k| k.config.asset_tag == 0 && k.emode.emode_config.entries.iter().all(|e| e.collateral_bank_emode_tag != tag))
                    .unwrap_or(false)
        }) {
            if let Some(ta3) = borrower.tokens.get(&b3.keys.mint).cloned() {
                let n = (token_balance(&sim.store, &ta3) / 1000).clamp(1, 1_000_000);
                let o = sim.apply(Event::Tx(Tx::one("user", ix::deposit(&b3.keys, b_acc, borrower.authority, ta3, n, None))));
                if o.map(|o| o.ok()).unwrap_or(false) {
                    let rm = risk_metas(&sim.store, &b_acc, None, None);
                    sim.apply(Event::Tx(Tx::one("user", ix::withdraw(&b3.keys, b_acc, borrower.authority, ta3, n, None, rm))));
                    let empty_slot = model::account_of(&sim.store, &b_acc)
                        .map(|a| a.lending_account.balances.iter().any(|p| p.active != 0 && p.bank_pk == b3.keys.bank && i80(p.asset_shares) < I80F48::ONE))
                        .unwrap_or(false);
                    if empty_slot {
                        sim.stats.fault("drill_emode_empty_slot_in_entryless_bank");
                    }
                }
            }
        }
    }
    for (b, take, ta) in &plan {
        let rm = risk_metas(&sim.store, &b_acc, Some(b.keys.bank), None);
        let o = sim.apply(Event::Tx(Tx::one("user", ix::borrow(&b.keys, b_acc, borrower.authority, *ta, *take, rm))))?;
        if !o.ok() {
            return None;
        }
        if sim.violated() && sim.stop_on_violation {
            return None;
        }
    }
    sim.stats.fault("drill_emode_two_debts_open");
    // collateral price: 3 % above the model's maintenance boundary
    let bacc = model::account_of(&sim.store, &b_acc)?;
    let h = crate::refm::health(&sim.store, &bacc, crate::refm::Req::Maint, sim.clock).ok()?;
    if h.assets <= model::qi(0) || h.liabs <= model::qi(0) {
        return None;
    }
    let now = sim.clock.unix_timestamp;
    {
        let info = ctx.world.bank_info_mut(&x.keys.bank)?;
        let f = (&h.liabs / &h.assets) * model::qr(103, 100);
        let np = (model::qu(info.price_micro) * f).ceil().to_integer().to_u64().unwrap_or(0);
        if np == 0 || np >= info.price_micro {
            return None;
        }
        info.price_micro = np;
        let ev = match info.oracle {
            OracleKind::Pyth => Event::SetAccount {
                key: info.oracle_key,
                account: Some(fixtures::pyth_account(info.feed_id, &world::pyth_from_micro(np, info.expo, 0, 0, now))),
                why: "oracle_jump",
            },
            _ => Event::SetAccount {
                key: info.oracle_key,
                account: Some(fixtures::swb_account(&world::swb_from_micro(np, 0, now))),
                why: "oracle_jump",
            },
        };
        sim.apply(ev);
    }
    let bacc = model::account_of(&sim.store, &b_acc)?;
    let h2 = crate::refm::health(&sim.store, &bacc, crate::refm::Req::Maint, sim.clock).ok()?;
    if h2.net() <= model::qi(0) {
        return None;
    }
    sim.stats.fault("drill_emode_two_debts_healthy_liquidation_attempt");
    // the attempt (refused on a correct program: the account is healthy)
    let liab = if ctx.rng.chance(1, 2) { &b1 } else { &b2 };
    let xb = model::bank_of(&sim.store, &x.keys.bank)?;
    let lbk = model::bank_of(&sim.store, &liab.keys.bank)?;
    let mut rem: Vec<AccountMeta> = Vec::new();
    rem.extend(world::oracle_metas_for(&xb));
    rem.extend(world::oracle_metas_for(&lbk));
    let q = model::account_of(&sim.store, &q_acc)?;
    let mut lq_banks: Vec<Pubkey> = active_balances(&q).iter().map(|b| b.bank_pk).collect();
    for k in [x.keys.bank, liab.keys.bank] {
        if !lq_banks.contains(&k) {
            lq_banks.push(k);
        }
    }
    lq_banks.sort_by(|a, b| b.cmp(a));
    let mut lq = Vec::new();
    for bk in lq_banks {
        lq.push(ix::ro(bk));
        if let Some(bank) = model::bank_of(&sim.store, &bk) {
            lq.extend(world::oracle_metas_for(&bank));
        }
    }
    let le = risk_metas(&sim.store, &b_acc, None, None);
    let (n_lq, n_le) = (lq.len() as u8, le.len() as u8);
    rem.extend(lq);
    rem.extend(le);
    let amount = (c / 50).max(1);
    Some(Tx::one(
        "liquidator",
        ix::liquidate(g.key, &x.keys, &liab.keys, q_acc, liquidator.authority, b_acc, amount, n_le, n_lq, rem),
    ))
}

// ---------- mempool / scheduler --------------------------------------------------------------------

pub fn bank_q(store: &Store, k: &Pubkey) -> Option<BankQ> {
    model::bank_of(store, k).map(|b| BankQ::of(&b))
}

/// One scheduler step for the MKT profile. Returns the events to apply.
pub fn step_mkt(sim: &mut Sim, ctx: &mut Ctx) {
    // deliver delayed transactions whose time has come
    let mut due: Vec<Tx> = Vec::new();
    for (k, _) in ctx.mempool.iter_mut() {
        if *k > 0 {
            *k -= 1;
        }
    }
    let mut i = 0;
    while i < ctx.mempool.len() {
        if ctx.mempool[i].0 == 0 {
            due.push(ctx.mempool.remove(i).1);
        } else {
            i += 1;
        }
    }
    for tx in due {
        sim.stats.fault("delivery_delayed");
        sim.apply(Event::Tx(tx));
        if sim.violated() && sim.stop_on_violation {
            return;
        }
    }

    if ctx.adm_share > 0 && ctx.adm.total() > 0 && ctx.rng.below(1000) < ctx.adm_share as u64 {
        let adm = ctx.adm.clone();
        if let Some(mut tx) = crate::actors_adm::step_adm(sim, ctx, &adm) {
            sim.stats.fault("operator_churn");
            submit(sim, ctx, &mut tx);
        }
        return;
    }
    let s = ctx.swarm.clone();
    let weights = [
        s.w_deposit,
        s.w_withdraw,
        s.w_borrow,
        s.w_repay,
        s.w_close_balance,
        s.w_accrue,
        s.w_collect,
        s.w_oracle,
        s.w_time,
        s.w_liquidate,
        s.w_bankruptcy,
        s.w_crash,
        s.w_pulse,
        s.w_borrow_boundary,
        s.w_withdraw_boundary,
        s.w_deposit_boundary,
        s.w_hunter,
        s.w_flashloan,
        s.w_receivership,
        s.w_deleverage,
        s.w_make_unhealthy,
        s.w_oracle_fault,
        s.w_account_close,
    ];
    let choice = ctx.rng.pick_weighted(&weights);
    let tx: Option<Tx> = match choice {
        0 => {
            if ctx.world.groups.iter().any(|g| g.banks.len() >= 12) && ctx.rng.chance(1, 4) {
                drill_fill_slots(sim, ctx)
            } else {
                act_deposit(sim, ctx)
            }
        }
        1 => act_withdraw(sim, ctx),
        2 => {
            if ctx.rng.chance(1, 5) {
                act_batch(sim, ctx)
            } else {
                act_borrow(sim, ctx)
            }
        }
        3 => act_repay(sim, ctx),
        4 => act_close_balance(sim, ctx),
        5 => act_accrue(sim, ctx),
        6 => act_collect(sim, ctx),
        7 => {
            let mut f = Vec::new();
            let evs = act_oracle_publish(sim, ctx, &mut f);
            for x in f {
                sim.stats.fault(x);
            }
            for e in evs {
                sim.apply(e);
            }
            None
        }
        8 => {
            let e = act_time(sim, ctx);
            if let Event::Advance { dt, .. } = &e {
                if *dt == 0 {
                    sim.stats.fault("clock_zero_advance");
                } else if *dt > 86_400 * 30 {
                    sim.stats.fault("clock_long_jump");
                }
            }
            sim.apply(e);
            // usually the publisher follows time so that oracles are fresh
            if ctx.rng.chance(3, 4) {
                let mut f = Vec::new();
                let evs = act_oracle_publish(sim, ctx, &mut f);
                for x in f {
                    sim.stats.fault(x);
                }
                for e in evs {
                    sim.apply(e);
                }
            }
            None
        }
        9 => {
            if ctx.rng.chance(1, 6) {
                drill_emode_two_debt_liquidation(sim, ctx)
            } else if ctx.swarm.fault_oracle_skip > 0 && ctx.rng.chance(1, 6) {
                drill_liquidate_with_stale_reduce_only_collateral(sim, ctx)
            } else {
                act_liquidate(sim, ctx)
            }
        }
        10 => {
            if ctx.rng.chance(1, 2) {
                drill_bankruptcy(sim, ctx)
            } else {
                act_bankruptcy(sim, ctx)
            }
        }
        11 => {
            sim.stats.fault("oracle_price_jump");
            for e in act_price_jump(sim, ctx) {
                sim.apply(e);
            }
            None
        }
        12 => act_pulse(sim, ctx),
        13 => act_borrow_boundary(sim, ctx),
        14 => act_withdraw_boundary(sim, ctx),
        15 => act_deposit_boundary(sim, ctx),
        16 => act_hunter(sim, ctx),
        17 => {
            if ctx.rng.chance(1, 3) {
                crate::actors_tx::act_shape_fuzz(sim, ctx)
            } else {
                crate::actors_tx::act_flashloan(sim, ctx)
            }
        }
        18 => crate::actors_tx::act_bracket(sim, ctx, crate::actors_tx::BracketKind::Liquidation),
        19 => crate::actors_tx::act_bracket(sim, ctx, crate::actors_tx::BracketKind::Deleverage),
        20 => {
            crate::actors_tx::act_make_unhealthy(sim, ctx);
            None
        }
        21 => crate::actors_ora::act_oracle_fault(sim, ctx),
        _ => act_account_close(sim, ctx),
    };
    if sim.violated() && sim.stop_on_violation {
        return;
    }
    if let Some(mut tx) = tx {
        submit(sim, ctx, &mut tx);
    }
}

/// Deliver a built transaction through the mempool seam (delay / dup / drop / CPI fault).
pub fn submit(sim: &mut Sim, ctx: &mut Ctx, tx: &mut Tx) {
    let s = ctx.swarm;
    if s.fault_drop > 0 && ctx.rng.below(1000) < s.fault_drop as u64 {
        sim.stats.fault("delivery_dropped");
        return;
    }
    if s.fault_cpi_fail > 0 && ctx.rng.below(1000) < s.fault_cpi_fail as u64 {
        tx.fail_cpi_at = Some(ctx.rng.below(3) as u32);
    }
    if s.fault_delay > 0 && ctx.rng.below(1000) < s.fault_delay as u64 {
        let k = ctx.rng.range(1, 6) as u32;
        ctx.mempool.push((k, tx.clone()));
        return;
    }
    let injected = tx.fail_cpi_at.is_some();
    sim.stats.honest_txs += 1;
    let out = sim.apply(Event::Tx(tx.clone()));
    if let Some(o) = &out {
        if o.ok() {
            sim.stats.honest_ok += 1;
        }
        if injected {
            if let Err(e) = &o.result {
                if e.source == crate::rt::ErrSource::Injected {
                    sim.stats.fault("cpi_failure_injected");
                }
            }
        }
    }
    if s.fault_dup > 0 && ctx.rng.below(1000) < s.fault_dup as u64 {
        sim.stats.fault("delivery_duplicated");
        let mut t2 = tx.clone();
        t2.fail_cpi_at = None;
        sim.apply(Event::Tx(t2));
    }
}

pub fn dummy_account() -> Account {
    Account::system(0)
}

pub fn ix_unused(_: Ix) {}
