//! Instruction builders: thin wrappers over the Anchor-generated `marginfi::accounts::*` and
//! `marginfi::instruction::*` (so account order and discriminators are the program's own).

use crate::rt::{ix_sysvar_id, marginfi_id, system_id, Ix};
use anchor_lang::prelude::{AccountMeta, Pubkey};
use anchor_lang::{InstructionData, ToAccountMetas};
use marginfi::state::bank::BankVaultType;
use marginfi_type_crate::constants::*;
use marginfi_type_crate::types::{
    BankConfigCompact, BankConfigOpt, EmodeEntry, InterestRateConfigOpt, WrappedI80F48,
    MAX_EMODE_ENTRIES,
};

pub fn pda(seeds: &[&[u8]]) -> (Pubkey, u8) {
    Pubkey::find_program_address(seeds, &marginfi_id())
}
pub fn fee_state_pda() -> Pubkey {
    pda(&[FEE_STATE_SEED.as_bytes()]).0
}
pub fn vault_pda(bank: &Pubkey, t: BankVaultType) -> Pubkey {
    pda(&[t.get_seed(), bank.as_ref()]).0
}
pub fn vault_auth_pda(bank: &Pubkey, t: BankVaultType) -> Pubkey {
    pda(&[t.get_authority_seed(), bank.as_ref()]).0
}
pub fn liq_record_pda(account: &Pubkey) -> Pubkey {
    pda(&[LIQUIDATION_RECORD_SEED.as_bytes(), account.as_ref()]).0
}
pub fn emissions_auth_pda(bank: &Pubkey, mint: &Pubkey) -> Pubkey {
    pda(&[EMISSIONS_AUTH_SEED.as_bytes(), bank.as_ref(), mint.as_ref()]).0
}
pub fn emissions_vault_pda(bank: &Pubkey, mint: &Pubkey) -> Pubkey {
    pda(&[
        EMISSIONS_TOKEN_ACCOUNT_SEED.as_bytes(),
        bank.as_ref(),
        mint.as_ref(),
    ])
    .0
}
pub fn metadata_pda(bank: &Pubkey) -> Pubkey {
    pda(&[METADATA_SEED.as_bytes(), bank.as_ref()]).0
}
pub fn staked_settings_pda(group: &Pubkey) -> Pubkey {
    pda(&[STAKED_SETTINGS_SEED.as_bytes(), group.as_ref()]).0
}
pub fn bank_with_seed_pda(group: &Pubkey, mint: &Pubkey, seed: u64) -> Pubkey {
    pda(&[group.as_ref(), mint.as_ref(), &seed.to_le_bytes()]).0
}
pub fn account_pda(group: &Pubkey, authority: &Pubkey, index: u16, third: Option<u16>) -> Pubkey {
    pda(&[
        MARGINFI_ACCOUNT_SEED.as_bytes(),
        group.as_ref(),
        authority.as_ref(),
        &index.to_le_bytes(),
        &third.unwrap_or(0).to_le_bytes(),
    ])
    .0
}
pub fn ata(wallet: &Pubkey, mint: &Pubkey, token_program: &Pubkey) -> Pubkey {
    anchor_spl::associated_token::get_associated_token_address_with_program_id(
        wallet,
        mint,
        token_program,
    )
}

fn mk(
    tag: &'static str,
    accounts: impl ToAccountMetas,
    data: impl InstructionData,
    remaining: Vec<AccountMeta>,
) -> Ix {
    let mut metas = accounts.to_account_metas(None);
    metas.extend(remaining);
    Ix::new(tag, metas, data.data())
}

pub fn ro(k: Pubkey) -> AccountMeta {
    AccountMeta::new_readonly(k, false)
}
pub fn rw(k: Pubkey) -> AccountMeta {
    AccountMeta::new(k, false)
}

/// Static description of a bank sufficient to build every instruction touching it.
#[derive(Clone, Debug, PartialEq, Eq)]
pub struct BankKeys {
    pub group: Pubkey,
    pub bank: Pubkey,
    pub mint: Pubkey,
    pub token_program: Pubkey,
    pub liquidity_vault: Pubkey,
    pub liquidity_auth: Pubkey,
    pub insurance_vault: Pubkey,
    pub insurance_auth: Pubkey,
    pub fee_vault: Pubkey,
    pub fee_auth: Pubkey,
}

impl BankKeys {
    pub fn new(group: Pubkey, bank: Pubkey, mint: Pubkey, token_program: Pubkey) -> Self {
        BankKeys {
            group,
            bank,
            mint,
            token_program,
            liquidity_vault: vault_pda(&bank, BankVaultType::Liquidity),
            liquidity_auth: vault_auth_pda(&bank, BankVaultType::Liquidity),
            insurance_vault: vault_pda(&bank, BankVaultType::Insurance),
            insurance_auth: vault_auth_pda(&bank, BankVaultType::Insurance),
            fee_vault: vault_pda(&bank, BankVaultType::Fee),
            fee_auth: vault_auth_pda(&bank, BankVaultType::Fee),
        }
    }
    pub fn is_t22(&self) -> bool {
        self.token_program == crate::rt::token22_id()
    }
    /// leading remaining account required for Token-2022 banks
    pub fn mint_meta(&self) -> Vec<AccountMeta> {
        if self.is_t22() {
            vec![ro(self.mint)]
        } else {
            vec![]
        }
    }
}

// ---------------- global / group ----------------

#[allow(clippy::too_many_arguments)]
pub fn init_global_fee_state(
    payer: Pubkey,
    admin: Pubkey,
    fee_wallet: Pubkey,
    bank_init_flat_sol_fee: u32,
    liquidation_flat_sol_fee: u32,
    program_fee_fixed: WrappedI80F48,
    program_fee_rate: WrappedI80F48,
    liquidation_max_fee: WrappedI80F48,
) -> Ix {
    mk(
        "init_global_fee_state",
        marginfi::accounts::InitFeeState {
            payer,
            fee_state: fee_state_pda(),
            system_program: system_id(),
        },
        marginfi::instruction::InitGlobalFeeState {
            admin,
            fee_wallet,
            bank_init_flat_sol_fee,
            liquidation_flat_sol_fee,
            program_fee_fixed,
            program_fee_rate,
            liquidation_max_fee,
        },
        vec![],
    )
}

#[allow(clippy::too_many_arguments)]
pub fn edit_global_fee_state(
    global_fee_admin: Pubkey,
    admin: Pubkey,
    fee_wallet: Pubkey,
    bank_init_flat_sol_fee: u32,
    liquidation_flat_sol_fee: u32,
    program_fee_fixed: WrappedI80F48,
    program_fee_rate: WrappedI80F48,
    liquidation_max_fee: WrappedI80F48,
) -> Ix {
    mk(
        "edit_global_fee_state",
        marginfi::accounts::EditFeeState {
            global_fee_admin,
            fee_state: fee_state_pda(),
        },
        marginfi::instruction::EditGlobalFeeState {
            admin,
            fee_wallet,
            bank_init_flat_sol_fee,
            liquidation_flat_sol_fee,
            program_fee_fixed,
            program_fee_rate,
            liquidation_max_fee,
        },
        vec![],
    )
}

pub fn group_initialize(group: Pubkey, admin: Pubkey) -> Ix {
    mk(
        "group_initialize",
        marginfi::accounts::MarginfiGroupInitialize {
            marginfi_group: group,
            admin,
            fee_state: fee_state_pda(),
            system_program: system_id(),
        },
        marginfi::instruction::MarginfiGroupInitialize {},
        vec![],
    )
}

#[derive(Clone, Debug, PartialEq, Eq)]
pub struct GroupAdmins {
    pub admin: Pubkey,
    pub emode: Pubkey,
    pub curve: Pubkey,
    pub limit: Pubkey,
    pub emissions: Pubkey,
    pub metadata: Pubkey,
    pub risk: Pubkey,
}

pub fn group_configure(
    group: Pubkey,
    admin: Pubkey,
    new: &GroupAdmins,
    emode_max_init_leverage: Option<WrappedI80F48>,
    emode_max_maint_leverage: Option<WrappedI80F48>,
) -> Ix {
    mk(
        "group_configure",
        marginfi::accounts::MarginfiGroupConfigure {
            marginfi_group: group,
            admin,
        },
        marginfi::instruction::MarginfiGroupConfigure {
            new_admin: new.admin,
            new_emode_admin: new.emode,
            new_curve_admin: new.curve,
            new_limit_admin: new.limit,
            new_emissions_admin: new.emissions,
            new_metadata_admin: new.metadata,
            new_risk_admin: new.risk,
            emode_max_init_leverage,
            emode_max_maint_leverage,
        },
        vec![],
    )
}

pub fn add_bank(
    b: &BankKeys,
    admin: Pubkey,
    fee_payer: Pubkey,
    global_fee_wallet: Pubkey,
    config: BankConfigCompact,
) -> Ix {
    mk(
        "add_bank",
        marginfi::accounts::LendingPoolAddBank {
            marginfi_group: b.group,
            admin,
            fee_payer,
            fee_state: fee_state_pda(),
            global_fee_wallet,
            bank_mint: b.mint,
            bank: b.bank,
            liquidity_vault_authority: b.liquidity_auth,
            liquidity_vault: b.liquidity_vault,
            insurance_vault_authority: b.insurance_auth,
            insurance_vault: b.insurance_vault,
            fee_vault_authority: b.fee_auth,
            fee_vault: b.fee_vault,
            token_program: b.token_program,
            system_program: system_id(),
        },
        marginfi::instruction::LendingPoolAddBank {
            bank_config: config,
        },
        vec![],
    )
}

pub fn add_bank_with_seed(
    b: &BankKeys,
    admin: Pubkey,
    fee_payer: Pubkey,
    global_fee_wallet: Pubkey,
    config: BankConfigCompact,
    seed: u64,
) -> Ix {
    mk(
        "add_bank_with_seed",
        marginfi::accounts::LendingPoolAddBankWithSeed {
            marginfi_group: b.group,
            admin,
            fee_payer,
            fee_state: fee_state_pda(),
            global_fee_wallet,
            bank_mint: b.mint,
            bank: b.bank,
            liquidity_vault_authority: b.liquidity_auth,
            liquidity_vault: b.liquidity_vault,
            insurance_vault_authority: b.insurance_auth,
            insurance_vault: b.insurance_vault,
            fee_vault_authority: b.fee_auth,
            fee_vault: b.fee_vault,
            token_program: b.token_program,
            system_program: system_id(),
        },
        marginfi::instruction::LendingPoolAddBankWithSeed {
            bank_config: config,
            bank_seed: seed,
        },
        vec![],
    )
}

pub fn configure_bank_oracle(
    group: Pubkey,
    admin: Pubkey,
    bank: Pubkey,
    setup: u8,
    oracle: Pubkey,
    remaining: Vec<AccountMeta>,
) -> Ix {
    mk(
        "configure_bank_oracle",
        marginfi::accounts::LendingPoolConfigureBankOracle { group, admin, bank },
        marginfi::instruction::LendingPoolConfigureBankOracle { setup, oracle },
        remaining,
    )
}

pub fn set_fixed_oracle_price(
    group: Pubkey,
    admin: Pubkey,
    bank: Pubkey,
    price: WrappedI80F48,
) -> Ix {
    mk(
        "set_fixed_oracle_price",
        marginfi::accounts::LendingPoolSetFixedOraclePrice { group, admin, bank },
        marginfi::instruction::LendingPoolSetFixedOraclePrice { price },
        vec![],
    )
}

pub fn configure_bank(group: Pubkey, admin: Pubkey, bank: Pubkey, opt: BankConfigOpt) -> Ix {
    mk(
        "configure_bank",
        marginfi::accounts::LendingPoolConfigureBank { group, admin, bank },
        marginfi::instruction::LendingPoolConfigureBank {
            bank_config_opt: opt,
        },
        vec![],
    )
}

pub fn configure_bank_interest_only(
    group: Pubkey,
    delegate_curve_admin: Pubkey,
    bank: Pubkey,
    cfg: InterestRateConfigOpt,
) -> Ix {
    mk(
        "configure_bank_interest_only",
        marginfi::accounts::LendingPoolConfigureBankInterestOnly {
            group,
            delegate_curve_admin,
            bank,
        },
        marginfi::instruction::LendingPoolConfigureBankInterestOnly {
            interest_rate_config: cfg,
        },
        vec![],
    )
}

pub fn configure_bank_limits_only(
    group: Pubkey,
    delegate_limit_admin: Pubkey,
    bank: Pubkey,
    deposit_limit: Option<u64>,
    borrow_limit: Option<u64>,
    total_asset_value_init_limit: Option<u64>,
) -> Ix {
    mk(
        "configure_bank_limits_only",
        marginfi::accounts::LendingPoolConfigureBankLimitsOnly {
            group,
            delegate_limit_admin,
            bank,
        },
        marginfi::instruction::LendingPoolConfigureBankLimitsOnly {
            deposit_limit,
            borrow_limit,
            total_asset_value_init_limit,
        },
        vec![],
    )
}

pub fn force_tokenless_repay_complete(group: Pubkey, risk_admin: Pubkey, bank: Pubkey) -> Ix {
    mk(
        "force_tokenless_repay_complete",
        marginfi::accounts::LendingPoolForceTokenlessRepayComplete {
            group,
            risk_admin,
            bank,
        },
        marginfi::instruction::LendingPoolForceTokenlessRepayComplete {},
        vec![],
    )
}

pub fn configure_bank_emode(
    group: Pubkey,
    emode_admin: Pubkey,
    bank: Pubkey,
    emode_tag: u16,
    entries: [EmodeEntry; MAX_EMODE_ENTRIES],
) -> Ix {
    mk(
        "configure_bank_emode",
        marginfi::accounts::LendingPoolConfigureBankEmode {
            group,
            emode_admin,
            bank,
        },
        marginfi::instruction::LendingPoolConfigureBankEmode { emode_tag, entries },
        vec![],
    )
}

pub fn clone_emode(group: Pubkey, signer: Pubkey, from: Pubkey, to: Pubkey) -> Ix {
    mk(
        "clone_emode",
        marginfi::accounts::LendingPoolCloneEmode {
            group,
            signer,
            copy_from_bank: from,
            copy_to_bank: to,
        },
        marginfi::instruction::LendingPoolCloneEmode {},
        vec![],
    )
}

#[allow(clippy::too_many_arguments)]
pub fn setup_emissions(
    b: &BankKeys,
    admin: Pubkey,
    emissions_mint: Pubkey,
    emissions_token_program: Pubkey,
    funding: Pubkey,
    flags: u64,
    rate: u64,
    total: u64,
) -> Ix {
    mk(
        "setup_emissions",
        marginfi::accounts::LendingPoolSetupEmissions {
            group: b.group,
            delegate_emissions_admin: admin,
            bank: b.bank,
            emissions_mint,
            emissions_auth: emissions_auth_pda(&b.bank, &emissions_mint),
            emissions_token_account: emissions_vault_pda(&b.bank, &emissions_mint),
            emissions_funding_account: funding,
            token_program: emissions_token_program,
            system_program: system_id(),
        },
        marginfi::instruction::LendingPoolSetupEmissions {
            flags,
            rate,
            total_emissions: total,
        },
        vec![],
    )
}

#[allow(clippy::too_many_arguments)]
pub fn update_emissions(
    b: &BankKeys,
    admin: Pubkey,
    emissions_mint: Pubkey,
    emissions_token_program: Pubkey,
    funding: Pubkey,
    flags: Option<u64>,
    rate: Option<u64>,
    additional: Option<u64>,
) -> Ix {
    mk(
        "update_emissions",
        marginfi::accounts::LendingPoolUpdateEmissionsParameters {
            group: b.group,
            delegate_emissions_admin: admin,
            bank: b.bank,
            emissions_mint,
            emissions_token_account: emissions_vault_pda(&b.bank, &emissions_mint),
            emissions_funding_account: funding,
            token_program: emissions_token_program,
        },
        marginfi::instruction::LendingPoolUpdateEmissionsParameters {
            emissions_flags: flags,
            emissions_rate: rate,
            additional_emissions: additional,
        },
        vec![],
    )
}

pub fn handle_bankruptcy(
    b: &BankKeys,
    signer: Pubkey,
    marginfi_account: Pubkey,
    remaining: Vec<AccountMeta>,
) -> Ix {
    let mut rem = b.mint_meta();
    rem.extend(remaining);
    mk(
        "handle_bankruptcy",
        marginfi::accounts::LendingPoolHandleBankruptcy {
            group: b.group,
            signer,
            bank: b.bank,
            marginfi_account,
            liquidity_vault: b.liquidity_vault,
            insurance_vault: b.insurance_vault,
            insurance_vault_authority: b.insurance_auth,
            token_program: b.token_program,
        },
        marginfi::instruction::LendingPoolHandleBankruptcy {},
        rem,
    )
}

pub fn accrue_interest(group: Pubkey, bank: Pubkey) -> Ix {
    mk(
        "accrue_interest",
        marginfi::accounts::LendingPoolAccrueBankInterest { group, bank },
        marginfi::instruction::LendingPoolAccrueBankInterest {},
        vec![],
    )
}

pub fn collect_bank_fees(b: &BankKeys, fee_ata: Pubkey) -> Ix {
    mk(
        "collect_bank_fees",
        marginfi::accounts::LendingPoolCollectBankFees {
            group: b.group,
            bank: b.bank,
            liquidity_vault_authority: b.liquidity_auth,
            liquidity_vault: b.liquidity_vault,
            insurance_vault: b.insurance_vault,
            fee_vault: b.fee_vault,
            fee_state: fee_state_pda(),
            fee_ata,
            token_program: b.token_program,
        },
        marginfi::instruction::LendingPoolCollectBankFees {},
        b.mint_meta(),
    )
}

pub fn withdraw_fees(b: &BankKeys, admin: Pubkey, dst: Pubkey, amount: u64) -> Ix {
    mk(
        "withdraw_fees",
        marginfi::accounts::LendingPoolWithdrawFees {
            group: b.group,
            bank: b.bank,
            admin,
            fee_vault: b.fee_vault,
            fee_vault_authority: b.fee_auth,
            dst_token_account: dst,
            token_program: b.token_program,
        },
        marginfi::instruction::LendingPoolWithdrawFees { amount },
        b.mint_meta(),
    )
}

pub fn withdraw_fees_permissionless(b: &BankKeys, dst: Pubkey, amount: u64) -> Ix {
    mk(
        "withdraw_fees_permissionless",
        marginfi::accounts::LendingPoolWithdrawFeesPermissionless {
            group: b.group,
            bank: b.bank,
            fee_vault: b.fee_vault,
            fee_vault_authority: b.fee_auth,
            fees_destination_account: dst,
            token_program: b.token_program,
        },
        marginfi::instruction::LendingPoolWithdrawFeesPermissionless { amount },
        b.mint_meta(),
    )
}

pub fn update_fees_destination(b: &BankKeys, admin: Pubkey, dst: Pubkey) -> Ix {
    mk(
        "update_fees_destination",
        marginfi::accounts::LendingPoolUpdateFeesDestinationAccount {
            group: b.group,
            bank: b.bank,
            admin,
            destination_account: dst,
        },
        marginfi::instruction::LendingPoolUpdateFeesDestinationAccount {},
        vec![],
    )
}

pub fn withdraw_insurance(b: &BankKeys, admin: Pubkey, dst: Pubkey, amount: u64) -> Ix {
    mk(
        "withdraw_insurance",
        marginfi::accounts::LendingPoolWithdrawInsurance {
            group: b.group,
            bank: b.bank,
            admin,
            insurance_vault: b.insurance_vault,
            insurance_vault_authority: b.insurance_auth,
            dst_token_account: dst,
            token_program: b.token_program,
        },
        marginfi::instruction::LendingPoolWithdrawInsurance { amount },
        b.mint_meta(),
    )
}

pub fn close_bank(group: Pubkey, bank: Pubkey, admin: Pubkey) -> Ix {
    mk(
        "close_bank",
        marginfi::accounts::LendingPoolCloseBank { group, bank, admin },
        marginfi::instruction::LendingPoolCloseBank {},
        vec![],
    )
}

pub fn pulse_bank_price_cache(group: Pubkey, bank: Pubkey, remaining: Vec<AccountMeta>) -> Ix {
    mk(
        "pulse_bank_price_cache",
        marginfi::accounts::LendingPoolPulseBankPriceCache { group, bank },
        marginfi::instruction::LendingPoolPulseBankPriceCache {},
        remaining,
    )
}

pub fn propagate_fee_state(group: Pubkey) -> Ix {
    mk(
        "propagate_fee_state",
        marginfi::accounts::PropagateFee {
            fee_state: fee_state_pda(),
            marginfi_group: group,
        },
        marginfi::instruction::PropagateFeeState {},
        vec![],
    )
}

pub fn config_group_fee(group: Pubkey, global_fee_admin: Pubkey, enable: bool) -> Ix {
    mk(
        "config_group_fee",
        marginfi::accounts::ConfigGroupFee {
            marginfi_group: group,
            global_fee_admin,
            fee_state: fee_state_pda(),
        },
        marginfi::instruction::ConfigGroupFee {
            enable_program_fee: enable,
        },
        vec![],
    )
}

pub fn panic_pause(global_fee_admin: Pubkey) -> Ix {
    mk(
        "panic_pause",
        marginfi::accounts::PanicPause {
            global_fee_admin,
            fee_state: fee_state_pda(),
        },
        marginfi::instruction::PanicPause {},
        vec![],
    )
}

pub fn panic_unpause(global_fee_admin: Pubkey) -> Ix {
    mk(
        "panic_unpause",
        marginfi::accounts::PanicUnpause {
            global_fee_admin,
            fee_state: fee_state_pda(),
        },
        marginfi::instruction::PanicUnpause {},
        vec![],
    )
}

pub fn panic_unpause_permissionless() -> Ix {
    mk(
        "panic_unpause_permissionless",
        marginfi::accounts::PanicUnpausePermissionless {
            fee_state: fee_state_pda(),
        },
        marginfi::instruction::PanicUnpausePermissionless {},
        vec![],
    )
}

pub fn configure_deleverage_withdrawal_limit(group: Pubkey, admin: Pubkey, limit: u32) -> Ix {
    mk(
        "configure_deleverage_withdrawal_limit",
        marginfi::accounts::ConfigureDeleverageWithdrawalLimit {
            marginfi_group: group,
            admin,
        },
        marginfi::instruction::ConfigureDeleverageWithdrawalLimit { limit },
        vec![],
    )
}

pub fn init_bank_metadata(bank: Pubkey, fee_payer: Pubkey) -> Ix {
    mk(
        "init_bank_metadata",
        marginfi::accounts::InitBankMetadata {
            bank,
            fee_payer,
            metadata: metadata_pda(&bank),
            system_program: system_id(),
        },
        marginfi::instruction::InitBankMetadata {},
        vec![],
    )
}

pub fn write_bank_metadata(
    group: Pubkey,
    bank: Pubkey,
    metadata_admin: Pubkey,
    ticker: Option<Vec<u8>>,
    description: Option<Vec<u8>>,
) -> Ix {
    mk(
        "write_bank_metadata",
        marginfi::accounts::WriteBankMetadata {
            group,
            bank,
            metadata_admin,
            metadata: metadata_pda(&bank),
        },
        marginfi::instruction::WriteBankMetadata {
            ticker,
            description,
        },
        vec![],
    )
}

pub fn migrate_curve(bank: Pubkey) -> Ix {
    mk(
        "migrate_curve",
        marginfi::accounts::MigrateCurve { bank },
        marginfi::instruction::MigrateCurve {},
        vec![],
    )
}

// ---------------- user ----------------

pub fn account_initialize(group: Pubkey, account: Pubkey, authority: Pubkey, fee_payer: Pubkey) -> Ix {
    mk(
        "account_initialize",
        marginfi::accounts::MarginfiAccountInitialize {
            marginfi_group: group,
            marginfi_account: account,
            authority,
            fee_payer,
            system_program: system_id(),
        },
        marginfi::instruction::MarginfiAccountInitialize {},
        vec![],
    )
}

pub fn account_initialize_pda(
    group: Pubkey,
    account: Pubkey,
    authority: Pubkey,
    fee_payer: Pubkey,
    account_index: u16,
    third_party_id: Option<u16>,
) -> Ix {
    mk(
        "account_initialize_pda",
        marginfi::accounts::MarginfiAccountInitializePda {
            marginfi_group: group,
            marginfi_account: account,
            authority,
            fee_payer,
            instructions_sysvar: ix_sysvar_id(),
            system_program: system_id(),
        },
        marginfi::instruction::MarginfiAccountInitializePda {
            account_index,
            third_party_id,
        },
        vec![],
    )
}

pub fn init_liq_record(account: Pubkey, fee_payer: Pubkey) -> Ix {
    mk(
        "init_liq_record",
        marginfi::accounts::InitLiquidationRecord {
            marginfi_account: account,
            fee_payer,
            liquidation_record: liq_record_pda(&account),
            system_program: system_id(),
        },
        marginfi::instruction::MarginfiAccountInitLiqRecord {},
        vec![],
    )
}

pub fn deposit(
    b: &BankKeys,
    account: Pubkey,
    authority: Pubkey,
    signer_token_account: Pubkey,
    amount: u64,
    up_to_limit: Option<bool>,
) -> Ix {
    mk(
        "deposit",
        marginfi::accounts::LendingAccountDeposit {
            group: b.group,
            marginfi_account: account,
            authority,
            bank: b.bank,
            signer_token_account,
            liquidity_vault: b.liquidity_vault,
            token_program: b.token_program,
        },
        marginfi::instruction::LendingAccountDeposit {
            amount,
            deposit_up_to_limit: up_to_limit,
        },
        b.mint_meta(),
    )
}

pub fn repay(
    b: &BankKeys,
    account: Pubkey,
    authority: Pubkey,
    signer_token_account: Pubkey,
    amount: u64,
    repay_all: Option<bool>,
) -> Ix {
    mk(
        "repay",
        marginfi::accounts::LendingAccountRepay {
            group: b.group,
            marginfi_account: account,
            authority,
            bank: b.bank,
            signer_token_account,
            liquidity_vault: b.liquidity_vault,
            token_program: b.token_program,
        },
        marginfi::instruction::LendingAccountRepay { amount, repay_all },
        b.mint_meta(),
    )
}

#[allow(clippy::too_many_arguments)]
pub fn withdraw(
    b: &BankKeys,
    account: Pubkey,
    authority: Pubkey,
    destination: Pubkey,
    amount: u64,
    withdraw_all: Option<bool>,
    risk_accounts: Vec<AccountMeta>,
) -> Ix {
    let mut rem = b.mint_meta();
    rem.extend(risk_accounts);
    mk(
        "withdraw",
        marginfi::accounts::LendingAccountWithdraw {
            group: b.group,
            marginfi_account: account,
            authority,
            bank: b.bank,
            destination_token_account: destination,
            bank_liquidity_vault_authority: b.liquidity_auth,
            liquidity_vault: b.liquidity_vault,
            token_program: b.token_program,
        },
        marginfi::instruction::LendingAccountWithdraw {
            amount,
            withdraw_all,
        },
        rem,
    )
}

pub fn borrow(
    b: &BankKeys,
    account: Pubkey,
    authority: Pubkey,
    destination: Pubkey,
    amount: u64,
    risk_accounts: Vec<AccountMeta>,
) -> Ix {
    let mut rem = b.mint_meta();
    rem.extend(risk_accounts);
    mk(
        "borrow",
        marginfi::accounts::LendingAccountBorrow {
            group: b.group,
            marginfi_account: account,
            authority,
            bank: b.bank,
            destination_token_account: destination,
            bank_liquidity_vault_authority: b.liquidity_auth,
            liquidity_vault: b.liquidity_vault,
            token_program: b.token_program,
        },
        marginfi::instruction::LendingAccountBorrow { amount },
        rem,
    )
}

pub fn close_balance(group: Pubkey, account: Pubkey, authority: Pubkey, bank: Pubkey) -> Ix {
    mk(
        "close_balance",
        marginfi::accounts::LendingAccountCloseBalance {
            group,
            marginfi_account: account,
            authority,
            bank,
        },
        marginfi::instruction::LendingAccountCloseBalance {},
        vec![],
    )
}

#[allow(clippy::too_many_arguments)]
pub fn liquidate(
    group: Pubkey,
    asset: &BankKeys,
    liab: &BankKeys,
    liquidator_account: Pubkey,
    authority: Pubkey,
    liquidatee_account: Pubkey,
    asset_amount: u64,
    liquidatee_accounts: u8,
    liquidator_accounts: u8,
    remaining: Vec<AccountMeta>,
) -> Ix {
    let mut rem = liab.mint_meta();
    rem.extend(remaining);
    mk(
        "liquidate",
        marginfi::accounts::LendingAccountLiquidate {
            group,
            asset_bank: asset.bank,
            liab_bank: liab.bank,
            liquidator_marginfi_account: liquidator_account,
            authority,
            liquidatee_marginfi_account: liquidatee_account,
            bank_liquidity_vault_authority: liab.liquidity_auth,
            bank_liquidity_vault: liab.liquidity_vault,
            bank_insurance_vault: liab.insurance_vault,
            token_program: liab.token_program,
        },
        marginfi::instruction::LendingAccountLiquidate {
            asset_amount,
            liquidatee_accounts,
            liquidator_accounts,
        },
        rem,
    )
}

pub fn start_flashloan(account: Pubkey, authority: Pubkey, end_index: u64) -> Ix {
    mk(
        "start_flashloan",
        marginfi::accounts::LendingAccountStartFlashloan {
            marginfi_account: account,
            authority,
            ixs_sysvar: ix_sysvar_id(),
        },
        marginfi::instruction::LendingAccountStartFlashloan { end_index },
        vec![],
    )
}

pub fn end_flashloan(account: Pubkey, authority: Pubkey, risk_accounts: Vec<AccountMeta>) -> Ix {
    mk(
        "end_flashloan",
        marginfi::accounts::LendingAccountEndFlashloan {
            marginfi_account: account,
            authority,
        },
        marginfi::instruction::LendingAccountEndFlashloan {},
        risk_accounts,
    )
}

pub fn pulse_health(account: Pubkey, risk_accounts: Vec<AccountMeta>) -> Ix {
    mk(
        "pulse_health",
        marginfi::accounts::PulseHealth {
            marginfi_account: account,
        },
        marginfi::instruction::LendingAccountPulseHealth {},
        risk_accounts,
    )
}

pub fn set_freeze(group: Pubkey, account: Pubkey, admin: Pubkey, frozen: bool) -> Ix {
    mk(
        "set_freeze",
        marginfi::accounts::SetAccountFreeze {
            group,
            marginfi_account: account,
            admin,
        },
        marginfi::instruction::MarginfiAccountSetFreeze { frozen },
        vec![],
    )
}

pub fn account_close(account: Pubkey, authority: Pubkey, fee_payer: Pubkey) -> Ix {
    mk(
        "account_close",
        marginfi::accounts::MarginfiAccountClose {
            marginfi_account: account,
            authority,
            fee_payer,
        },
        marginfi::instruction::MarginfiAccountClose {},
        vec![],
    )
}

#[allow(clippy::too_many_arguments)]
pub fn transfer_to_new_account(
    group: Pubkey,
    old: Pubkey,
    new: Pubkey,
    authority: Pubkey,
    fee_payer: Pubkey,
    new_authority: Pubkey,
    global_fee_wallet: Pubkey,
) -> Ix {
    mk(
        "transfer_to_new_account",
        marginfi::accounts::TransferToNewAccount {
            group,
            old_marginfi_account: old,
            new_marginfi_account: new,
            authority,
            fee_payer,
            new_authority,
            global_fee_wallet,
            system_program: system_id(),
        },
        marginfi::instruction::TransferToNewAccount {},
        vec![],
    )
}

#[allow(clippy::too_many_arguments)]
pub fn transfer_to_new_account_pda(
    group: Pubkey,
    old: Pubkey,
    new: Pubkey,
    authority: Pubkey,
    fee_payer: Pubkey,
    new_authority: Pubkey,
    global_fee_wallet: Pubkey,
    account_index: u16,
    third_party_id: Option<u16>,
) -> Ix {
    mk(
        "transfer_to_new_account_pda",
        marginfi::accounts::TransferToNewAccountPda {
            group,
            old_marginfi_account: old,
            new_marginfi_account: new,
            authority,
            fee_payer,
            new_authority,
            global_fee_wallet,
            instructions_sysvar: ix_sysvar_id(),
            system_program: system_id(),
        },
        marginfi::instruction::TransferToNewAccountPda {
            account_index,
            third_party_id,
        },
        vec![],
    )
}

pub fn start_liquidation(
    account: Pubkey,
    receiver: Pubkey,
    risk_accounts: Vec<AccountMeta>,
) -> Ix {
    mk(
        "start_liquidation",
        marginfi::accounts::StartLiquidation {
            marginfi_account: account,
            liquidation_record: liq_record_pda(&account),
            liquidation_receiver: receiver,
            instruction_sysvar: ix_sysvar_id(),
        },
        marginfi::instruction::StartLiquidation {},
        risk_accounts,
    )
}

pub fn end_liquidation(
    account: Pubkey,
    receiver: Pubkey,
    global_fee_wallet: Pubkey,
    risk_accounts: Vec<AccountMeta>,
) -> Ix {
    mk(
        "end_liquidation",
        marginfi::accounts::EndLiquidation {
            marginfi_account: account,
            liquidation_record: liq_record_pda(&account),
            liquidation_receiver: receiver,
            fee_state: fee_state_pda(),
            global_fee_wallet,
            system_program: system_id(),
        },
        marginfi::instruction::EndLiquidation {},
        risk_accounts,
    )
}

pub fn start_deleverage(
    group: Pubkey,
    account: Pubkey,
    risk_admin: Pubkey,
    risk_accounts: Vec<AccountMeta>,
) -> Ix {
    mk(
        "start_deleverage",
        marginfi::accounts::StartDeleverage {
            marginfi_account: account,
            liquidation_record: liq_record_pda(&account),
            group,
            risk_admin,
            instruction_sysvar: ix_sysvar_id(),
        },
        marginfi::instruction::StartDeleverage {},
        risk_accounts,
    )
}

pub fn end_deleverage(
    group: Pubkey,
    account: Pubkey,
    risk_admin: Pubkey,
    risk_accounts: Vec<AccountMeta>,
) -> Ix {
    mk(
        "end_deleverage",
        marginfi::accounts::EndDeleverage {
            marginfi_account: account,
            liquidation_record: liq_record_pda(&account),
            group,
            risk_admin,
        },
        marginfi::instruction::EndDeleverage {},
        risk_accounts,
    )
}

pub fn purge_deleverage_balance(
    group: Pubkey,
    account: Pubkey,
    risk_admin: Pubkey,
    bank: Pubkey,
) -> Ix {
    mk(
        "purge_deleverage_balance",
        marginfi::accounts::LendingAccountPurgeDelevBalance {
            group,
            marginfi_account: account,
            risk_admin,
            bank,
        },
        marginfi::instruction::PurgeDeleverageBalance {},
        vec![],
    )
}

pub fn settle_emissions(account: Pubkey, bank: Pubkey) -> Ix {
    mk(
        "settle_emissions",
        marginfi::accounts::LendingAccountSettleEmissions {
            marginfi_account: account,
            bank,
        },
        marginfi::instruction::LendingAccountSettleEmissions {},
        vec![],
    )
}

#[allow(clippy::too_many_arguments)]
pub fn withdraw_emissions(
    b: &BankKeys,
    account: Pubkey,
    authority: Pubkey,
    emissions_mint: Pubkey,
    emissions_token_program: Pubkey,
    destination: Pubkey,
) -> Ix {
    mk(
        "withdraw_emissions",
        marginfi::accounts::LendingAccountWithdrawEmissions {
            group: b.group,
            marginfi_account: account,
            authority,
            bank: b.bank,
            emissions_mint,
            emissions_auth: emissions_auth_pda(&b.bank, &emissions_mint),
            emissions_vault: emissions_vault_pda(&b.bank, &emissions_mint),
            destination_account: destination,
            token_program: emissions_token_program,
        },
        marginfi::instruction::LendingAccountWithdrawEmissions {},
        vec![],
    )
}

pub fn withdraw_emissions_permissionless(
    b: &BankKeys,
    account: Pubkey,
    emissions_mint: Pubkey,
    emissions_token_program: Pubkey,
    destination: Pubkey,
) -> Ix {
    mk(
        "withdraw_emissions_permissionless",
        marginfi::accounts::LendingAccountWithdrawEmissionsPermissionless {
            group: b.group,
            marginfi_account: account,
            bank: b.bank,
            emissions_mint,
            emissions_auth: emissions_auth_pda(&b.bank, &emissions_mint),
            emissions_vault: emissions_vault_pda(&b.bank, &emissions_mint),
            destination_account: destination,
            token_program: emissions_token_program,
        },
        marginfi::instruction::LendingAccountWithdrawEmissionsPermissionless {},
        vec![],
    )
}

pub fn update_emissions_destination(account: Pubkey, authority: Pubkey, destination: Pubkey) -> Ix {
    mk(
        "update_emissions_destination",
        marginfi::accounts::MarginfiAccountUpdateEmissionsDestinationAccount {
            marginfi_account: account,
            authority,
            destination_account: destination,
        },
        marginfi::instruction::MarginfiAccountUpdateEmissionsDestinationAccount {},
        vec![],
    )
}

pub fn compute_budget() -> Ix {
    Ix::foreign("compute_budget", crate::rt::compute_budget_id(), vec![2, 0, 0, 0, 0])
}

// ---------------- staked collateral ----------------

pub fn single_pool_mint_pda(stake_pool: &Pubkey) -> Pubkey {
    Pubkey::find_program_address(&[b"mint", stake_pool.as_ref()], &marginfi::constants::SPL_SINGLE_POOL_ID).0
}
pub fn single_pool_stake_pda(stake_pool: &Pubkey) -> Pubkey {
    Pubkey::find_program_address(&[b"stake", stake_pool.as_ref()], &marginfi::constants::SPL_SINGLE_POOL_ID).0
}

pub fn init_staked_settings(
    group: Pubkey,
    admin: Pubkey,
    fee_payer: Pubkey,
    settings: marginfi::instructions::StakedSettingsConfig,
) -> Ix {
    mk(
        "init_staked_settings",
        marginfi::accounts::InitStakedSettings {
            marginfi_group: group,
            admin,
            fee_payer,
            staked_settings: staked_settings_pda(&group),
            system_program: system_id(),
        },
        marginfi::instruction::InitStakedSettings { settings },
        vec![],
    )
}

pub fn edit_staked_settings(
    group: Pubkey,
    admin: Pubkey,
    settings: marginfi::instructions::StakedSettingsEditConfig,
) -> Ix {
    mk(
        "edit_staked_settings",
        marginfi::accounts::EditStakedSettings {
            marginfi_group: group,
            admin,
            staked_settings: staked_settings_pda(&group),
        },
        marginfi::instruction::EditStakedSettings { settings },
        vec![],
    )
}

pub fn propagate_staked_settings(group: Pubkey, bank: Pubkey, remaining: Vec<AccountMeta>) -> Ix {
    mk(
        "propagate_staked_settings",
        marginfi::accounts::PropagateStakedSettings {
            marginfi_group: group,
            staked_settings: staked_settings_pda(&group),
            bank,
        },
        marginfi::instruction::PropagateStakedSettings {},
        remaining,
    )
}

/// `b.bank` must be `bank_with_seed_pda(group, mint, seed)`.
pub fn add_bank_permissionless(
    b: &BankKeys,
    fee_payer: Pubkey,
    stake_pool: Pubkey,
    sol_pool: Pubkey,
    seed: u64,
    oracle: Pubkey,
) -> Ix {
    mk(
        "add_bank_permissionless",
        marginfi::accounts::LendingPoolAddBankPermissionless {
            marginfi_group: b.group,
            staked_settings: staked_settings_pda(&b.group),
            fee_payer,
            bank_mint: b.mint,
            sol_pool,
            stake_pool,
            bank: b.bank,
            liquidity_vault_authority: b.liquidity_auth,
            liquidity_vault: b.liquidity_vault,
            insurance_vault_authority: b.insurance_auth,
            insurance_vault: b.insurance_vault,
            fee_vault_authority: b.fee_auth,
            fee_vault: b.fee_vault,
            token_program: b.token_program,
            system_program: system_id(),
        },
        marginfi::instruction::LendingPoolAddBankPermissionless { bank_seed: seed },
        vec![ro(oracle), ro(b.mint), ro(sol_pool)],
    )
}

// ---------------- integrations: deposit / withdraw of the three venue kinds ----------------

use crate::actors_integ::{VKind, VenueBank};

pub fn venue_deposit(b: &VenueBank, account: Pubkey, authority: Pubkey, signer_token_account: Pubkey, amount: u64) -> Ix {
    match b.kind {
        VKind::Solend => mk(
            "solend_deposit",
            marginfi::accounts::SolendDeposit {
                group: b.keys.group,
                marginfi_account: account,
                authority,
                bank: b.keys.bank,
                signer_token_account,
                liquidity_vault_authority: b.keys.liquidity_auth,
                liquidity_vault: b.keys.liquidity_vault,
                integration_acc_2: b.acc2,
                lending_market: b.market,
                lending_market_authority: b.market_auth,
                integration_acc_1: b.acc1,
                mint: b.keys.mint,
                reserve_liquidity_supply: b.supply,
                reserve_collateral_mint: b.col_mint,
                reserve_collateral_supply: b.col_supply,
                user_collateral: b.user_col,
                pyth_price: b.misc1,
                switchboard_feed: b.misc2,
                solend_program: crate::rt::solend_id(),
                token_program: b.keys.token_program,
            },
            marginfi::instruction::SolendDeposit { amount },
            vec![],
        ),
        VKind::Kamino => mk(
            "kamino_deposit",
            marginfi::accounts::KaminoDeposit {
                group: b.keys.group,
                marginfi_account: account,
                authority,
                bank: b.keys.bank,
                signer_token_account,
                liquidity_vault_authority: b.keys.liquidity_auth,
                liquidity_vault: b.keys.liquidity_vault,
                integration_acc_2: b.acc2,
                lending_market: b.market,
                lending_market_authority: b.market_auth,
                integration_acc_1: b.acc1,
                mint: b.keys.mint,
                reserve_liquidity_supply: b.supply,
                reserve_collateral_mint: b.col_mint,
                reserve_destination_deposit_collateral: b.col_supply,
                obligation_farm_user_state: None,
                reserve_farm_state: None,
                kamino_program: crate::rt::kamino_id(),
                farms_program: marginfi::constants::FARMS_PROGRAM_ID,
                collateral_token_program: crate::rt::spl_token_id(),
                liquidity_token_program: b.keys.token_program,
                instruction_sysvar_account: ix_sysvar_id(),
            },
            marginfi::instruction::KaminoDeposit { amount },
            vec![],
        ),
        VKind::Drift => mk(
            "drift_deposit",
            marginfi::accounts::DriftDeposit {
                group: b.keys.group,
                marginfi_account: account,
                authority,
                bank: b.keys.bank,
                drift_oracle: None,
                liquidity_vault_authority: b.keys.liquidity_auth,
                liquidity_vault: b.keys.liquidity_vault,
                signer_token_account,
                drift_state: b.market,
                integration_acc_2: b.acc2,
                integration_acc_3: b.acc3,
                integration_acc_1: b.acc1,
                drift_spot_market_vault: b.supply,
                mint: b.keys.mint,
                drift_program: crate::rt::drift_id(),
                token_program: b.keys.token_program,
                system_program: system_id(),
            },
            marginfi::instruction::DriftDeposit { amount },
            vec![],
        ),
    }
}

pub fn venue_withdraw(b: &VenueBank, account: Pubkey, authority: Pubkey, destination: Pubkey, amount: u64, all: Option<bool>, remaining: Vec<AccountMeta>) -> Ix {
    match b.kind {
        VKind::Solend => mk(
            "solend_withdraw",
            marginfi::accounts::SolendWithdraw {
                group: b.keys.group,
                marginfi_account: account,
                authority,
                bank: b.keys.bank,
                destination_token_account: destination,
                liquidity_vault_authority: b.keys.liquidity_auth,
                liquidity_vault: b.keys.liquidity_vault,
                integration_acc_2: b.acc2,
                lending_market: b.market,
                lending_market_authority: b.market_auth,
                integration_acc_1: b.acc1,
                mint: b.keys.mint,
                reserve_liquidity_supply: b.supply,
                reserve_collateral_mint: b.col_mint,
                reserve_collateral_supply: b.col_supply,
                user_collateral: b.user_col,
                solend_program: crate::rt::solend_id(),
                token_program: b.keys.token_program,
            },
            marginfi::instruction::SolendWithdraw { amount, withdraw_all: all },
            remaining,
        ),
        VKind::Kamino => mk(
            "kamino_withdraw",
            marginfi::accounts::KaminoWithdraw {
                group: b.keys.group,
                marginfi_account: account,
                authority,
                bank: b.keys.bank,
                destination_token_account: destination,
                liquidity_vault_authority: b.keys.liquidity_auth,
                liquidity_vault: b.keys.liquidity_vault,
                integration_acc_2: b.acc2,
                lending_market: b.market,
                lending_market_authority: b.market_auth,
                integration_acc_1: b.acc1,
                reserve_liquidity_mint: b.keys.mint,
                reserve_liquidity_supply: b.supply,
                reserve_collateral_mint: b.col_mint,
                reserve_source_collateral: b.col_supply,
                obligation_farm_user_state: None,
                reserve_farm_state: None,
                kamino_program: crate::rt::kamino_id(),
                farms_program: marginfi::constants::FARMS_PROGRAM_ID,
                collateral_token_program: crate::rt::spl_token_id(),
                liquidity_token_program: b.keys.token_program,
                instruction_sysvar_account: ix_sysvar_id(),
            },
            marginfi::instruction::KaminoWithdraw { amount, withdraw_all: all },
            remaining,
        ),
        VKind::Drift => mk(
            "drift_withdraw",
            marginfi::accounts::DriftWithdraw {
                group: b.keys.group,
                marginfi_account: account,
                authority,
                bank: b.keys.bank,
                drift_oracle: None,
                liquidity_vault_authority: b.keys.liquidity_auth,
                liquidity_vault: b.keys.liquidity_vault,
                destination_token_account: destination,
                drift_state: b.market,
                integration_acc_2: b.acc2,
                integration_acc_3: b.acc3,
                integration_acc_1: b.acc1,
                drift_spot_market_vault: b.supply,
                drift_reward_oracle: None,
                drift_reward_spot_market: None,
                drift_reward_mint: None,
                drift_reward_oracle_2: None,
                drift_reward_spot_market_2: None,
                drift_reward_mint_2: None,
                drift_signer: b.market_auth,
                mint: b.keys.mint,
                drift_program: crate::rt::drift_id(),
                token_program: b.keys.token_program,
                system_program: system_id(),
            },
            marginfi::instruction::DriftWithdraw { amount, withdraw_all: all },
            remaining,
        ),
    }
}
