//! ORA profile: oracle fault injection (fault group B) placed on banks that matter to someone,
//! followed immediately by an operation that depends on the faulted price.

use crate::actors::*;
use crate::fixtures::{self, PythData, SwbData};
use crate::ix;
use crate::model;
use crate::rt::{Account, Tx};
use crate::sim::{Event, Sim};
use crate::world::{risk_metas, OracleKind};
use anchor_lang::prelude::Pubkey;
use fixed::types::I80F48;

/// scaled-confidence fraction -> raw confidence for a mantissa
fn conf_for(mant: i64, frac_num: u64, frac_den: u64, mult_x100: u64) -> u64 {
    // scaled = conf * mult ; want scaled/price = num/den  => conf = price*num*100/(den*mult_x100)
    ((mant.max(0) as u128) * frac_num as u128 * 100 / (frac_den as u128 * mult_x100 as u128)) as u64
}

pub fn act_oracle_fault(sim: &mut Sim, ctx: &mut Ctx) -> Option<Tx> {
    // prefer banks in which somebody holds a position
    let mut used: Vec<(Pubkey, Pubkey, bool)> = Vec::new(); // (account, bank, is_liab)
    for u in ctx.world.users.iter() {
        for (_, ma) in &u.maccounts {
            if let Some(acc) = model::account_of(&sim.store, ma) {
                for b in active_balances(&acc) {
                    if i80(b.liability_shares) >= I80F48::ONE {
                        used.push((*ma, b.bank_pk, true));
                    } else if i80(b.asset_shares) >= I80F48::ONE {
                        used.push((*ma, b.bank_pk, false));
                    }
                }
            }
        }
    }
    let (target_acc, bank_pk) = if !used.is_empty() && ctx.rng.chance(4, 5) {
        let (a, b, _) = *ctx.rng.pick(&used);
        (Some(a), b)
    } else {
        let all = ctx.world.all_banks();
        (None, ctx.rng.pick(&all).keys.bank)
    };
    let info = ctx.world.bank_info(&bank_pk)?.clone();
    let bank = model::bank_of(&sim.store, &bank_pk)?;
    let now = sim.clock.unix_timestamp;
    let max_age = crate::refm::max_age_of(&bank);
    let max_conf_frac_num = if bank.config.oracle_max_confidence == 0 { 429_496_730u64 } else { bank.config.oracle_max_confidence as u64 };
    let max_conf_den = u32::MAX as u64;
    let cur = sim.store.get(&info.oracle_key).cloned();
    let staked_fault: Option<(Pubkey, Option<Account>, &'static str)> = match info.staked {
        Some((_, sol_pool)) if ctx.rng.chance(1, 2) => {
            let mint_acc = sim.store.get(&info.keys.mint).cloned();
            let pool_acc = sim.store.get(&sol_pool).cloned();
            match (mint_acc, pool_acc) {
                (Some(mut m), Some(p)) => {
                    let supply = fixtures::mint_supply(&m.data).unwrap_or(1);
                    let stake = fixtures::parse_stake(&p.data).unwrap_or(2_000_000_000);
                    Some(match ctx.rng.below(8) {
                        0 => { fixtures::set_mint_supply(&mut m.data, 0); (info.keys.mint, Some(m), "lst_supply_zero") }
                        1 => (sol_pool, Some(fixtures::stake_account(ctx.rng.range(0, 999_999_999), 2)), "stake_below_one_sol"),
                        2 => (sol_pool, Some(fixtures::stake_account(1_000_000_000, 2)), "stake_exactly_one_sol"),
                        3 => (sol_pool, Some(fixtures::stake_account(stake, *ctx.rng.pick(&[0u32, 1, 3]))), "stake_state_not_delegated"),
                        4 => (sol_pool, Some(fixtures::stake_account(stake.saturating_mul(ctx.rng.range(2, 1_000_000)), 2)), "stake_inflated"),
                        5 => { fixtures::set_mint_supply(&mut m.data, (supply / ctx.rng.range(2, 1_000_000)).max(1)); (info.keys.mint, Some(m), "lst_supply_collapsed") }
                        6 => (sol_pool, Some(fixtures::stake_account(u64::MAX, 2)), "stake_max"),
                        _ => { let mut q = p.clone(); q.owner = crate::rt::system_id(); (sol_pool, Some(q), "stake_wrong_owner") }
                    })
                }
                _ => None,
            }
        }
        _ => None,
    };
    let (key, acc, label): (Pubkey, Option<Account>, &'static str) = if let Some(f) = staked_fault { f } else { match info.oracle {
        OracleKind::Pyth => {
            let mut p: PythData = cur.as_ref().and_then(|a| fixtures::parse_pyth(&a.data)).unwrap_or(crate::world::pyth_from_micro(info.price_micro, info.expo, 10, 0, now));
            p.publish_time = now;
            let owner = pyth_solana_receiver_sdk::id();
            let mut data_override: Option<Vec<u8>> = None;
            let mut owner_override = None;
            let label = match ctx.rng.below(16) {
                0 => { p.publish_time = now - max_age + 1; "stale_boundary_minus_1" }
                1 => { p.publish_time = now - max_age; "stale_boundary_exact" }
                2 => { p.publish_time = now - max_age - 1; "stale_boundary_plus_1" }
                3 => { p.publish_time = now - max_age - ctx.rng.irange(2, 100_000); "stale_long" }
                4 => { p.conf = 0; p.ema_conf = 0; "conf_zero" }
                5 => {
                    // just under / over the bank's maximum (scaled by 2.12)
                    let c = conf_for(p.price, max_conf_frac_num, max_conf_den, 212);
                    let d = ctx.rng.irange(-2, 2);
                    p.conf = (c as i64 + d).max(0) as u64;
                    p.ema_conf = conf_for(p.ema_price, max_conf_frac_num, max_conf_den, 212).saturating_add_signed(d);
                    "conf_at_max_boundary"
                }
                6 => {
                    // clamp region: scaled confidence between 5 % and the maximum
                    p.conf = conf_for(p.price, 6, 100, 212);
                    p.ema_conf = conf_for(p.ema_price, 6, 100, 212);
                    "conf_clamp_region"
                }
                7 => { p.conf = (p.price.max(0) as u64) / 2; p.ema_conf = (p.ema_price.max(0) as u64) / 2; "conf_over_max" }
                8 => { p.price = 0; p.ema_price = 0; p.conf = 0; p.ema_conf = 0; "price_zero" }
                9 => { p.price = -p.price.abs().max(1); p.ema_price = -p.ema_price.abs().max(1); "price_negative" }
                10 => { p.verification_full = false; "partial_verification" }
                11 => { let mut d = fixtures::pyth_account_data(info.feed_id, &p); d[0] ^= 0xff; data_override = Some(d); "wrong_discriminator" }
                12 => { let mut d = fixtures::pyth_account_data(info.feed_id, &p); d.truncate(40); data_override = Some(d); "truncated" }
                13 => { owner_override = Some(marginfi::constants::PYTH_ID); "wrong_owner" }
                14 => { p.ema_price = p.price / 2; "ema_half_of_spot" }
                _ => { p.ema_price = p.price.saturating_mul(2); "ema_double_spot" }
            };
            let data = data_override.unwrap_or_else(|| fixtures::pyth_account_data(info.feed_id, &p));
            (info.oracle_key, Some(Account::new(10_000_000, data, owner_override.unwrap_or(owner))), label)
        }
        OracleKind::Swb => {
            let mut s: SwbData = cur.as_ref().and_then(|a| fixtures::parse_swb(&a.data)).unwrap_or(crate::world::swb_from_micro(info.price_micro, 10, now));
            s.last_update_timestamp = now;
            let mut data_override: Option<Vec<u8>> = None;
            let mut owner_override = None;
            let label = match ctx.rng.below(12) {
                0 => { s.last_update_timestamp = now - max_age + 1; "stale_boundary_minus_1" }
                1 => { s.last_update_timestamp = now - max_age; "stale_boundary_exact" }
                2 => { s.last_update_timestamp = now - max_age - 1; "stale_boundary_plus_1" }
                3 => { s.std_dev = 0; "conf_zero" }
                4 => {
                    let c = (s.value.max(0) as u128 * max_conf_frac_num as u128 / max_conf_den as u128 * 100 / 196) as i128;
                    s.std_dev = (c + ctx.rng.irange(-2, 2) as i128).max(0);
                    "conf_at_max_boundary"
                }
                5 => { s.std_dev = s.value.max(0) * 6 / 196; "conf_clamp_region" }
                6 => { s.std_dev = s.value.max(0) / 2; "conf_over_max" }
                7 => { s.value = 0; s.std_dev = 0; "price_zero" }
                8 => { s.value = -s.value.abs().max(1); "price_negative" }
                9 => { s.value = (1i128 << 79) + ctx.rng.below(1 << 40) as i128; "value_out_of_range" }
                10 => { let mut d = fixtures::swb_account_data(&s); d[3] ^= 0xff; data_override = Some(d); "wrong_discriminator" }
                _ => { owner_override = Some(crate::rt::system_id()); "wrong_owner" }
            };
            let data = data_override.unwrap_or_else(|| fixtures::swb_account_data(&s));
            (info.oracle_key, Some(Account::new(10_000_000, data, owner_override.unwrap_or(marginfi::constants::SWITCHBOARD_PULL_ID))), label)
        }
        OracleKind::Fixed => {
            // the admin's only lever: set the fixed price to zero
            let g = &ctx.world.groups[info.group_index];
            sim.stats.fault("oracle_fault_fixed_zero");
            sim.apply(Event::Tx(Tx::one("admin", ix::set_fixed_oracle_price(g.key, g.admins.admin, bank_pk, crate::world::w(0.0)))));
            (Pubkey::default(), None, "fixed_zero")
        }
    } };
    if let Some(a) = acc {
        sim.stats.fault(match label {
            "stale_boundary_minus_1" | "stale_boundary_exact" | "stale_boundary_plus_1" => "oracle_fault_stale_boundary",
            "stale_long" => "oracle_fault_stale_long",
            "conf_zero" | "conf_at_max_boundary" | "conf_clamp_region" | "conf_over_max" => "oracle_fault_confidence",
            "price_zero" | "price_negative" | "value_out_of_range" => "oracle_fault_price_sign_or_range",
            "partial_verification" => "oracle_fault_partial_verification",
            "wrong_discriminator" | "truncated" => "oracle_fault_bad_data",
            "wrong_owner" => "oracle_fault_wrong_owner",
            "lst_supply_zero" | "stake_below_one_sol" | "stake_exactly_one_sol" | "stake_state_not_delegated" | "stake_wrong_owner" => "oracle_fault_stake_pool_unusable",
            "stake_inflated" | "lst_supply_collapsed" | "stake_max" => "oracle_fault_stake_pool_rate_extreme",
            _ => "oracle_fault_ema_divergence",
        });
        sim.apply(Event::SetAccount { key, account: Some(a), why: "oracle_fault" });
    }
    if sim.violated() && sim.stop_on_violation {
        return None;
    }
    // now somebody depends on it
    let ma = match target_acc {
        Some(a) => a,
        None => return None,
    };
    let ui = ctx.world.users.iter().position(|u| u.maccounts.iter().any(|(_, m)| *m == ma))?;
    let u = ctx.world.users[ui].clone();
    let gi = u.maccounts.iter().find(|(_, m)| *m == ma)?.0;
    match ctx.rng.below(5) {
        0 | 1 => {
            // borrow a little more from some bank
            let b = ctx.rng.pick(&ctx.world.groups[gi].banks).clone();
            let ta = *u.tokens.get(&b.keys.mint)?;
            let mut rm = risk_metas(&sim.store, &ma, Some(b.keys.bank), None);
            // account-list faults
            match ctx.rng.below(8) {
                0 if rm.len() >= 2 => {
                    rm.pop();
                    sim.stats.fault("oracle_account_omitted");
                }
                1 if rm.len() >= 4 => {
                    let n = rm.len();
                    rm.swap(1, n - 1);
                    sim.stats.fault("oracle_account_misplaced");
                }
                2 => {
                    rm.push(ix::ro(ctx.world.stranger));
                    sim.stats.fault("surplus_remaining_account");
                }
                3 | 4 => {
                    if let Some(label) = substitute_oracle_account(sim, ctx, &mut rm) {
                        sim.stats.fault(label);
                    }
                }
                _ => {}
            }
            let est = est_max_borrow(sim, &ma, &b.keys.bank).unwrap_or(10);
            Some(Tx::one("user", ix::borrow(&b.keys, ma, u.authority, ta, (est / 4).max(1), rm)))
        }
        2 => {
            if ctx.rng.chance(1, 2) {
                act_withdraw_boundary(sim, ctx)
            } else {
                // a receivership bracket right after the fault: seizure at the doctored price
                crate::actors_tx::act_bracket(sim, ctx, crate::actors_tx::BracketKind::Liquidation)
            }
        }
        3 => act_hunter(sim, ctx),
        _ => {
            let mut rm = risk_metas(&sim.store, &ma, None, None);
            if ctx.rng.chance(1, 2) {
                if let Some(label) = substitute_oracle_account(sim, ctx, &mut rm) {
                    sim.stats.fault(label);
                }
            }
            Some(Tx::one("crank", ix::pulse_health(ma, rm)))
        }
    }
}

/// Account-list fault: one oracle account of one position is replaced by a well-formed look-alike
/// at another address (same owner program, fresh timestamp, far more favourable value).  The
/// look-alike is written as a fixture first, so the list is the only thing that is wrong.
pub fn substitute_oracle_account(sim: &mut Sim, ctx: &mut Ctx, rm: &mut [anchor_lang::prelude::AccountMeta]) -> Option<&'static str> {
    let banks: Vec<Pubkey> = rm.iter().map(|m| m.pubkey).filter(|k| model::bank_of(&sim.store, k).is_some()).collect();
    if banks.is_empty() {
        return None;
    }
    let bk = *ctx.rng.pick(&banks);
    let bank = model::bank_of(&sim.store, &bk)?;
    let keys = crate::world::oracle_metas_for(&bank);
    if keys.is_empty() {
        return None;
    }
    let j = ctx.rng.below(keys.len() as u64) as usize;
    let target = keys[j].pubkey;
    let pos = rm.iter().position(|m| m.pubkey == target)?;
    let cur = sim.store.get(&target)?.clone();
    let now = sim.clock.unix_timestamp;
    let up = ctx.rng.chance(1, 2);
    let mut clone = cur.clone();
    let label: &'static str;
    use marginfi_type_crate::types::OracleSetup;
    match (bank.config.oracle_setup, j) {
        (OracleSetup::PythPushOracle, 0) | (OracleSetup::StakedWithPythPush, 0) => {
            let mut p = fixtures::parse_pyth(&cur.data)?;
            p.publish_time = now;
            if up {
                p.price = p.price.saturating_mul(20);
                p.ema_price = p.ema_price.saturating_mul(20);
            } else {
                p.price /= 20;
                p.ema_price /= 20;
            }
            p.conf = 0;
            p.ema_conf = 0;
            let info = ctx.world.bank_info(&bk)?;
            clone.data = fixtures::pyth_account_data(info.feed_id, &p);
            label = "oracle_account_substituted_feed";
        }
        (OracleSetup::SwitchboardPull, 0) => {
            let mut d = fixtures::parse_swb(&cur.data)?;
            d.last_update_timestamp = now;
            d.value = if up { d.value.saturating_mul(20) } else { d.value / 20 };
            d.std_dev = 0;
            clone.data = fixtures::swb_account_data(&d);
            label = "oracle_account_substituted_feed";
        }
        (OracleSetup::StakedWithPythPush, 1) => {
            let s0 = fixtures::mint_supply(&cur.data)?;
            fixtures::set_mint_supply(&mut clone.data, if up { (s0 / 1000).max(1) } else { s0.saturating_mul(1000) });
            label = "oracle_account_substituted_lst_mint";
        }
        (OracleSetup::StakedWithPythPush, 2) => {
            let st = fixtures::parse_stake(&cur.data)?;
            clone = fixtures::stake_account(if up { st.saturating_mul(1000) } else { (st / 1000).max(1_000_000_001) }, 2);
            label = "oracle_account_substituted_stake_pool";
        }
        _ => return None,
    }
    let key = ctx.rng.pubkey();
    sim.apply(Event::SetAccount { key, account: Some(clone), why: "fixture_lookalike" });
    rm[pos].pubkey = key;
    Some(label)
}
