//! One run = one seed: swarm configuration, genesis, scheduler loop.

use crate::actors::{self, Ctx, Swarm};
use crate::rt::ForeignPrograms;
use crate::sim::{Cov, Event, Monitor, Rng, Sim, Stats, Violation};
use crate::world::{Genesis, WorldCfg};

#[derive(Clone, Copy, Debug, PartialEq, Eq)]
pub struct Profile {
    pub name: &'static str,
    pub faults: bool,
}

pub struct RunOutput {
    pub seed: u64,
    pub violations: Vec<Violation>,
    pub known_hits: Vec<Violation>,
    pub log: Vec<Event>,
    pub genesis_len: usize,
    pub foreign: ForeignPrograms,
    pub stats: Stats,
    pub covs: Vec<(&'static str, Cov)>,
    pub harness_error: Option<String>,
    pub digest: u64,
}

pub fn run_one(
    seed: u64,
    profile: Profile,
    monitors: Vec<Box<dyn Monitor>>,
    known: &[(String, String, String)],
) -> RunOutput {
    let mut rng = Rng::new(seed);
    let mut sim = Sim::new(monitors);
    sim.stop_on_violation = true;
    let mut cfg = WorldCfg::swarm(&mut rng);
    if profile.name == "AUTH" {
        cfg.n_groups = 2;
        cfg.n_banks = cfg.n_banks.min(3);
    }
    let world = Genesis::build(&mut sim, &mut rng, &cfg);
    let genesis_len = sim.log.len();
    let mut harness_error = None;
    let mut known_hits: Vec<Violation> = Vec::new();
    match world {
        Err(e) => harness_error = Some(e),
        Ok(mut world) => {
            // genesis itself is judged by the monitors too; a violation there is reported
            let swarm = match profile.name {
                "TX" | "AUTH" => Swarm::tx(&mut rng, profile.faults),
                "ORA" => Swarm::ora(&mut rng, profile.faults),
                _ => Swarm::mkt(&mut rng, profile.faults),
            };
            let (adm, adm_share) = match profile.name {
                "ADM" => (crate::actors_adm::AdmSwarm::adm(&mut rng), rng.range(250, 600) as u32),
                // venue banks under operator churn: bank states flipped, pauses, freezes
                "INTEGADM" => {
                    if rng.chance(1, 2) {
                        (crate::actors_adm::AdmSwarm::adm(&mut rng), rng.range(150, 400) as u32)
                    } else {
                        (crate::actors_adm::AdmSwarm::pause(&mut rng), rng.range(300, 600) as u32)
                    }
                }
                "PAUSE" => (crate::actors_adm::AdmSwarm::pause(&mut rng), rng.range(400, 800) as u32),
                "AUTH" => (crate::actors_adm::AdmSwarm::adm(&mut rng), rng.range(200, 400) as u32),
                "EMI" => (crate::actors_adm::AdmSwarm::emi(&mut rng), rng.range(300, 600) as u32),
                _ => (crate::actors_adm::AdmSwarm::none(), 0),
            };
            let steps = rng.range(50, 400);
            let mut ctx = Ctx {
                world: &mut world,
                rng: &mut rng,
                swarm: &swarm,
                adm: &adm,
                adm_share,
                mempool: Vec::new(),
            };
            if (profile.name == "ADM" && ctx.rng.chance(1, 3)) || (profile.name == "MKT" && ctx.rng.chance(1, 10)) {
                crate::actors_adm::drill_kill_bank(&mut sim, &mut ctx);
            }
            let with_integ = profile.name.starts_with("INTEG") || (profile.name == "AUTH" && ctx.rng.chance(1, 3));
            let integ = if with_integ { crate::actors_integ::setup(&mut sim, &mut ctx) } else { None };
            let integ_only = profile.name == "INTEG";
            for _ in 0..steps {
                match (&integ, profile.name) {
                    (Some(st), _) => {
                        crate::actors_integ::pre_step(&mut sim, &mut ctx, st);
                        match ctx.rng.below(if integ_only { 8 } else { 12 }) {
                            0..=2 => crate::actors_integ::step(&mut sim, &mut ctx, st),
                            3 => {
                                if ctx.rng.chance(1, 2) {
                                    crate::actors_integ::bracket_step(&mut sim, &mut ctx, st)
                                } else {
                                    crate::actors_integ::borrow_step(&mut sim, &mut ctx, st)
                                }
                            }
                            _ => actors::step_mkt(&mut sim, &mut ctx),
                        }
                    }
                    _ => actors::step_mkt(&mut sim, &mut ctx),
                }
                // move known-finding hits aside so the run continues
                if !sim.violations.is_empty() {
                    let (k, u): (Vec<Violation>, Vec<Violation>) = sim
                        .violations
                        .drain(..)
                        .partition(|v| known.contains(&v.class()));
                    known_hits.extend(k);
                    sim.violations = u;
                }
                if sim.violated() {
                    break;
                }
            }
            if !sim.violated() {
                sim.finish();
                let (k, u): (Vec<Violation>, Vec<Violation>) = sim
                    .violations
                    .drain(..)
                    .partition(|v| known.contains(&v.class()));
                known_hits.extend(k);
                sim.violations = u;
            }
        }
    }
    let covs = sim
        .monitors
        .iter()
        .map(|m| (m.property(), m.cov().clone()))
        .collect();
    RunOutput {
        seed,
        violations: sim.violations.clone(),
        known_hits,
        digest: sim.store.digest() ^ (sim.log.len() as u64).wrapping_mul(0x9E3779B97F4A7C15),
        log: sim.log,
        genesis_len,
        foreign: sim.exec.foreign,
        stats: sim.stats,
        covs,
        harness_error,
    }
}
